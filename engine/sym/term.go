// Package sym holds the symbolic layer of gosym: hash-consed SMT terms over
// Int / Real / Bool with conservative integer intervals, a light simplifier,
// an SMT-LIB2 printer and an incremental solver pipe.
package sym

import (
	"fmt"
	"math/big"
	"strings"
)

type Sort uint8

const (
	SBool Sort = iota
	SInt
	SReal
)

func (s Sort) String() string {
	switch s {
	case SBool:
		return "Bool"
	case SInt:
		return "Int"
	}
	return "Real"
}

type Op uint8

const (
	OConst Op = iota
	OVar
	OAdd
	OSub
	OMul
	ODiv // Int: SMT div (floor for positive divisor); Real: /
	OMod // SMT mod
	ONeg
	OIte
	ONot
	OAnd
	OOr
	OEq
	OLt
	OLe
	OToReal
	OToInt // floor
	ORnd   // uninterpreted rounding operator Real->Real
	OAbs
)

var opNames = map[Op]string{OAdd: "+", OSub: "-", OMul: "*", ODiv: "div", OMod: "mod", ONeg: "-", OIte: "ite",
	ONot: "not", OAnd: "and", OOr: "or", OEq: "=", OLt: "<", OLe: "<=", OToReal: "to_real", OToInt: "to_int", ORnd: "rnd", OAbs: "abs"}

// Term is an immutable hash-consed term.
type Term struct {
	Op   Op
	Sort Sort
	Args []*Term
	Name string   // OVar
	IV   *big.Int // OConst Int
	RV   *big.Rat // OConst Real
	BV   bool     // OConst Bool
	// conservative interval for Int-sorted terms (nil = unbounded on that side)
	Lo, Hi *big.Int
	ID     int
	nvars  int8 // 0 = ground, 1 = has variables
	// dyadic grid of a Real-sorted term: when gok, the value is a multiple of 2^-gk and its
	// magnitude is at most 2^gm. A value on a grid with gk+gm <= 52 is exactly representable in
	// binary64, so rounding it is the identity.
	gok    bool
	gk, gm int
}

var (
	table   = map[string]*Term{}
	nextID  = 1
	True    = mk(&Term{Op: OConst, Sort: SBool, BV: true}, "T")
	False   = mk(&Term{Op: OConst, Sort: SBool, BV: false}, "F")
	bigZero = big.NewInt(0)
	bigOne  = big.NewInt(1)
	two53    = new(big.Int).Lsh(big.NewInt(1), 53)
	negTwo53 = new(big.Int).Neg(two53)
)

// NumTerms reports the number of distinct terms created so far.
func NumTerms() int { return nextID - 1 }

func mk(t *Term, key string) *Term {
	if old, ok := table[key]; ok {
		return old
	}
	t.ID = nextID
	nextID++
	if t.Op == OVar {
		t.nvars = 1
	}
	for _, a := range t.Args {
		if a.nvars != 0 {
			t.nvars = 1
		}
	}
	table[key] = t
	return t
}

func key(op Op, args ...*Term) string {
	var sb strings.Builder
	sb.WriteByte(byte('a' + op))
	for _, a := range args {
		fmt.Fprintf(&sb, ",%d", a.ID)
	}
	return sb.String()
}

func (t *Term) IsConst() bool { return t.Op == OConst }
func (t *Term) HasVars() bool { return t.nvars != 0 }

// ---------- constants and variables ----------

func Bool(b bool) *Term {
	if b {
		return True
	}
	return False
}

func Int(v int64) *Term { return IntBig(big.NewInt(v)) }

func IntBig(v *big.Int) *Term {
	k := "i" + v.String()
	if old, ok := table[k]; ok {
		return old
	}
	c := new(big.Int).Set(v)
	return mk(&Term{Op: OConst, Sort: SInt, IV: c, Lo: c, Hi: c}, k)
}

func Uint(v uint64) *Term { return IntBig(new(big.Int).SetUint64(v)) }

func Real(r *big.Rat) *Term {
	k := "r" + r.String()
	if old, ok := table[k]; ok {
		return old
	}
	t := &Term{Op: OConst, Sort: SReal, RV: new(big.Rat).Set(r)}
	// dyadic constant?
	d := r.Denom()
	if d.Sign() > 0 && new(big.Int).And(d, new(big.Int).Sub(d, bigOne)).Sign() == 0 {
		t.gok, t.gk = true, d.BitLen()-1
		t.gm = new(big.Int).Quo(new(big.Int).Abs(r.Num()), d).BitLen()
	}
	return mk(t, k)
}

func RealF(f float64) *Term {
	r := new(big.Rat)
	if r.SetFloat64(f) == nil {
		panic("sym.RealF: non-finite float")
	}
	return Real(r)
}

// Var creates (or returns) a variable. lo/hi may be nil for Int; ignored for others.
func Var(name string, s Sort, lo, hi *big.Int) *Term {
	k := fmt.Sprintf("v%s:%d:%v:%v", name, s, lo, hi)
	if old, ok := table[k]; ok {
		return old
	}
	return mk(&Term{Op: OVar, Sort: s, Name: name, Lo: lo, Hi: hi}, k)
}

func IntVar(name string, lo, hi int64) *Term {
	return Var(name, SInt, big.NewInt(lo), big.NewInt(hi))
}

// ---------- interval helpers ----------

func minB(a, b *big.Int) *big.Int {
	if a == nil || b == nil {
		return nil
	}
	if a.Cmp(b) <= 0 {
		return a
	}
	return b
}
func maxB(a, b *big.Int) *big.Int {
	if a == nil || b == nil {
		return nil
	}
	if a.Cmp(b) >= 0 {
		return a
	}
	return b
}
func addB(a, b *big.Int) *big.Int {
	if a == nil || b == nil {
		return nil
	}
	return new(big.Int).Add(a, b)
}
func subB(a, b *big.Int) *big.Int {
	if a == nil || b == nil {
		return nil
	}
	return new(big.Int).Sub(a, b)
}
func negB(a *big.Int) *big.Int {
	if a == nil {
		return nil
	}
	return new(big.Int).Neg(a)
}

// ---------- integer arithmetic ----------

func Add(a, b *Term) *Term {
	if a.Sort == SReal || b.Sort == SReal {
		return radd(a, b)
	}
	if a.IsConst() && b.IsConst() {
		return IntBig(new(big.Int).Add(a.IV, b.IV))
	}
	if a.IsConst() && a.IV.Sign() == 0 {
		return b
	}
	if b.IsConst() && b.IV.Sign() == 0 {
		return a
	}
	// (x + c1) + c2
	if b.IsConst() && a.Op == OAdd && a.Args[1].IsConst() {
		return Add(a.Args[0], IntBig(new(big.Int).Add(a.Args[1].IV, b.IV)))
	}
	if a.IsConst() && !b.IsConst() {
		a, b = b, a
	}
	return mk(&Term{Op: OAdd, Sort: SInt, Args: []*Term{a, b}, Lo: addB(a.Lo, b.Lo), Hi: addB(a.Hi, b.Hi)}, key(OAdd, a, b))
}

func Sub(a, b *Term) *Term {
	if a.Sort == SReal || b.Sort == SReal {
		return rbin(OSub, a, b)
	}
	if b.IsConst() {
		return Add(a, IntBig(new(big.Int).Neg(b.IV)))
	}
	if a == b {
		return Int(0)
	}
	return mk(&Term{Op: OSub, Sort: SInt, Args: []*Term{a, b}, Lo: subB(a.Lo, b.Hi), Hi: subB(a.Hi, b.Lo)}, key(OSub, a, b))
}

func Neg(a *Term) *Term {
	if a.Op == ONeg {
		return a.Args[0]
	}
	if a.Sort == SReal {
		if a.IsConst() {
			return Real(new(big.Rat).Neg(a.RV))
		}
		return mk(&Term{Op: ONeg, Sort: SReal, Args: []*Term{a}, gok: a.gok, gk: a.gk, gm: a.gm}, key(ONeg, a))
	}
	if a.IsConst() {
		return IntBig(new(big.Int).Neg(a.IV))
	}
	return mk(&Term{Op: ONeg, Sort: SInt, Args: []*Term{a}, Lo: negB(a.Hi), Hi: negB(a.Lo)}, key(ONeg, a))
}

func Mul(a, b *Term) *Term {
	if a.Sort == SReal || b.Sort == SReal {
		return rbin(OMul, a, b)
	}
	if a.IsConst() && b.IsConst() {
		return IntBig(new(big.Int).Mul(a.IV, b.IV))
	}
	if a.IsConst() && !b.IsConst() {
		a, b = b, a
	}
	if b.IsConst() {
		if b.IV.Sign() == 0 {
			return Int(0)
		}
		if b.IV.Cmp(bigOne) == 0 {
			return a
		}
	}
	var lo, hi *big.Int
	if a.Lo != nil && a.Hi != nil && b.Lo != nil && b.Hi != nil {
		c := []*big.Int{new(big.Int).Mul(a.Lo, b.Lo), new(big.Int).Mul(a.Lo, b.Hi), new(big.Int).Mul(a.Hi, b.Lo), new(big.Int).Mul(a.Hi, b.Hi)}
		lo, hi = c[0], c[0]
		for _, x := range c[1:] {
			lo, hi = minB(lo, x), maxB(hi, x)
		}
	}
	return mk(&Term{Op: OMul, Sort: SInt, Args: []*Term{a, b}, Lo: lo, Hi: hi}, key(OMul, a, b))
}

// DivFloor is SMT-LIB "div" (Euclidean): for b>0 it is floor(a/b).
func DivFloor(a, b *Term) *Term {
	if a.IsConst() && b.IsConst() && b.IV.Sign() != 0 {
		q, m := new(big.Int).DivMod(a.IV, b.IV, new(big.Int))
		_ = m
		return IntBig(q)
	}
	if b.IsConst() && b.IV.Cmp(bigOne) == 0 {
		return a
	}
	var lo, hi *big.Int
	if b.IsConst() && b.IV.Sign() > 0 {
		if a.Lo != nil {
			lo, _ = new(big.Int).DivMod(a.Lo, b.IV, new(big.Int))
		}
		if a.Hi != nil {
			hi, _ = new(big.Int).DivMod(a.Hi, b.IV, new(big.Int))
		}
	} else if a.Lo != nil && a.Hi != nil {
		// |a div b| <= |a| for |b| >= 1
		m := maxB(new(big.Int).Abs(a.Lo), new(big.Int).Abs(a.Hi))
		m = new(big.Int).Add(m, bigOne)
		lo, hi = new(big.Int).Neg(m), m
	}
	return mk(&Term{Op: ODiv, Sort: SInt, Args: []*Term{a, b}, Lo: lo, Hi: hi}, key(ODiv, a, b))
}

// ModFloor is SMT-LIB "mod": result in [0,|b|).
func ModFloor(a, b *Term) *Term {
	if a.IsConst() && b.IsConst() && b.IV.Sign() != 0 {
		_, m := new(big.Int).DivMod(a.IV, b.IV, new(big.Int))
		return IntBig(m)
	}
	var lo, hi *big.Int
	lo = bigZero
	if b.IsConst() && b.IV.Sign() > 0 {
		hi = new(big.Int).Sub(b.IV, bigOne)
		// a already inside [0,b) ?
		if a.Lo != nil && a.Hi != nil && a.Lo.Sign() >= 0 && a.Hi.Cmp(b.IV) < 0 {
			return a
		}
	} else if b.Lo != nil && b.Hi != nil {
		hi = maxB(new(big.Int).Abs(b.Lo), new(big.Int).Abs(b.Hi))
	}
	return mk(&Term{Op: OMod, Sort: SInt, Args: []*Term{a, b}, Lo: lo, Hi: hi}, key(OMod, a, b))
}

// knownNonNeg / knownPos use the static interval.
func (t *Term) NonNeg() bool   { return t.Lo != nil && t.Lo.Sign() >= 0 }
func (t *Term) Pos() bool      { return t.Lo != nil && t.Lo.Sign() > 0 }
func (t *Term) NonPos() bool   { return t.Hi != nil && t.Hi.Sign() <= 0 }
func (t *Term) Negative() bool { return t.Hi != nil && t.Hi.Sign() < 0 }

// Quo is Go's truncated integer division a / b (b != 0 is the caller's obligation).
func Quo(a, b *Term) *Term {
	if a.IsConst() && b.IsConst() && b.IV.Sign() != 0 {
		return IntBig(new(big.Int).Quo(a.IV, b.IV))
	}
	switch {
	case a.NonNeg() && b.Pos():
		return DivFloor(a, b)
	case a.NonNeg() && b.Negative():
		return Neg(DivFloor(a, Neg(b)))
	case a.NonPos() && b.Pos():
		return Neg(DivFloor(Neg(a), b))
	case a.NonPos() && b.Negative():
		return DivFloor(Neg(a), Neg(b))
	}
	if b.Pos() {
		return Ite(Le(Int(0), a), DivFloor(a, b), Neg(DivFloor(Neg(a), b)))
	}
	if b.Negative() {
		nb := Neg(b)
		return Ite(Le(Int(0), a), Neg(DivFloor(a, nb)), DivFloor(Neg(a), nb))
	}
	absA := Ite(Le(Int(0), a), a, Neg(a))
	absB := Ite(Le(Int(0), b), b, Neg(b))
	q := DivFloor(absA, absB)
	same := Eq(Le(Int(0), a), Le(Int(0), b))
	return Ite(same, q, Neg(q))
}

// Rem is Go's truncated remainder a % b: a - (a/b)*b.
func Rem(a, b *Term) *Term {
	if a.IsConst() && b.IsConst() && b.IV.Sign() != 0 {
		return IntBig(new(big.Int).Rem(a.IV, b.IV))
	}
	if a.NonNeg() && b.Pos() {
		return ModFloor(a, b)
	}
	if a.NonNeg() && b.Negative() {
		return ModFloor(a, Neg(b))
	}
	return Sub(a, Mul(Quo(a, b), b))
}

// ---------- booleans ----------

func Not(a *Term) *Term {
	if a.IsConst() {
		return Bool(!a.BV)
	}
	if a.Op == ONot {
		return a.Args[0]
	}
	return mk(&Term{Op: ONot, Sort: SBool, Args: []*Term{a}}, key(ONot, a))
}

func And(xs ...*Term) *Term {
	var out []*Term
	for _, x := range xs {
		if x.IsConst() {
			if !x.BV {
				return False
			}
			continue
		}
		if x.Op == OAnd {
			out = append(out, x.Args...)
			continue
		}
		out = append(out, x)
	}
	out = dedup(out)
	for _, x := range out {
		if x.Op == ONot {
			for _, y := range out {
				if y == x.Args[0] {
					return False
				}
			}
		}
	}
	switch len(out) {
	case 0:
		return True
	case 1:
		return out[0]
	}
	return mk(&Term{Op: OAnd, Sort: SBool, Args: out}, key(OAnd, out...))
}

func Or(xs ...*Term) *Term {
	var out []*Term
	for _, x := range xs {
		if x.IsConst() {
			if x.BV {
				return True
			}
			continue
		}
		if x.Op == OOr {
			out = append(out, x.Args...)
			continue
		}
		out = append(out, x)
	}
	out = dedup(out)
	for _, x := range out {
		if x.Op == ONot {
			for _, y := range out {
				if y == x.Args[0] {
					return True
				}
			}
		}
	}
	switch len(out) {
	case 0:
		return False
	case 1:
		return out[0]
	}
	return mk(&Term{Op: OOr, Sort: SBool, Args: out}, key(OOr, out...))
}

func dedup(xs []*Term) []*Term {
	if len(xs) < 2 {
		return xs
	}
	seen := make(map[int]bool, len(xs))
	out := xs[:0:0]
	for _, x := range xs {
		if !seen[x.ID] {
			seen[x.ID] = true
			out = append(out, x)
		}
	}
	return out
}

func Implies(a, b *Term) *Term { return Or(Not(a), b) }

func Ite(c, a, b *Term) *Term {
	if c.IsConst() {
		if c.BV {
			return a
		}
		return b
	}
	if a == b {
		return a
	}
	if a.Sort == SBool {
		if a.IsConst() && b.IsConst() {
			if a.BV {
				return c
			}
			return Not(c)
		}
		return Or(And(c, a), And(Not(c), b))
	}
	if c.Op == ONot {
		return Ite(c.Args[0], b, a)
	}
	t := &Term{Op: OIte, Sort: a.Sort, Args: []*Term{c, a, b}}
	if a.Sort == SInt {
		t.Lo, t.Hi = minB(a.Lo, b.Lo), maxB(a.Hi, b.Hi)
	}
	if a.Sort == SReal && a.gok && b.gok {
		t.gok, t.gk, t.gm = true, a.gk, a.gm
		if b.gk > t.gk {
			t.gk = b.gk
		}
		if b.gm > t.gm {
			t.gm = b.gm
		}
	}
	return mk(t, key(OIte, c, a, b))
}

func Eq(a, b *Term) *Term {
	if a == b {
		return True
	}
	if a.Sort != b.Sort {
		if a.Sort == SInt && b.Sort == SReal {
			a = ToReal(a)
		} else if a.Sort == SReal && b.Sort == SInt {
			b = ToReal(b)
		} else {
			panic(fmt.Sprintf("sym.Eq: sort mismatch %v %v", a.Sort, b.Sort))
		}
	}
	switch a.Sort {
	case SBool:
		if a.IsConst() {
			if a.BV {
				return b
			}
			return Not(b)
		}
		if b.IsConst() {
			if b.BV {
				return a
			}
			return Not(a)
		}
	case SInt:
		if a.IsConst() && b.IsConst() {
			return Bool(a.IV.Cmp(b.IV) == 0)
		}
		// disjoint intervals
		if a.Hi != nil && b.Lo != nil && a.Hi.Cmp(b.Lo) < 0 {
			return False
		}
		if b.Hi != nil && a.Lo != nil && b.Hi.Cmp(a.Lo) < 0 {
			return False
		}
		// x + c1 = c2
		if b.IsConst() && a.Op == OAdd && a.Args[1].IsConst() {
			return Eq(a.Args[0], IntBig(new(big.Int).Sub(b.IV, a.Args[1].IV)))
		}
		if a.IsConst() {
			a, b = b, a
		}
		// ite(c, k1, k2) = k  with constants
		if b.IsConst() && a.Op == OIte && a.Args[1].IsConst() && a.Args[2].IsConst() {
			e1 := a.Args[1].IV.Cmp(b.IV) == 0
			e2 := a.Args[2].IV.Cmp(b.IV) == 0
			switch {
			case e1 && e2:
				return True
			case e1:
				return a.Args[0]
			case e2:
				return Not(a.Args[0])
			default:
				return False
			}
		}
	case SReal:
		if a.IsConst() && b.IsConst() {
			return Bool(a.RV.Cmp(b.RV) == 0)
		}
	}
	if a.ID > b.ID && !b.IsConst() {
		a, b = b, a
	}
	return mk(&Term{Op: OEq, Sort: SBool, Args: []*Term{a, b}}, key(OEq, a, b))
}

func Lt(a, b *Term) *Term {
	if a.Sort == SReal || b.Sort == SReal {
		return rcmp(OLt, a, b)
	}
	if a == b {
		return False
	}
	if a.Hi != nil && b.Lo != nil && a.Hi.Cmp(b.Lo) < 0 {
		return True
	}
	if a.Lo != nil && b.Hi != nil && a.Lo.Cmp(b.Hi) >= 0 {
		return False
	}
	if b.IsConst() && a.Op == OAdd && a.Args[1].IsConst() {
		return Lt(a.Args[0], IntBig(new(big.Int).Sub(b.IV, a.Args[1].IV)))
	}
	if a.IsConst() && b.Op == OAdd && b.Args[1].IsConst() {
		return Lt(IntBig(new(big.Int).Sub(a.IV, b.Args[1].IV)), b.Args[0])
	}
	// x < c  ==>  x <= c-1 ; c < x ==> c+1 <= x   (canonical form with Le)
	if b.IsConst() {
		return Le(a, IntBig(new(big.Int).Sub(b.IV, bigOne)))
	}
	if a.IsConst() {
		return Le(IntBig(new(big.Int).Add(a.IV, bigOne)), b)
	}
	return Not(Le(b, a))
}

func Le(a, b *Term) *Term {
	if a.Sort == SReal || b.Sort == SReal {
		return rcmp(OLe, a, b)
	}
	if a == b {
		return True
	}
	if a.Hi != nil && b.Lo != nil && a.Hi.Cmp(b.Lo) <= 0 {
		return True
	}
	if a.Lo != nil && b.Hi != nil && a.Lo.Cmp(b.Hi) > 0 {
		return False
	}
	if b.IsConst() && a.Op == OAdd && a.Args[1].IsConst() {
		return Le(a.Args[0], IntBig(new(big.Int).Sub(b.IV, a.Args[1].IV)))
	}
	if a.IsConst() && b.Op == OAdd && b.Args[1].IsConst() {
		return Le(IntBig(new(big.Int).Sub(a.IV, b.Args[1].IV)), b.Args[0])
	}
	return mk(&Term{Op: OLe, Sort: SBool, Args: []*Term{a, b}}, key(OLe, a, b))
}

func Gt(a, b *Term) *Term { return Lt(b, a) }
func Ge(a, b *Term) *Term { return Le(b, a) }
func Ne(a, b *Term) *Term { return Not(Eq(a, b)) }

// ---------- reals ----------

func ToReal(a *Term) *Term {
	if a.Sort == SReal {
		return a
	}
	if a.IsConst() {
		return Real(new(big.Rat).SetInt(a.IV))
	}
	t := &Term{Op: OToReal, Sort: SReal, Args: []*Term{a}}
	if a.Lo != nil && a.Hi != nil {
		m := maxB(new(big.Int).Abs(a.Lo), new(big.Int).Abs(a.Hi))
		t.gok, t.gk, t.gm = true, 0, m.BitLen()
	}
	return mk(t, key(OToReal, a))
}

// ToIntFloor is SMT to_int (floor).
func ToIntFloor(a *Term) *Term {
	if a.IsConst() {
		n, d := a.RV.Num(), a.RV.Denom()
		q, _ := new(big.Int).DivMod(n, d, new(big.Int))
		return IntBig(q)
	}
	if a.Op == OToReal {
		return a.Args[0]
	}
	return mk(&Term{Op: OToInt, Sort: SInt, Args: []*Term{a}}, key(OToInt, a))
}

func coerceR(a *Term) *Term {
	if a.Sort == SInt {
		return ToReal(a)
	}
	return a
}

func radd(a, b *Term) *Term { return rbin(OAdd, a, b) }

func rbin(op Op, a, b *Term) *Term {
	a, b = coerceR(a), coerceR(b)
	// (x + x) / 2 = x
	if op == ODiv && b.IsConst() && b.RV.Cmp(big.NewRat(2, 1)) == 0 && a.Op == OAdd && a.Sort == SReal && a.Args[0] == a.Args[1] {
		return a.Args[0]
	}
	if op == OSub && a == b {
		return Real(new(big.Rat))
	}
	if (op == OMul || op == ODiv) && a.IsConst() && a.RV.Sign() == 0 {
		return a // 0 * x = 0 / x = 0 (a zero divisor is excluded by the caller's obligation)
	}
	if op == OMul && b.IsConst() && b.RV.Sign() == 0 {
		return b
	}
	// canonical orientation of differences and sign normalisation: x - y with a fixed operand
	// order, signs pulled outwards. (Round-to-nearest is odd: rnd(-t) = -rnd(t).)
	if op == OSub && !a.IsConst() && !b.IsConst() && a.ID > b.ID {
		return Neg(rbin(OSub, b, a))
	}
	if op == OMul || op == ODiv {
		na, nb := a.Op == ONeg, b.Op == ONeg
		if na && nb {
			return rbin(op, a.Args[0], b.Args[0])
		}
		if na {
			return Neg(rbin(op, a.Args[0], b))
		}
		if nb {
			return Neg(rbin(op, a, b.Args[0]))
		}
	}
	if a.IsConst() && b.IsConst() {
		r := new(big.Rat)
		switch op {
		case OAdd:
			r.Add(a.RV, b.RV)
		case OSub:
			r.Sub(a.RV, b.RV)
		case OMul:
			r.Mul(a.RV, b.RV)
		case ODiv:
			if b.RV.Sign() == 0 {
				goto generic
			}
			r.Quo(a.RV, b.RV)
		}
		return Real(r)
	}
generic:
	t := &Term{Op: op, Sort: SReal, Args: []*Term{a, b}}
	if a.gok && b.gok {
		switch op {
		case OAdd, OSub:
			t.gok = true
			t.gk = a.gk
			if b.gk > t.gk {
				t.gk = b.gk
			}
			t.gm = a.gm
			if b.gm > t.gm {
				t.gm = b.gm
			}
			t.gm++
		case OMul:
			t.gok, t.gk, t.gm = true, a.gk+b.gk, a.gm+b.gm
		case ODiv:
			// division by a power of two only shifts the grid
			if b.IsConst() && b.RV.Sign() > 0 && b.RV.IsInt() {
				n := b.RV.Num()
				if new(big.Int).And(n, new(big.Int).Sub(n, bigOne)).Sign() == 0 {
					sh := n.BitLen() - 1
					t.gok, t.gk, t.gm = true, a.gk+sh, a.gm-sh
					if t.gm < 0 {
						t.gm = 0
					}
				}
			}
		}
	}
	return mk(t, string(rune('R'))+key(op, a, b))
}

// RDiv divides reals. A divisor that is an ite-tree over constants (e.g. the
// number of days in a year, 365 + (leap ? 1 : 0)) is lifted out so that every
// division is by a constant and the query stays linear.
func RDiv(a, b *Term) *Term {
	if !b.IsConst() {
		if cs, ok := constCases(b, 0); ok && len(cs) > 1 && len(cs) <= 8 {
			res := rbin(ODiv, a, Real(cs[len(cs)-1].val))
			for i := len(cs) - 2; i >= 0; i-- {
				res = Ite(cs[i].cond, rbin(ODiv, a, Real(cs[i].val)), res)
			}
			return res
		}
	}
	return rbin(ODiv, a, b)
}

type constCase struct {
	cond *Term
	val  *big.Rat
}

// constCases decomposes t into guarded constant values if t is built from constants, ite and +.
func constCases(t *Term, depth int) ([]constCase, bool) {
	if depth > 6 {
		return nil, false
	}
	switch t.Op {
	case OConst:
		if t.Sort == SInt {
			return []constCase{{True, new(big.Rat).SetInt(t.IV)}}, true
		}
		if t.Sort == SReal {
			return []constCase{{True, t.RV}}, true
		}
	case OToReal:
		return constCases(t.Args[0], depth+1)
	case OIte:
		a, ok1 := constCases(t.Args[1], depth+1)
		b, ok2 := constCases(t.Args[2], depth+1)
		if !ok1 || !ok2 {
			return nil, false
		}
		var out []constCase
		for _, c := range a {
			out = append(out, constCase{And(t.Args[0], c.cond), c.val})
		}
		for _, c := range b {
			out = append(out, constCase{And(Not(t.Args[0]), c.cond), c.val})
		}
		return out, len(out) <= 8
	case OAdd:
		a, ok1 := constCases(t.Args[0], depth+1)
		b, ok2 := constCases(t.Args[1], depth+1)
		if !ok1 || !ok2 || len(a)*len(b) > 8 {
			return nil, false
		}
		var out []constCase
		for _, x := range a {
			for _, y := range b {
				c := And(x.cond, y.cond)
				if c == False {
					continue
				}
				out = append(out, constCase{c, new(big.Rat).Add(x.val, y.val)})
			}
		}
		return out, true
	}
	return nil, false
}

func rcmp(op Op, a, b *Term) *Term {
	a, b = coerceR(a), coerceR(b)
	if a.IsConst() && b.IsConst() {
		c := a.RV.Cmp(b.RV)
		if op == OLt {
			return Bool(c < 0)
		}
		return Bool(c <= 0)
	}
	if a == b {
		return Bool(op == OLe)
	}
	if op == OLt {
		return Not(mk(&Term{Op: OLe, Sort: SBool, Args: []*Term{b, a}}, key(OLe, b, a)))
	}
	return mk(&Term{Op: OLe, Sort: SBool, Args: []*Term{a, b}}, key(OLe, a, b))
}

// Rnd applies the uninterpreted rounding operator.
func Rnd(a *Term) *Term {
	a = coerceR(a)
	if a.Op == ORnd {
		return a
	}
	if a.Op == ONeg {
		return Neg(Rnd(a.Args[0])) // rounding to nearest is an odd function
	}
	if a.IsConst() {
		f, _ := a.RV.Float64() // nearest binary64, ties to even
		return RealF(f)
	}
	if a.Op == OToReal {
		x := a.Args[0]
		if x.Lo != nil && x.Hi != nil && x.Lo.Cmp(negTwo53) >= 0 && x.Hi.Cmp(two53) <= 0 {
			return a // integers of magnitude <= 2^53 are exactly representable
		}
	}
	if a.gok && a.gk+a.gm <= 52 && a.gk <= 1000 {
		return a // on a dyadic grid fine enough to be exactly representable
	}
	if isFloatValued(a) {
		return a
	}
	// x + x is exact for a binary64 x (overflow to infinity is outside the model)
	if a.Op == OAdd && len(a.Args) == 2 && a.Args[0] == a.Args[1] && isFloatValued(a.Args[0]) {
		return a
	}
	return mk(&Term{Op: ORnd, Sort: SReal, Args: []*Term{a}}, key(ORnd, a))
}

// isFloatValued: the term denotes a binary64 value on every assignment.
func isFloatValued(a *Term) bool {
	switch a.Op {
	case ORnd:
		return true
	case OConst:
		if a.Sort != SReal {
			return false
		}
		f, exact := a.RV.Float64()
		_ = f
		return exact
	case ONeg:
		return isFloatValued(a.Args[0])
	case OIte:
		return isFloatValued(a.Args[1]) && isFloatValued(a.Args[2])
	}
	return false
}

func Abs(a *Term) *Term {
	if a.Sort == SInt {
		if a.NonNeg() {
			return a
		}
		return Ite(Le(Int(0), a), a, Neg(a))
	}
	if a.IsConst() {
		return Real(new(big.Rat).Abs(a.RV))
	}
	return Ite(Le(Real(new(big.Rat)), a), a, Neg(a))
}

// ---------- traversal ----------

// Vars collects the variables of t into set.
func Vars(t *Term, set map[*Term]bool, seen map[int]bool) {
	if !t.HasVars() || seen[t.ID] {
		return
	}
	seen[t.ID] = true
	if t.Op == OVar {
		set[t] = true
		return
	}
	for _, a := range t.Args {
		Vars(a, set, seen)
	}
}

// Size returns the DAG size of t.
func Size(t *Term) int {
	seen := map[int]bool{}
	var rec func(*Term) int
	rec = func(t *Term) int {
		if seen[t.ID] {
			return 0
		}
		seen[t.ID] = true
		n := 1
		for _, a := range t.Args {
			n += rec(a)
		}
		return n
	}
	return rec(t)
}

func (t *Term) String() string { return Print(t) }
