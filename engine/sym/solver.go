package sym

import (
	"bufio"
	"fmt"
	"io"
	"math/big"
	"os"
	"os/exec"
	"strings"
	"time"
)

type Result int

const (
	Unsat Result = iota
	Sat
	Unknown
)

func (r Result) String() string { return [...]string{"unsat", "sat", "unknown"}[r] }

// Stats are per-solver counters.
type Stats struct {
	Sat, Unsat, Unknown int
	Time                time.Duration
	Restarts            int
	Fallbacks           int
	Hangs               int
	Errors              []string
}

// Solver is an incremental SMT solver process driven over a pipe.
type Solver struct {
	Kind      string // "z3", "z3-new", "cvc5"
	TimeoutMS int
	cmd       *exec.Cmd
	in        io.WriteCloser
	out       *bufio.Reader
	level     int
	declared  map[string]int // var name -> level declared at
	rnd       [][]*Term      // per level: rnd applications axiomatised
	Stats     Stats
	Log       io.Writer // optional transcript
	asserts   [][]*Term // per level assertions (for restart/retry on another solver)
	// FastMS > 0: incremental checks run under this short limit; a query that comes back
	// unknown is re-solved from scratch (reset + full assertion stack) by a helper process,
	// where z3's preprocessing applies, under TimeoutMS.
	FastMS   int
	helper   *Solver
	modelSrc *Solver
	isHelper bool
}

func NewSolver(kind string, timeoutMS int) (*Solver, error) {
	s := &Solver{Kind: kind, TimeoutMS: timeoutMS}
	if err := s.start(); err != nil {
		return nil, err
	}
	return s, nil
}

// NewSolverWithFallback starts an incremental solver whose checks are limited to fastMS and
// fall back to a from-scratch solve under timeoutMS.
func NewSolverWithFallback(kind string, fastMS, timeoutMS int) (*Solver, error) {
	s := &Solver{Kind: kind, TimeoutMS: timeoutMS, FastMS: fastMS}
	if err := s.start(); err != nil {
		return nil, err
	}
	return s, nil
}

func (s *Solver) effectiveTimeout() int {
	if s.FastMS > 0 && !s.isHelper {
		return s.FastMS
	}
	return s.TimeoutMS
}

func (s *Solver) start() error {
	var cmd *exec.Cmd
	switch s.Kind {
	case "z3":
		cmd = exec.Command("z3", "-in", "-smt2")
	case "z3-new":
		cmd = exec.Command("z3-new", "-in", "-smt2")
	case "cvc5":
		cmd = exec.Command("cvc5", "--incremental", "--lang=smt2", "--produce-models", fmt.Sprintf("--tlimit-per=%d", s.effectiveTimeout()))
	default:
		return fmt.Errorf("unknown solver %q", s.Kind)
	}
	in, err := cmd.StdinPipe()
	if err != nil {
		return err
	}
	out, err := cmd.StdoutPipe()
	if err != nil {
		return err
	}
	cmd.Stderr = os.Stderr
	if err := cmd.Start(); err != nil {
		return err
	}
	s.cmd, s.in, s.out = cmd, in, bufio.NewReaderSize(out, 1<<16)
	s.level = 0
	s.declared = map[string]int{}
	s.rnd = [][]*Term{nil}
	s.asserts = [][]*Term{nil}
	if s.Kind == "cvc5" {
		s.send("(set-logic ALL)")
	} else {
		s.send("(set-option :produce-models true)")
		s.send(fmt.Sprintf("(set-option :timeout %d)", s.effectiveTimeout()))
	}
	s.send("(declare-fun rnd (Real) Real)")
	return nil
}

// resetForOneShot clears a helper process for a from-scratch solve.
func (s *Solver) resetForOneShot() {
	if s.Kind == "cvc5" {
		// cvc5 cannot change logic after reset reliably: restart the process
		s.Close()
		s.start()
		return
	}
	s.send("(reset)")
	s.level = 0
	s.declared = map[string]int{}
	s.rnd = [][]*Term{nil}
	s.asserts = [][]*Term{nil}
	s.send("(set-option :produce-models true)")
	s.send(fmt.Sprintf("(set-option :timeout %d)", s.TimeoutMS))
	s.send("(declare-fun rnd (Real) Real)")
}

func (s *Solver) Close() {
	if s.helper != nil {
		s.helper.Close()
		s.helper = nil
	}
	if s.cmd != nil {
		s.in.Close()
		s.cmd.Process.Kill()
		s.cmd.Wait()
		s.cmd = nil
	}
}

// Restart kills the process and starts a fresh one at level 0 (caller must be at level 0).
func (s *Solver) Restart() error {
	s.Close()
	s.Stats.Restarts++
	return s.start()
}

func (s *Solver) send(line string) {
	if s.Log != nil {
		fmt.Fprintln(s.Log, line)
	}
	io.WriteString(s.in, line)
	io.WriteString(s.in, "\n")
}

func (s *Solver) readLine() string { return s.readLineFrom(s.out) }

func (s *Solver) readLineFrom(out *bufio.Reader) string {
	line, err := out.ReadString('\n')
	if err != nil {
		return "(error \"solver pipe: " + err.Error() + "\")"
	}
	line = strings.TrimSpace(line)
	if s.Log != nil {
		fmt.Fprintln(s.Log, "; <- "+line)
	}
	return line
}

// readSexp reads a full balanced s-expression (possibly multi-line).
func (s *Solver) readSexp() string {
	var sb strings.Builder
	depth := 0
	started := false
	for {
		line, err := s.out.ReadString('\n')
		if err != nil {
			return sb.String()
		}
		for _, c := range line {
			if c == '(' {
				depth++
				started = true
			} else if c == ')' {
				depth--
			}
		}
		sb.WriteString(line)
		if started && depth <= 0 {
			break
		}
		if !started && strings.TrimSpace(line) != "" {
			break
		}
	}
	if s.Log != nil {
		fmt.Fprintln(s.Log, "; <- "+strings.TrimSpace(sb.String()))
	}
	return sb.String()
}

func (s *Solver) Level() int { return s.level }

func (s *Solver) Push() {
	s.send("(push 1)")
	s.level++
	s.rnd = append(s.rnd, nil)
	s.asserts = append(s.asserts, nil)
}

func (s *Solver) Pop() {
	if s.level == 0 {
		panic("sym.Solver.Pop at level 0")
	}
	s.send("(pop 1)")
	s.level--
	for n, l := range s.declared {
		if l > s.level {
			delete(s.declared, n)
		}
	}
	s.rnd = s.rnd[:len(s.rnd)-1]
	s.asserts = s.asserts[:len(s.asserts)-1]
}

func (s *Solver) declareVars(t *Term) {
	if !t.HasVars() {
		return
	}
	set := map[*Term]bool{}
	Vars(t, set, map[int]bool{})
	for v := range set {
		if _, ok := s.declared[v.Name]; ok {
			continue
		}
		s.declared[v.Name] = s.level
		s.send(fmt.Sprintf("(declare-const %s %s)", v.Name, v.Sort))
		if v.Sort == SInt {
			if v.Lo != nil {
				s.send(fmt.Sprintf("(assert (<= %s %s))", intLit(v.Lo), v.Name))
			}
			if v.Hi != nil {
				s.send(fmt.Sprintf("(assert (<= %s %s))", v.Name, intLit(v.Hi)))
			}
		}
	}
}

var absSlack = new(big.Rat).SetFrac(big.NewInt(1), new(big.Int).Lsh(big.NewInt(1), 1073))

var eps53 = new(big.Rat).SetFrac(big.NewInt(1), new(big.Int).Lsh(big.NewInt(1), 53))

func collectRnd(t *Term, seen map[int]bool, out *[]*Term) {
	if seen[t.ID] {
		return
	}
	seen[t.ID] = true
	for _, a := range t.Args {
		collectRnd(a, seen, out)
	}
	if t.Op == ORnd {
		*out = append(*out, t)
	}
}

// nonlinear reports whether t contains a product or quotient of two non-constant terms.
func nonlinear(t *Term) bool {
	seen := map[int]bool{}
	var rec func(t *Term) bool
	rec = func(t *Term) bool {
		if seen[t.ID] || !t.HasVars() {
			return false
		}
		seen[t.ID] = true
		if (t.Op == OMul || t.Op == ODiv) && t.Sort == SReal && len(t.Args) == 2 && t.Args[0].HasVars() && t.Args[1].HasVars() {
			return true
		}
		if t.Op == ORnd {
			return false // an opaque value
		}
		for _, a := range t.Args {
			if rec(a) {
				return true
			}
		}
		return false
	}
	return rec(t)
}

// MaxRnd caps the number of rnd applications axiomatised at once.
const MaxRnd = 80

func (s *Solver) axiomatiseRnd(t *Term) {
	var apps []*Term
	collectRnd(t, map[int]bool{}, &apps)
	if len(apps) == 0 {
		return
	}
	known := map[int]bool{}
	var all []*Term
	for _, lv := range s.rnd {
		for _, a := range lv {
			known[a.ID] = true
			all = append(all, a)
		}
	}
	for _, r := range apps {
		if known[r.ID] {
			continue
		}
		known[r.ID] = true
		if len(all) >= MaxRnd {
			s.Stats.Errors = append(s.Stats.Errors, "too many rnd applications")
			return
		}
		x := r.Args[0]
		s.declareVars(r)
		rs, xs := Print(r), Print(x)
		e := realLit(eps53)
		// |r-x| <= eps*|x| + 2^-1073  (the absolute term covers results in the subnormal range)
		s.send(fmt.Sprintf("(assert (let ((d (- %s %s)) (m (+ (* %s (ite (>= %s 0.0) %s (- %s))) %s))) (and (<= d m) (<= (- d) m))))", rs, xs, e, xs, xs, xs, realLit(absSlack)))
		// monotonicity against exactly representable anchors (rnd(c) = c): sign and unit preservation
		for _, c := range []string{"0.0", "1.0", "(- 1.0)", "0.5"} {
			s.send(fmt.Sprintf("(assert (and (=> (<= %s %s) (<= %s %s)) (=> (<= %s %s) (<= %s %s))))", c, xs, c, rs, xs, c, rs, c))
		}
		for _, o := range all {
			// monotonicity is only instantiated for arguments of the same shape (both linear or
			// both products): cross pairs are almost never needed and are expensive
			if nonlinear(x) != nonlinear(o.Args[0]) {
				continue
			}
			os_, ox := Print(o), Print(o.Args[0])
			s.send(fmt.Sprintf("(assert (=> (<= %s %s) (<= %s %s)))", xs, ox, rs, os_))
			s.send(fmt.Sprintf("(assert (=> (<= %s %s) (<= %s %s)))", ox, xs, os_, rs))
			s.send(fmt.Sprintf("(assert (=> (= %s (- %s)) (= %s (- %s))))", xs, ox, rs, os_))
		}
		all = append(all, r)
		s.rnd[len(s.rnd)-1] = append(s.rnd[len(s.rnd)-1], r)
	}
}

func (s *Solver) Assert(t *Term) {
	if t == True {
		return
	}
	s.declareVars(t)
	s.axiomatiseRnd(t)
	s.asserts[len(s.asserts)-1] = append(s.asserts[len(s.asserts)-1], t)
	s.send("(assert " + Print(t) + ")")
}

// Assertions returns every assertion on the stack (all levels).
func (s *Solver) Assertions() []*Term {
	var out []*Term
	for _, l := range s.asserts {
		out = append(out, l...)
	}
	return out
}

// Check decides the current stack; with FastMS it falls back to a from-scratch solve on unknown.
func (s *Solver) Check() Result {
	s.modelSrc = nil
	r := s.checkRaw()
	if r != Unknown || s.FastMS <= 0 || s.isHelper {
		return r
	}
	// undo the statistics of the inconclusive fast attempt
	s.Stats.Unknown--
	s.Stats.Fallbacks++
	if s.helper == nil {
		h := &Solver{Kind: s.Kind, TimeoutMS: s.TimeoutMS, isHelper: true, Log: s.Log}
		if err := h.start(); err != nil {
			s.Stats.Unknown++
			return Unknown
		}
		s.helper = h
	} else {
		s.helper.resetForOneShot()
	}
	h := s.helper
	h.Stats = Stats{}
	for _, lv := range s.asserts {
		for _, a := range lv {
			h.Assert(a)
		}
	}
	r = h.checkRaw()
	s.Stats.Time += h.Stats.Time
	s.Stats.Errors = append(s.Stats.Errors, h.Stats.Errors...)
	switch r {
	case Sat:
		s.Stats.Sat++
		s.modelSrc = h
	case Unsat:
		s.Stats.Unsat++
	default:
		s.Stats.Unknown++
	}
	return r
}

func (s *Solver) checkRaw() Result { return s.checkRawN(0) }

func (s *Solver) checkRawN(retry int) Result {
	t0 := time.Now()
	s.send("(check-sat)")
	done := make(chan Result, 1)
	out := s.out
	canceled := false
	go func() {
		var r Result
		for {
			line := s.readLineFrom(out)
			switch {
			case strings.HasPrefix(line, "(error") && strings.Contains(line, "canceled"):
				// z3 5.1 sometimes answers a (push) or (assert) with "canceled" after an earlier query
				// ran into its time limit: the command was not executed and the process's stack no
				// longer matches ours. Restart it, replay the stack and ask again.
				canceled = true
				continue
			case line == "sat":
				r = Sat
			case line == "unsat":
				r = Unsat
			case line == "unknown" || line == "timeout":
				r = Unknown
			case strings.HasPrefix(line, "(error"):
				s.Stats.Errors = append(s.Stats.Errors, line)
				if strings.Contains(line, "solver pipe") {
					r = Unknown
					break
				}
				continue
			case line == "" || strings.HasPrefix(line, ";"):
				continue
			default:
				s.Stats.Errors = append(s.Stats.Errors, "unexpected: "+line)
				r = Unknown
			}
			break
		}
		done <- r
	}()
	var r Result
	select {
	case r = <-done:
	case <-time.After(time.Duration(s.effectiveTimeout())*time.Millisecond + 10*time.Second):
		// the solver ignored its own time limit: kill it and rebuild the assertion stack
		s.Stats.Hangs++
		s.rebuild()
		<-done
		r = Unknown
	}
	s.Stats.Time += time.Since(t0)
	if s.Log != nil {
		fmt.Fprintf(s.Log, "; time %.3f\n", time.Since(t0).Seconds())
	}
	if canceled {
		s.Stats.Hangs++
		s.rebuild()
		if retry < 2 {
			return s.checkRawN(retry + 1)
		}
		r = Unknown
	}
	switch r {
	case Sat:
		s.Stats.Sat++
	case Unsat:
		s.Stats.Unsat++
	default:
		s.Stats.Unknown++
	}
	return r
}

// rebuild restarts the solver process and replays the assertion stack.
func (s *Solver) rebuild() {
	old := s.asserts
	if s.cmd != nil {
		s.in.Close()
		s.cmd.Process.Kill()
		s.cmd.Wait()
		s.cmd = nil
	}
	if err := s.start(); err != nil {
		s.Stats.Errors = append(s.Stats.Errors, "restart failed: "+err.Error())
		return
	}
	for i, lv := range old {
		if i > 0 {
			s.Push()
		}
		for _, a := range lv {
			s.Assert(a)
		}
	}
}

// CheckWith decides satisfiability of the stack plus extra, without keeping extra.
func (s *Solver) CheckWith(extra *Term) Result {
	if extra == False {
		return Unsat
	}
	s.Push()
	s.Assert(extra)
	r := s.Check()
	s.Pop()
	return r
}

// CheckWithModel is CheckWith but also returns a model for vars when sat.
func (s *Solver) CheckWithModel(extra *Term, vars []*Term) (Result, *Model) {
	s.Push()
	s.Assert(extra)
	r := s.Check()
	var m *Model
	if r == Sat {
		m = s.GetModel(vars)
	}
	s.Pop()
	return r, m
}

// GetModel reads values of vars (must follow a sat Check at the same level).
func (s *Solver) GetModel(vars []*Term) *Model {
	if s.modelSrc != nil {
		h := s.modelSrc
		s.modelSrc = nil
		return h.GetModel(vars)
	}
	m := NewModel()
	var names []string
	for _, v := range vars {
		if _, ok := s.declared[v.Name]; ok {
			names = append(names, v.Name)
		}
	}
	if len(names) == 0 {
		return m
	}
	bySort := map[string]Sort{}
	for _, v := range vars {
		bySort[v.Name] = v.Sort
	}
	s.send("(get-value (" + strings.Join(names, " ") + "))")
	resp := s.readSexp()
	if strings.Contains(resp, "(error") {
		s.Stats.Errors = append(s.Stats.Errors, strings.TrimSpace(resp))
		return m
	}
	toks := tokenize(resp)
	pos := 0
	ex := parseSexp(toks, &pos)
	for _, pair := range ex.list {
		if len(pair.list) != 2 {
			continue
		}
		name := pair.list[0].atom
		val := pair.list[1]
		switch bySort[name] {
		case SInt:
			if r, ok := sexpRat(val); ok && r.IsInt() {
				m.Ints[name] = new(big.Int).Set(r.Num())
			}
		case SReal:
			if r, ok := sexpRat(val); ok {
				m.Reals[name] = r
			}
		case SBool:
			m.Bools[name] = val.atom == "true"
		}
	}
	return m
}

type sexp struct {
	atom string
	list []*sexp
}

func tokenize(s string) []string {
	var toks []string
	i := 0
	for i < len(s) {
		c := s[i]
		switch {
		case c == '(' || c == ')':
			toks = append(toks, string(c))
			i++
		case c == ' ' || c == '\n' || c == '\t' || c == '\r':
			i++
		case c == '"':
			j := i + 1
			for j < len(s) && s[j] != '"' {
				j++
			}
			toks = append(toks, s[i:min(j+1, len(s))])
			i = j + 1
		default:
			j := i
			for j < len(s) && !strings.ContainsRune("() \n\t\r", rune(s[j])) {
				j++
			}
			toks = append(toks, s[i:j])
			i = j
		}
	}
	return toks
}

func parseSexp(toks []string, pos *int) *sexp {
	if *pos >= len(toks) {
		return &sexp{}
	}
	t := toks[*pos]
	*pos++
	if t != "(" {
		return &sexp{atom: t}
	}
	e := &sexp{}
	for *pos < len(toks) && toks[*pos] != ")" {
		e.list = append(e.list, parseSexp(toks, pos))
	}
	*pos++
	return e
}

func sexpRat(e *sexp) (*big.Rat, bool) {
	if e.atom != "" {
		a := strings.TrimSuffix(e.atom, "?")
		r, ok := new(big.Rat).SetString(a)
		return r, ok
	}
	if len(e.list) == 0 {
		return nil, false
	}
	switch e.list[0].atom {
	case "-":
		if len(e.list) == 2 {
			r, ok := sexpRat(e.list[1])
			if !ok {
				return nil, false
			}
			return r.Neg(r), true
		}
	case "/":
		if len(e.list) == 3 {
			a, ok1 := sexpRat(e.list[1])
			b, ok2 := sexpRat(e.list[2])
			if ok1 && ok2 && b.Sign() != 0 {
				return a.Quo(a, b), true
			}
		}
	case "to_real":
		if len(e.list) == 2 {
			return sexpRat(e.list[1])
		}
	}
	return nil, false
}
