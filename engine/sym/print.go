package sym

import (
	"fmt"
	"math/big"
	"strings"
)

func intLit(v *big.Int) string {
	if v.Sign() < 0 {
		return "(- " + new(big.Int).Neg(v).String() + ")"
	}
	return v.String()
}

func realLit(r *big.Rat) string {
	n, d := r.Num(), r.Denom()
	neg := n.Sign() < 0
	an := new(big.Int).Abs(n)
	var s string
	if d.Cmp(bigOne) == 0 {
		s = an.String() + ".0"
	} else {
		s = "(/ " + an.String() + ".0 " + d.String() + ".0)"
	}
	if neg {
		return "(- " + s + ")"
	}
	return s
}

// Print renders t as an SMT-LIB2 term; sub-terms shared more than once are let-bound.
func Print(t *Term) string {
	// count references
	refs := map[int]int{}
	var order []*Term
	var count func(*Term)
	count = func(x *Term) {
		refs[x.ID]++
		if refs[x.ID] > 1 {
			return
		}
		for _, a := range x.Args {
			count(a)
		}
		order = append(order, x) // post-order: children first
	}
	count(t)
	names := map[int]string{}
	var sb strings.Builder
	var emit func(x *Term) string
	emit = func(x *Term) string {
		if n, ok := names[x.ID]; ok {
			return n
		}
		switch x.Op {
		case OConst:
			switch x.Sort {
			case SBool:
				if x.BV {
					return "true"
				}
				return "false"
			case SInt:
				return intLit(x.IV)
			default:
				return realLit(x.RV)
			}
		case OVar:
			return x.Name
		}
		var b strings.Builder
		b.WriteByte('(')
		name := opNames[x.Op]
		if x.Sort == SReal && x.Op == ODiv {
			name = "/"
		}
		b.WriteString(name)
		for _, a := range x.Args {
			b.WriteByte(' ')
			b.WriteString(emit(a))
		}
		b.WriteByte(')')
		return b.String()
	}
	nlets := 0
	for _, x := range order {
		if x == t || len(x.Args) == 0 || refs[x.ID] < 2 {
			continue
		}
		def := emit(x)
		n := fmt.Sprintf("?t%d", x.ID)
		fmt.Fprintf(&sb, "(let ((%s %s)) ", n, def)
		names[x.ID] = n
		nlets++
	}
	sb.WriteString(emit(t))
	sb.WriteString(strings.Repeat(")", nlets))
	return sb.String()
}

// Model is an assignment of variables (by name).
type Model struct {
	Ints  map[string]*big.Int
	Reals map[string]*big.Rat
	Bools map[string]bool
}

func NewModel() *Model {
	return &Model{Ints: map[string]*big.Int{}, Reals: map[string]*big.Rat{}, Bools: map[string]bool{}}
}

// EvalVal is the result of evaluating a term under a model.
type EvalVal struct {
	I *big.Int
	R *big.Rat
	B bool
}

// Eval evaluates t under m. Variables missing from the model take their lower
// bound (Int), 0 (Real) or false (Bool). ok=false if evaluation meets an
// undefined operation (division by zero, rnd).
func Eval(t *Term, m *Model, memo map[int]EvalVal) (v EvalVal, ok bool) {
	if r, hit := memo[t.ID]; hit {
		return r, true
	}
	defer func() {
		if ok {
			memo[t.ID] = v
		}
	}()
	switch t.Op {
	case OConst:
		return EvalVal{I: t.IV, R: t.RV, B: t.BV}, true
	case OVar:
		switch t.Sort {
		case SInt:
			if x, has := m.Ints[t.Name]; has {
				return EvalVal{I: x}, true
			}
			if t.Lo != nil {
				return EvalVal{I: t.Lo}, true
			}
			if t.Hi != nil {
				return EvalVal{I: t.Hi}, true
			}
			return EvalVal{I: bigZero}, true
		case SReal:
			if x, has := m.Reals[t.Name]; has {
				return EvalVal{R: x}, true
			}
			return EvalVal{R: new(big.Rat)}, true
		default:
			return EvalVal{B: m.Bools[t.Name]}, true
		}
	}
	args := make([]EvalVal, len(t.Args))
	for i, a := range t.Args {
		// short-circuit ite to avoid undefined branches
		if t.Op == OIte && i > 0 {
			continue
		}
		x, k := Eval(a, m, memo)
		if !k {
			return EvalVal{}, false
		}
		args[i] = x
	}
	real := len(t.Args) > 0 && t.Args[0].Sort == SReal
	switch t.Op {
	case OIte:
		if args[0].B {
			return Eval(t.Args[1], m, memo)
		}
		return Eval(t.Args[2], m, memo)
	case ONot:
		return EvalVal{B: !args[0].B}, true
	case OAnd:
		for _, a := range args {
			if !a.B {
				return EvalVal{B: false}, true
			}
		}
		return EvalVal{B: true}, true
	case OOr:
		for _, a := range args {
			if a.B {
				return EvalVal{B: true}, true
			}
		}
		return EvalVal{B: false}, true
	case OEq:
		switch t.Args[0].Sort {
		case SBool:
			return EvalVal{B: args[0].B == args[1].B}, true
		case SInt:
			return EvalVal{B: args[0].I.Cmp(args[1].I) == 0}, true
		default:
			return EvalVal{B: args[0].R.Cmp(args[1].R) == 0}, true
		}
	case OLt, OLe:
		var c int
		if real {
			c = args[0].R.Cmp(args[1].R)
		} else {
			c = args[0].I.Cmp(args[1].I)
		}
		if t.Op == OLt {
			return EvalVal{B: c < 0}, true
		}
		return EvalVal{B: c <= 0}, true
	case OToReal:
		return EvalVal{R: new(big.Rat).SetInt(args[0].I)}, true
	case OToInt:
		q, _ := new(big.Int).DivMod(args[0].R.Num(), args[0].R.Denom(), new(big.Int))
		return EvalVal{I: q}, true
	case ORnd:
		return EvalVal{}, false
	case ONeg:
		if real {
			return EvalVal{R: new(big.Rat).Neg(args[0].R)}, true
		}
		return EvalVal{I: new(big.Int).Neg(args[0].I)}, true
	}
	if real {
		r := new(big.Rat)
		switch t.Op {
		case OAdd:
			r.Add(args[0].R, args[1].R)
		case OSub:
			r.Sub(args[0].R, args[1].R)
		case OMul:
			r.Mul(args[0].R, args[1].R)
		case ODiv:
			if args[1].R.Sign() == 0 {
				return EvalVal{}, false
			}
			r.Quo(args[0].R, args[1].R)
		default:
			return EvalVal{}, false
		}
		return EvalVal{R: r}, true
	}
	z := new(big.Int)
	switch t.Op {
	case OAdd:
		z.Add(args[0].I, args[1].I)
	case OSub:
		z.Sub(args[0].I, args[1].I)
	case OMul:
		z.Mul(args[0].I, args[1].I)
	case ODiv:
		if args[1].I.Sign() == 0 {
			return EvalVal{}, false
		}
		z.DivMod(args[0].I, args[1].I, new(big.Int))
	case OMod:
		if args[1].I.Sign() == 0 {
			return EvalVal{}, false
		}
		_, z = new(big.Int).DivMod(args[0].I, args[1].I, new(big.Int))
	default:
		return EvalVal{}, false
	}
	return EvalVal{I: z}, true
}
