package main

import (
	"fmt"
	"os"
	"sort"
	"strings"

	"golang.org/x/tools/go/packages"
	"golang.org/x/tools/go/ssa"
	"golang.org/x/tools/go/ssa/ssautil"
)

func main() {
	cfg := &packages.Config{Mode: packages.LoadAllSyntax, Dir: "/repo", Env: append(os.Environ(), "GOFLAGS=-mod=mod", "GOPROXY=off")}
	initial, err := packages.Load(cfg, ".", "./q", "./html", "./html/core", "./util")
	if err != nil {
		panic(err)
	}
	prog, _ := ssautil.AllPackages(initial, ssa.InstantiateGenerics)
	prog.Build()
	prefix := "github.com/elliotchance/gedcom"
	counts := map[string]int{}
	for fn := range ssautil.AllFunctions(prog) {
		if fn.Pkg == nil || !strings.HasPrefix(fn.Pkg.Pkg.Path(), prefix) {
			continue
		}
		for _, b := range fn.Blocks {
			for _, ins := range b.Instrs {
				var cc *ssa.CallCommon
				switch i := ins.(type) {
				case *ssa.Call:
					cc = &i.Call
				case *ssa.Go:
					cc = &i.Call
				case *ssa.Defer:
					cc = &i.Call
				}
				if cc == nil {
					continue
				}
				if cc.IsInvoke() {
					if cc.Method.Pkg() != nil && !strings.HasPrefix(cc.Method.Pkg().Path(), prefix) {
						counts["invoke "+cc.Method.FullName()]++
					}
					continue
				}
				if f := cc.StaticCallee(); f != nil {
					p := ""
					if f.Pkg != nil {
						p = f.Pkg.Pkg.Path()
					} else if f.Object() != nil && f.Object().Pkg() != nil {
						p = f.Object().Pkg().Path()
					}
					if !strings.HasPrefix(p, prefix) {
						counts[f.String()]++
					}
				}
			}
		}
	}
	var ks []string
	for k := range counts {
		ks = append(ks, k)
	}
	sort.Strings(ks)
	for _, k := range ks {
		fmt.Printf("%4d %s\n", counts[k], k)
	}
}
