package main

// Registry: which harnesses decide which property, with the bounds per tier.
// Bounds registered here are the ones that ran clean on the unchanged tree.

const modulePath = "github.com/elliotchance/gedcom/v39"

type tierSpec struct {
	Cases    int   // outer cases 0..Cases-1
	MaxPaths int   // per case (0 = default 200000)
	MaxSteps int64 // per path (0 = default)
	Split    int   // >0: split each case by its decision frontier at this fork depth
}

type harnessSpec struct {
	Name     string // exported harness function func(int)
	Pkg      string // package directory relative to the module root: "", "q", "html"
	Quick    tierSpec
	Thorough tierSpec
	MapOrder bool
	Sched    int    // pre-emption budget; -1 = deterministic scheduler
	Solver   string // primary solver (default z3)
	Timeout  int    // per query ms (default 20000 quick / 120000 thorough)
	Bounds   string // human-readable statement of the bounds of this harness
	Twin     bool   // vacuity twin: harness must come back violated on label "twin"
	// Invariant lists VsEmit keys that must be identical on all paths of a case.
	Invariant []string
}

type propertySpec struct {
	ID          string
	Files       map[string][]string // pkg dir -> harness files (relative to /verif/harness/<dir or "gedcom">)
	Harnesses   []harnessSpec
	Assumptions []string
	Outside     string // what lies outside the bounds
}

func pkgPath(dir string) string {
	if dir == "" {
		return modulePath
	}
	return modulePath + "/" + dir
}

func harnessDir(dir string) string {
	if dir == "" {
		return "gedcom"
	}
	return dir
}

var registry = []propertySpec{
	{
		ID:    "C04",
		Files: map[string][]string{"": {"zz_verif_lib.go", "zz_verif_c04.go"}},
		Harnesses: []harnessSpec{
			{Name: "VerifC04_Single", Quick: tierSpec{Cases: 16 * 3 * 24 * 4}, Thorough: tierSpec{Cases: 16 * 3 * 24 * 4}, Sched: -1,
				Bounds: "every keyword spelling (15 + none) x lower/UPPER/Capitalised x 23 month spellings + an unknown word x shapes {year, month year, day month year, day year}; day 0..99 in one-digit, two-digit and leading-zero form, year 1..9999 with 1-4 digits (all digits symbolic); separators of 1, 2 and 4 spaces with leading/trailing space"},
			{Name: "VerifC04_Range", Quick: tierSpec{Cases: 4 * 3 * 3 * 3 * 3}, Thorough: tierSpec{Cases: 4 * 3 * 3 * 3 * 3}, Sched: -1,
				Bounds: "4 between-words x 3 and-words x 3 letter cases x 3x3 shapes, each side with/without a keyword, digits symbolic"},
			{Name: "VerifC04_NearMiss", Quick: tierSpec{Cases: 12}, Thorough: tierSpec{Cases: 12}, Sched: -1,
				Bounds: "12 undocumented forms with symbolic day and year digits"},
		},
		Assumptions: []string{"years 1..9999 (year 0 is excluded: the documentation allows it but a zero Year field means 'no year')", "at most four consecutive spaces", "at most one leading zero on the day, none on the year"},
		Outside:     "years >= 10000, year 0, more than one leading zero, tabs, runs of five or more spaces, non-English month names, dual dates; DateNode phrase forms",
	},
	{
		ID:    "C05",
		Files: map[string][]string{"": {"zz_verif_lib.go", "zz_verif_c05.go"}},
		Harnesses: []harnessSpec{
			{Name: "VerifC05_Bounds", Quick: tierSpec{Cases: 3}, Thorough: tierSpec{Cases: 3}, Sched: -1, Solver: "z3-new",
				Bounds: "one symbolic date per granularity (full / month-year / year), every valid day of years 1..9999, both range ends"},
			{Name: "VerifC05_Years", Quick: tierSpec{Cases: 3}, Thorough: tierSpec{Cases: 3}, Sched: -1, Solver: "z3-new",
				Bounds: "every day d and its calendar successor; every month-year and year-only date against its first and last day; floats as reals with a sound rounding operator (relative error 2^-53, monotone)"},
			{Name: "VerifC05_Order", Quick: tierSpec{Cases: 3}, Thorough: tierSpec{Cases: 3}, Sched: -1, Solver: "z3-new",
				Bounds: "two independent symbolic full dates, years 1..9999, split on the order of the years"},
		},
		Assumptions: []string{"valid civil dates, years 1..9999", "float64 arithmetic in round-to-nearest without overflow: modelled as real arithmetic followed by an uninterpreted monotone rounding operator with relative error <= 2^-53 (sound relaxation)"},
		Outside:     "years outside 1..9999; the exact binary64 value of Years(); DateNodes.Minimum/Maximum on parsed nodes (exercised through Years ordering only)",
	},
	{
		ID:    "C06",
		Files: map[string][]string{"": {"zz_verif_lib.go", "zz_verif_c06.go"}},
		Harnesses: []harnessSpec{
			{Name: "VerifC06_Compare", Quick: tierSpec{Cases: 81}, Thorough: tierSpec{Cases: 81}, Sched: -1, Solver: "z3-new",
				Bounds: "four symbolic dates (day/month/year granularity by case, all 81 combinations), years 1..9999, every valid day; both ranges forwards"},
			{Name: "VerifC06_Self", Quick: tierSpec{Cases: 9}, Thorough: tierSpec{Cases: 9}, Sched: -1, Solver: "z3-new",
				Bounds: "one symbolic range (9 granularity pairs) compared with itself, years 1..9999"},
		},
		Assumptions: []string{"valid civil dates, years 1..9999", "ranges run forwards (first day of start <= last day of end)"},
		Outside:     "years outside 1..9999; constraints (Abt./Bef./Aft.) do not take part in Compare",
	},
}

func findProperty(id string) *propertySpec {
	for i := range registry {
		if registry[i].ID == id {
			return &registry[i]
		}
	}
	return nil
}
