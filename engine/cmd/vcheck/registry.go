package main

// Registry: which harnesses decide which property, with the bounds per tier.
// Bounds registered here are the ones that ran clean on the unchanged tree.

const modulePath = "github.com/elliotchance/gedcom/v39"

type tierSpec struct {
	First    int   // first outer case
	Cases    int   // outer cases First..First+Cases-1
	MaxPaths int   // per case (0 = default 200000)
	MaxSteps int64 // per path (0 = default)
	Split    int   // >0: split each case by its decision frontier at this fork depth
}

type harnessSpec struct {
	Name     string // exported harness function func(int)
	Pkg      string // package directory relative to the module root: "", "q", "html"
	Quick    tierSpec
	Thorough tierSpec
	MapOrder bool
	Race     bool   // happens-before data race monitor
	Sched    int    // pre-emption budget; -1 = deterministic scheduler (lowest id first), -2 = fair round-robin at every visible operation
	Solver   string // primary solver (default z3)
	Timeout  int    // per query ms (default 20000 quick / 120000 thorough)
	Bounds   string // human-readable statement of the bounds of this harness
	Twin     bool   // vacuity twin: harness must come back violated on label "twin"
	// ReplayAll: every explored path is replayed natively (not a sample): harnesses whose native run also
	// exercises real goroutine schedules that the deterministic scheduler of the engine does not.
	ReplayAll bool
	// Invariant lists VsEmit keys that must be identical on all paths of a case.
	Invariant []string
}

type propertySpec struct {
	ID          string
	Files       map[string][]string // pkg dir -> harness files (relative to /verif/harness/<dir or "gedcom">)
	Harnesses   []harnessSpec
	Assumptions []string
	Outside     string // what lies outside the bounds
}

func pkgPath(dir string) string {
	if dir == "" {
		return modulePath
	}
	return modulePath + "/" + dir
}

func harnessDir(dir string) string {
	if dir == "" {
		return "gedcom"
	}
	return dir
}

var registry = []propertySpec{
	{
		// Not a property: the differential self-test of the library models (vcheck --selftest). Every
		// path is replayed natively and every observation compared with the real library.
		ID:    "SELF",
		Files: map[string][]string{"": {"zz_verif_self.go"}},
		Harnesses: []harnessSpec{
			{Name: "VerifSelf_Strings", Quick: tierSpec{Cases: 6}, Thorough: tierSpec{Cases: 6}, Sched: -1,
				Bounds: "strings / strconv / unicode / html / bytes models on strings of 0..2 and 0..1 symbolic bytes over 9 characters"},
			{Name: "VerifSelf_Regexp", Quick: tierSpec{Cases: 4}, Thorough: tierSpec{Cases: 4}, Sched: -1,
				Bounds: "the ported regexp matcher on strings of 1..4 symbolic bytes through 7 patterns (match, submatches, replace)"},
			{Name: "VerifSelf_Format", Quick: tierSpec{Cases: 3}, Thorough: tierSpec{Cases: 3}, Sched: -1,
				Bounds: "fmt verbs, Itoa, json.Marshal / MarshalIndent, sort on a symbolic integer and a string of 0..2 symbolic bytes"},
			{Name: "VerifSelf_Atoi", Quick: tierSpec{Cases: 9}, Thorough: tierSpec{Cases: 9}, Sched: -1,
				Bounds: "strconv.Atoi on 18..20 digits around the ends of the int64 range (last 1..4 digits symbolic), unsigned and signed: saturation and range error"},
			{Name: "VerifSelf_Sort", Quick: tierSpec{Cases: 3}, Thorough: tierSpec{Cases: 3}, Sched: -1,
				Bounds: "sort.Slice and sort.SliceStable on 13, 17 and 21 records with keys in 0..2 (three of them symbolic): the order of equal elements as the library's pdqsort leaves it"},
		},
		Assumptions: []string{"none: this run validates the models"},
		Outside:     "longer strings, non-ASCII symbolic bytes, the time, reflect and sync models (validated by the per-run trace comparison of the property checks)",
	},
	{
		ID:    "SMOKE",
		Files: map[string][]string{"q": {"zz_verif_smoke.go"}},
		Harnesses: []harnessSpec{
			{Name: "VerifSmoke_Query", Pkg: "q", Quick: tierSpec{Cases: 11}, Thorough: tierSpec{Cases: 11}, Sched: -1, Bounds: "engine smoke test"},
		},
	},
	{
		ID:    "C01",
		Files: map[string][]string{"": {"zz_verif_lib.go", "zz_verif_c01.go"}},
		Harnesses: []harnessSpec{
			{Name: "VerifC01_Forest", Quick: tierSpec{Cases: 8, Split: 2}, Thorough: tierSpec{First: 8, Cases: 8, Split: 3}, Sched: -1,
				Bounds: "every forest shape with <= 3 nodes (8 shapes); quick: per node a tag from 5 root / 5 child tags (INDI, FAM, specialised, unknown, numeric / NAME, DATE, _UID, digit-leading, HUSB under FAM), value of length 0/2, pointer of length 0/1; thorough: 8+8 tags, value length 0/1/3, pointer length 0/2; printable ASCII, all value and pointer bytes and the BOM flag symbolic"},
			{Name: "VerifC01_Depth", Quick: tierSpec{Cases: 6}, Thorough: tierSpec{Cases: 7}, Sched: -1,
				Bounds: "chains of nesting depth 8..13 (thorough: and 99) with a symbolic leaf value"},
			{Name: "VerifC01_FamilyRoles", Quick: tierSpec{Cases: 16}, Thorough: tierSpec{Cases: 16}, Sched: -1,
				Bounds: "husband / wife nodes inside families and inside NOTE, _GRP, INDI and SOUR records that follow a family (directly, nested one level, and between two families), symbolic pointers and values"},
			{Name: "VerifC01_NestedFamily", Quick: tierSpec{Cases: 4}, Thorough: tierSpec{Cases: 4}, Sched: -1,
				Bounds: "a FAM node with HUSB / WIFE / CHIL lines nested at depth 1 or 3 below another record, with or without a root family before it; pointers, values and the BOM flag symbolic"},
			{Name: "VerifC01_AllTags", Quick: tierSpec{Cases: 2 * 167}, Thorough: tierSpec{Cases: 2 * 167}, Sched: -1,
				Bounds: "each of the 167 registered tags as root record and as child, symbolic value (0 or 2 bytes) and pointer (0 or 2 bytes)"},
		},
		Assumptions: []string{"values are printable ASCII (0x20-0x7e) without leading/trailing blank; pointers are bytes 0x41-0x7e (no '@', no blank)", "documents are built through the public API (NewDocument, AddIndividual, AddFamily, SetHusband(Pointer), SetWife, AddChild, NewNode, AddNode)"},
		Outside:     "forests with more than 3 nodes except chains, values longer than 3 bytes, control characters and non-ASCII bytes in values, pointers containing blanks",
	},
	{
		ID:    "C02",
		Files: map[string][]string{"": {"zz_verif_lib.go", "zz_verif_decode_lib.go", "zz_verif_c02.go"}},
		Harnesses: []harnessSpec{
			{Name: "VerifC02_Levels", Quick: tierSpec{Cases: 8}, Thorough: tierSpec{First: 8, Cases: 4, Split: 3}, Sched: -1,
				Bounds: "1..2 (thorough: 3) lines x {AllowMultiLine} x {AllowInvalidIndents}; per line: symbolic level digit 0..L, tag from 7 (NOTE INDI FAM HUSB NAME ZZ 7), optional 1-byte xref, 1 or 2 blanks, value of 0/1/2 printable bytes (incl. blank, '@', digits), terminator LF/CR/CRLF/LFLF"},
			{Name: "VerifC02_NormalForm", Quick: tierSpec{Cases: 20}, Thorough: tierSpec{Cases: 20}, Sched: -1,
				Bounds: "4-line files with a run of 1..3 symbolic blanks / tabs after the level, after the xref, or around the value, or with 2 hostile bytes (0x20..0x7e) inside the xref, or with white space outside ASCII (10 paddings on each side) around a value x all option combinations: accepted files have '@'-free pointers and a fixpoint normal form"},
			{Name: "VerifC02_Shape", Quick: tierSpec{Cases: 12}, Thorough: tierSpec{Cases: 16}, Sched: -1,
				Bounds: "files of 4, 5 and 6 (thorough 7) lines with fixed tags and values in which every level digit after the first line is symbolic 0..3: all walks (descents, dedents over several levels, too-deep lines after a dedent) x {AllowInvalidIndents} x {plain tags, a family with HUSB / CHIL / WIFE lines}"},
		},
		Assumptions: []string{"lines are sentences of the line grammar (unparsable lines: C03)", "an over-deep first line with AllowInvalidIndents and family-role lines before any family are outside what the reference defines (C03 covers them)"},
		Outside:     "more than 3 lines, values longer than 2 bytes, control and non-ASCII bytes in values, tags outside the 7-tag alphabet, levels >= 4",
	},
	{
		ID:    "C03",
		Files: map[string][]string{"": {"zz_verif_lib.go", "zz_verif_decode_lib.go", "zz_verif_c02.go", "zz_verif_c03.go"}},
		Harnesses: []harnessSpec{
			{Name: "VerifC03_Bytes", Quick: tierSpec{Cases: 28}, Thorough: tierSpec{First: 28, Cases: 8, Split: 4}, Sched: -1,
				Bounds: "every input of 0..6 (thorough: 7 and 8) ASCII bytes (all bytes symbolic, 0x00-0x7f) x both decoder options"},
			{Name: "VerifC03_Adversarial", Quick: tierSpec{Cases: 40}, Thorough: tierSpec{Cases: 40}, Sched: -1,
				Bounds: "10 hostile file templates (first line at level > 0, HUSB/WIFE/CHIL before or outside a family, record tags nested, tag of arbitrary bytes, unparsable middle line, BOM with CR/LF runs) with symbolic level digit 0..9 and 2 symbolic value bytes x both options"},
			{Name: "VerifC03_LongLevels", Quick: tierSpec{Cases: 72}, Thorough: tierSpec{Cases: 72}, Sched: -1,
				Bounds: "level numbers of 2, 3, 18, 19, 20 and 21 symbolic digits (every number up to and beyond the 64-bit range) as first line, below a record and below a nested line x both options"},
			{Name: "VerifC02_Levels", Quick: tierSpec{Cases: 8}, Thorough: tierSpec{First: 8, Cases: 4, Split: 3}, Sched: -1,
				Bounds: "the C02 line-grammar harness (its totality assertions)"},
		},
		Assumptions: []string{"reader errors other than EOF are not injected"},
		Outside:     "inputs longer than 7 arbitrary bytes outside the templates, bytes >= 0x80, 1 MB lines, process-level behaviour, native fuzzing",
	},
	{
		ID:    "C07",
		Files: map[string][]string{"": {"zz_verif_lib.go", "zz_verif_c07.go"}},
		Harnesses: []harnessSpec{
			{Name: "VerifC07_Copy", Quick: tierSpec{Cases: 6}, Thorough: tierSpec{Cases: 6}, Sched: -1,
				Bounds: "trees of 1..3 nodes (star and chain), every node one of 8 kinds (plain, BIRT, RESI, EVEN, DATE in 5 forms, _UID valid/malformed, NAME, PLAC) with symbolic value bytes / year digits; the copy harness also draws DATE 0000..0999"},
			{Name: "VerifC07_Permute", Quick: tierSpec{Cases: 3}, Thorough: tierSpec{Cases: 3, Split: 3}, Sched: -1,
				Bounds: "root with 2 or 3 children of the 8 kinds, with 2 children optionally one grandchild (plain or DATE) each; all 2!/3! orders"},
			{Name: "VerifC07_PermuteDeep", Quick: tierSpec{Cases: 32}, Thorough: tierSpec{Cases: 32}, Sched: -1,
				Bounds: "a node of each of the 8 kinds with 2 or 3 children (plain, PLAC, NAME with symbolic values, optionally an exact-year DATE) against a copy with every re-ordering of those children, directly and inside a root"},
			{Name: "VerifC07_Symmetry", Quick: tierSpec{Cases: 4}, Thorough: tierSpec{Cases: 4}, Sched: -1,
				Bounds: "two independent chains of 1..2 nodes of the 8 kinds with symbolic data"},
			{Name: "VerifC07_Edit", Quick: tierSpec{Cases: 18}, Thorough: tierSpec{Cases: 18}, Sched: -1,
				Bounds: "trees of 1..3 nodes x {insert plain node, delete plain leaf, change plain value} at every position"},
		},
		Assumptions: []string{"node values: one symbolic byte (A-Z) or symbolic year 1000..2999"},
		Outside:     "trees with more than 3 (permute: 5; 3 children with grandchildren, 7 nodes, was tried in the thorough tier and did not finish in 13 minutes / 1.2 million paths) nodes, two simultaneous edits, individuals and families inside documents (covered by C13/C10 harnesses)",
	},
	{
		ID:    "C08",
		Files: map[string][]string{"": {"zz_verif_lib.go", "zz_verif_c07.go", "zz_verif_c08.go"}},
		Harnesses: []harnessSpec{
			{Name: "VerifC08_Diff", Quick: tierSpec{Cases: 36, Split: 2}, Thorough: tierSpec{Cases: 36, Split: 2}, Sched: -1,
				Bounds: "two independent trees: root with 0..2 children (plain with symbolic value in {A,B}, BIRT, RESI, DATE with symbolic year), the first child of either tree optionally with a grandchild; then every sequence of two diff operations from {String, IsDeepEqual, Sort, Tag}"},
			{Name: "VerifC08_Events", Quick: tierSpec{Cases: 32}, Thorough: tierSpec{Cases: 32}, Sched: -1,
				Bounds: "a child of kind EVEN / BIRT / RESI / plain (symbolic value) with 2 or 3 children (plain with symbolic values in {A,B}, optionally a DATE with a symbolic year, optionally two more levels below a grandchild) against a copy with every re-ordering of those grandchildren; CompareNodes, String, Sort, DeepEqual"},
			{Name: "VerifC08_Equal", Quick: tierSpec{Cases: 9}, Thorough: tierSpec{Cases: 9}, Sched: -1,
				Bounds: "a tree with 1..3 children (0, 1 or 2 grandchildren under the first, equal ones included) and every reordering of a deep copy; plus one uniquely tagged extra leaf at depth 1 and at depth 2; IsDeepEqual against the harness's own recursion over the entries"},
		},
		Assumptions: []string{"values: one symbolic byte in A..C, years 1900..1901 (so that every Equals pattern among siblings occurs)"},
		Outside:     "trees with more than 2 children per side in the independent case, sequences of more than two diff operations, node kinds other than plain/BIRT/RESI/DATE",
	},
	{
		ID:    "C09",
		Files: map[string][]string{"": {"zz_verif_lib.go", "zz_verif_c07.go", "zz_verif_c08.go", "zz_verif_c09.go"}},
		Harnesses: []harnessSpec{
			{Name: "VerifC09_MergeNodes", Quick: tierSpec{Cases: 18}, Thorough: tierSpec{Cases: 18}, Sched: -1,
				Bounds: "two trees with equal root tag: 0..2 children each (plain {A,B,C} / BIRT / DATE), optional grandchild; result mutated at every node afterwards"},
			{Name: "VerifC09_SelfMerge", Quick: tierSpec{Cases: 6}, Thorough: tierSpec{Cases: 6}, Sched: -1,
				Bounds: "a tree with 1..3 pairwise non-equal children (optional grandchild) merged with itself"},
			{Name: "VerifC09_MergeFunctions", Quick: tierSpec{Cases: 18}, Thorough: tierSpec{Cases: 18}, Sched: -1,
				Bounds: "EqualityMergeFunction called directly on two trees (root with 0..2 children, optional grandchild) and on their first children: nil iff not equal, arguments untouched, result fresh"},
			{Name: "VerifC09_MergeSlices", Quick: tierSpec{Cases: 9}, Thorough: tierSpec{Cases: 9}, Sched: -1,
				Bounds: "two lists of 0..2 nodes (duplicates allowed), each element with a unique marker child; merge function equality / always / never"},
		},
		Assumptions: []string{"values: one symbolic byte in A..C, years 1900..1901"},
		Outside:     "lists longer than 2, trees with more than 2 children per side, other node kinds",
	},
	{
		ID:    "C12",
		Files: map[string][]string{"": {"zz_verif_lib.go", "zz_verif_c12.go"}},
		Harnesses: []harnessSpec{
			{Name: "VerifC12_Jaro", Quick: tierSpec{Cases: 36}, Thorough: tierSpec{First: 36, Cases: 28, Split: 3}, Sched: -1,
				Bounds: "JaroWinkler on every pair of byte strings (all 256 byte values) of lengths 0..5 x 0..5 (thorough 0..7 x 0..7), prefix size symbolic 0..10, boost threshold 0 or 0.7"},
			{Name: "VerifC12_String", Quick: tierSpec{Cases: 16}, Thorough: tierSpec{Cases: 16}, Sched: -1,
				Bounds: "StringSimilarity on printable ASCII strings of lengths 0..3 x 0..3"},
			{Name: "VerifC12_Date", Quick: tierSpec{Cases: 1}, Thorough: tierSpec{Cases: 1}, Sched: -1, Solver: "cvc5", Timeout: 60000,
				Bounds: "two symbolic valid year-granularity dates (years 1..9999), maxYears = 3. Month and day granularity and a symbolic maxYears were tried (18 cases are written) and dropped from both tiers: cvc5 and z3 answer unknown on the nonlinear float queries within 60 s"},
			{Name: "VerifC12_DateMonotone", Quick: tierSpec{Cases: 1}, Thorough: tierSpec{Cases: 1}, Sched: -1, Solver: "cvc5", Timeout: 60000,
				Bounds: "three symbolic year-granularity dates, maxYears = 3 (the other 8 granularity pairs do not terminate within the budget and are not claimed)"},
			{Name: "VerifC12_Weighted", Quick: tierSpec{Cases: 3}, Thorough: tierSpec{Cases: 3}, Sched: -1,
				Bounds: "four symbolic component scores in [0,1]; default weights, symbolic non-negative weights summing to 1, and every weight vector over quarter steps (0, 0.25, ... 1, exact in binary64) summing to 1"},
			{Name: "VerifC12_Surrounding", Quick: tierSpec{Cases: 32}, Thorough: tierSpec{Cases: 32}, Sched: -1,
				Bounds: "two individuals (one symbolic given-name byte each) whose parents family and spouse-and-child family are present or missing independently on each side (4 x 4 shapes) x forced / skippable full calculation"},
			{Name: "VerifC12_Lists", Quick: tierSpec{Cases: 9}, Thorough: tierSpec{Cases: 9}, Sched: -1,
				Bounds: "two lists of 3..5 undated siblings (9..25 pairs, many of them with equal scores), one symbolic byte over {n,b} in three names of each list"},
			{Name: "VerifC12_Ties", Quick: tierSpec{Cases: 2, Split: 2}, Thorough: tierSpec{Cases: 2, Split: 2}, Sched: -1,
				Bounds: "two lists of four siblings with missing birth / death dates (16 pairs, many with exactly equal scores): 2 left templates x every right list over 3 names x {no birth, 1900, 1901} per sibling (6,561 lists each)"},
			{Name: "VerifC12_Individual", Quick: tierSpec{Cases: 81}, Thorough: tierSpec{Cases: 81}, Sched: -1,
				Bounds: "two individuals: given name of 0..2 symbolic bytes over {a,b,c}, birth year symbolic 1800..1803 / unparsable / missing; lists of 2 and 1"},
		},
		Assumptions: []string{"float64 sums and products of symbolic scores are modelled as reals followed by a sound rounding operator (the upper bound is proved with slack 1e-10); Jaro scores are concrete IEEE values on every path (the byte comparisons are the symbolic part)"},
		Outside:     "strings longer than 5 (thorough 7) bytes, non-ASCII names in StringSimilarity, family similarity with depth > 0 other than through SurroundingSimilarity, exact last-ulp behaviour of symbolic float expressions",
	},
	{
		ID:    "C13",
		Files: map[string][]string{"": {"zz_verif_lib.go", "zz_verif_c13.go"}},
		Harnesses: []harnessSpec{
			{Name: "VerifC13_History", Quick: tierSpec{Cases: 4, Split: 1}, Thorough: tierSpec{Cases: 6, Split: 2}, Sched: -1,
				Bounds: "every history of 1 and 2 (thorough: and 3) operations over 24 edits (AddNode, DeleteNode, SetNodes, AddIndividual new/clashing/symbolic pointer, AddFamily, Set/Clear Husband/Wife, SetHusbandPointer/SetWifePointer, AddFamilyWithHusbandAndWife, AddChild, AddName, AddBirthDate, AddDeathDate, SetSex, DeleteNode of a grandchild, Document.AddNode, Document.SetNodes, Document.DeleteNode of a family / an individual) and 7 reads (views, Warnings, String, Compare, SurroundingSimilarity, CompareNodes+Sort, DeepCopy into another document) on a 3-person family and on a three-generation document (a person who is a spouse in one family and a child in a later one); views read twice so that caches are warm"},
		},
		Assumptions: []string{"relation views that crash on dangling references are rendered as PANIC on both sides (crashes are C14's subject)"},
		Outside:     "histories longer than 2 (thorough: 3) operations, publish and query as reads (their purity is asserted in the C14/C15 harnesses), other documents",
	},
	{
		ID:    "C14",
		Files: map[string][]string{"": {"zz_verif_lib.go", "zz_verif_c14.go"}, "html": {"zz_verif_html_lib.go", "zz_verif_c14.go"}},
		Harnesses: []harnessSpec{
			{Name: "VerifC14_Publish", Pkg: "html", Quick: tierSpec{Cases: 27}, Thorough: tierSpec{Cases: 27}, Sched: -1,
				Bounds: "publish (all page groups, one job) in show / hide / placeholder mode on 6 decodable files: well-formed, dangling and wrong-kind references with empty values, missing and odd names, a living person who is their own parent and spouse, duplicate pointers with unparsable dates, empty file, and a dead person whose surname starts with a symbolic two-byte character U+00C0..U+00FF or a symbolic printable ASCII byte, or whose whole surname is one or two symbolic bytes over 8 characters (blank, symbols, digit, letter)"},
			{Name: "VerifC14_Library", Quick: tierSpec{Cases: 6}, Thorough: tierSpec{Cases: 6}, Sched: -1,
				Bounds: "a 3-person / 2-family / 1-source file in which one of the five reference values (FAMS, FAMC, HUSB, WIFE, CHIL) is 0..4 symbolic bytes over {@,I,F,1,2,x}; 7 NAME forms and 7 DATE forms by choice; warnings, an accessor sweep over individuals, families, names, sources, places, similarity and node diff"},
			{Name: "VerifC14_Compare", Quick: tierSpec{Cases: 6}, Thorough: tierSpec{Cases: 6}, Sched: -1,
				Bounds: "the same files through IndividualNodes.Compare (goroutine pipeline, deterministic scheduler)"},
		},
		Assumptions: []string{"the commands are represented by the library calls they make (flag/os/log are outside the engine)"},
		Outside:     "process-level behaviour (exit status, stderr), publish and query (exercised in the C17-C19 and C15 harnesses), files beyond the template, more than one hostile reference at a time",
	},
	{
		ID:    "C19",
		Files: map[string][]string{"html": {"zz_verif_html_lib.go", "zz_verif_c19.go"}},
		Harnesses: []harnessSpec{
			{Name: "VerifC19_Names", Pkg: "html", Quick: tierSpec{Cases: 10}, Thorough: tierSpec{Cases: 10}, Sched: -1,
				Bounds: "a 2-person document plus one hostile element: 2 symbolic bytes (0x21-0x7e) in a source pointer, an individual pointer, a surname or a place name; two people whose names collapse to one key; places named like fixed pages; a person whose name collapses to the key of a place that is also written in three spellings; all page groups, show mode"},
			{Name: "VerifC19_Directory", Pkg: "html", Quick: tierSpec{Cases: 6}, Thorough: tierSpec{Cases: 6}, Sched: -1,
				Bounds: "the real DirectoryFileWriter on a modelled file system (os.Create / OpenFile / ReadFile with O_CREATE, O_TRUNC, O_EXCL, O_APPEND semantics): a document published into a directory that already holds a longer site, a shorter site or the same site with more page groups, against a fresh directory; jobs 1 and 2; a missing output directory"},
			{Name: "VerifC19_Determinism", Pkg: "html", Quick: tierSpec{Cases: 6}, Thorough: tierSpec{Cases: 6}, Sched: -1, MapOrder: true, Invariant: []string{"site"},
				Bounds: "a 4-person / 1-family / 1-source document in 3 visibility modes x jobs 1,2, preceded or not by publishing another document in the same execution, under four map iteration policies applied to every map range (insertion order, reversed, rotated, adjacent pairs swapped) with the deterministic goroutine scheduler"},
			{Name: "VerifC19_Races", Pkg: "html", Quick: tierSpec{Cases: 6}, Thorough: tierSpec{Cases: 6}, Sched: -2, Race: true,
				Bounds: "publishing the family document with 2 and 3 jobs x 3 visibilities under the happens-before monitor (fair schedule); each report is confirmed natively with the Go race detector"},
			{Name: "VerifC19_Faults", Pkg: "html", Quick: tierSpec{Cases: 4}, Thorough: tierSpec{Cases: 4}, Sched: -1, ReplayAll: true,
				Bounds: "file writer failing at the k-th file for every k, jobs 1 and 2 (every path is also run natively, under the Go scheduler)"},
		},
		Assumptions: []string{"goroutines are scheduled cooperatively (run until blocked, lowest id first): interleavings at arbitrary instructions and the Go memory model are outside the engine"},
		Outside:     "data races and real thread schedules, jobs > 2, DirectoryFileWriter and the file system, documents beyond the templates",
	},
	{
		ID:    "C18",
		Files: map[string][]string{"html": {"zz_verif_html_lib.go", "zz_verif_c18.go"}, "q": {"zz_verif_c18.go"}},
		Harnesses: []harnessSpec{
			{Name: "VerifC18_Query", Pkg: "q", Quick: tierSpec{Cases: 24}, Thorough: tierSpec{Cases: 24}, Sched: -1,
				Bounds: "8 queries whose results carry file content (strings, objects, nodes, lists) x 3 tainted values (given name, place, note) with one symbolic byte, written by the html formatter of 'gedcom query'"},
			{Name: "VerifC18_Publish", Pkg: "html", Quick: tierSpec{Cases: 13}, Thorough: tierSpec{Cases: 13}, Sched: -1,
				Bounds: "a 3-person / 1-family / 1-source document in which one of 13 value kinds (the pointer of an individual without a name, given name, surname, place, date phrase, note, source title, source property, event value, individual pointer, sex, name type, second name) carries the token Ta<c>nt with c any printable ASCII byte (symbolic); all page groups, show mode; every output byte that depends on c must provably not be one of < > \" ' &"},
			{Name: "VerifC18_Diff", Pkg: "html", Quick: tierSpec{Cases: 7}, Thorough: tierSpec{Cases: 7}, Sched: -1,
				Bounds: "the html diff report of the tainted document against the clean one for 7 value kinds (names, place, date phrase, event value, the pointer of a named and of a nameless individual)"},
		},
		Assumptions: []string{"one tainted byte at a time; html.EscapeString is modelled byte-wise (validated against the real function)"},
		Outside:     "JavaScript / URL contexts (location.href is checked as an attribute only), multi-byte sequences forming an entity, two tainted values at once, well-nestedness tokenising",
	},
	{
		ID:    "C17",
		Files: map[string][]string{"html": {"zz_verif_html_lib.go", "zz_verif_c17.go"}},
		Harnesses: []harnessSpec{
			{Name: "VerifC17_Hidden", Pkg: "html", Quick: tierSpec{Cases: 16}, Thorough: tierSpec{Cases: 16}, Sched: -1, Invariant: []string{"site"},
				Bounds: "a dead couple and child plus one living person in 8 roles (child of dead parents, spouse, unconnected, sharing a surname / a place with a dead person, living by the age rule only, burial without death, parent of a dead child) x {hide, placeholder}; the living person's given name, surname, alternative name and place are marker tokens with 2 symbolic letters each, the birth year is symbolic 1960..2005; all page groups"},
			{Name: "VerifC17_Shown", Pkg: "html", Quick: tierSpec{Cases: 8}, Thorough: tierSpec{Cases: 8}, Sched: -1,
				Bounds: "control: the same documents in show mode"},
		},
		Assumptions: []string{"time.Now() is the host clock read once per run (people born 1960..2005 without death are living under the default 100-year rule)"},
		Outside:     "more than one living person, jobs > 1 (C19), subsets of page groups, the CLI wrapper",
	},
	{
		ID:    "C20",
		Files: map[string][]string{"": {"zz_verif_lib.go", "zz_verif_c05.go", "zz_verif_c06.go", "zz_verif_c20.go"}},
		Harnesses: []harnessSpec{
			{Name: "VerifC05_Order", Quick: tierSpec{Cases: 3}, Thorough: tierSpec{Cases: 3}, Sched: -1,
				Bounds: "lemma used by the other harnesses of this check (VsLemma): before/after by Date.Years is calendar order, for two independent dates of every granularity, all days of years 1..9999"},
			{Name: "VerifC20_Parents", Quick: tierSpec{Cases: 18}, Thorough: tierSpec{Cases: 18}, Sched: -1,
				Bounds: "one parent and the child with exact-day births: day 1..28 symbolic, month one of Jan/Jun/Dec and year (parent 1800/1801, child 1800/1801/1830) by choice; the other parent born 1650 / 1995 / without a date; either parent symbolic; 3 record orders"},
			{Name: "VerifC20_Siblings", Quick: tierSpec{Cases: 2}, Thorough: tierSpec{Cases: 2}, Sched: -1,
				Bounds: "two siblings with exact-day births: day 1..28 symbolic, month Jan/Jun/Dec and year 1803..1805 by choice; distance 0, 5..268 or >= 280 days; both orders of the CHIL lines"},
			{Name: "VerifC20_UnknownAge", Quick: tierSpec{Cases: 8}, Thorough: tierSpec{Cases: 8}, Sched: -1, Solver: "cvc5",
				Bounds: "a person whose birth / baptism date cannot be interpreted (4 forms) with a death or burial on an exact day (day symbolic; 1850, 1950 or 2000)"},
			{Name: "VerifC20_ThreeSiblings", Quick: tierSpec{Cases: 6}, Thorough: tierSpec{Cases: 6}, Sched: -1, Solver: "cvc5",
				Bounds: "three children (days symbolic: January 1900, June 1900, June 1905) with the CHIL lines in all six orders"},
			{Name: "VerifC20_Marriage", Quick: tierSpec{Cases: 1}, Thorough: tierSpec{Cases: 1}, Sched: -1, Solver: "cvc5",
				Bounds: "husband born in 1800 and married in 1810/1816/1850/1900/1903 (by choice), days 1..28 symbolic, months Jan/Jun/Dec by choice; age at marriage at least 10 days away from 16 and 100 years"},
			{Name: "VerifC20_Individual", Quick: tierSpec{Cases: 4}, Thorough: tierSpec{Cases: 4}, Sched: -1, Solver: "cvc5",
				Bounds: "birth in 1800 and death in 1799/1800/1860/1900/1904 (by choice), days 1..28 symbolic, months by choice; extra unparsable dates / SEX lines by case"},
			{Name: "VerifC20_EventOrder", Quick: tierSpec{Cases: 27}, Thorough: tierSpec{Cases: 27}, Sched: -1, Solver: "cvc5",
				Bounds: "baptism, death and burial as exact days (day 1..28 symbolic, month Jan/Jun/Dec by choice, year 1850; death also 1851) in every relative order, with a valid, missing or unparsable birth"},
			{Name: "VerifC20_BadMarriage", Quick: tierSpec{Cases: 4}, Thorough: tierSpec{Cases: 4}, Sched: -1, Solver: "cvc5",
				Bounds: "a marriage with an unparsable date, an impossible day, a phrase or no date; husband's birth an exact day (day symbolic, month and year 1800/1960 by choice)"},
			{Name: "VerifC20_Spouses", Quick: tierSpec{Cases: 16}, Thorough: tierSpec{Cases: 16}, Sched: -1,
				Bounds: "all 4x4 combinations of husband / wife SEX values (M, F, missing, U)"},
		},
		Assumptions: []string{"exact dates, days 1..28 (so that every (day, month) is valid in every year), months Jan/Jun/Dec, years by choice (a symbolic year makes every age computation a div/mod/saturating-multiply query that takes seconds)", "ages are float64 computations: modelled as reals with a sound rounding operator; the margins keep the verdicts away from the rounding slack"},
		Outside:     "inexact dates, dates within the margins, more than 4 people, several families per person, the formatted age inside warning texts",
	},
	{
		ID:    "C15",
		Files: map[string][]string{"q": {"zz_verif_q_lib.go", "zz_verif_c15.go"}},
		Harnesses: []harnessSpec{
			{Name: "VerifC15_Eval", Pkg: "q", Quick: tierSpec{Cases: 5}, Thorough: tierSpec{Cases: 8, Split: 2}, Sched: -1,
				Bounds: "source (9 forms) | stage (42 templates: accessors, unknown accessors, First/Last/Length/Only/Combine/NodesWithTagPath/MergeDocumentsAndIndividuals with right and wrong argument counts, objects, variables, operators; numeric arguments as symbolic digits) with one stage on 4 document sets and two stages on the small family (thorough: two stages on all 4) (small family, empty, single person, two documents); every result to all five formatters"},
			{Name: "VerifC15_Special", Pkg: "q", Quick: tierSpec{Cases: 64}, Thorough: tierSpec{Cases: 64}, Sched: -1,
				Bounds: "32 hostile programs (self-referential variables, variables defined twice with a cycle through the first or the last definition, nil pipelines, deep .Nodes chains, pipelines over lists of lists, syntax garbage) on 2 document sets"},
			{Name: "VerifC15_Variables", Pkg: "q", Quick: tierSpec{Cases: 3, Split: 2}, Thorough: tierSpec{Cases: 3, Split: 2}, Sched: -1,
				Bounds: "every program of 1..3 variable definitions over 2 names x 9 bodies (names, literals, lists, objects, functions, operators and Combine of variables) followed by one of 4 uses: 72 + 1,296 + 23,328 programs"},
			{Name: "VerifC15_Accessors", Pkg: "q", Quick: tierSpec{Cases: 40}, Thorough: tierSpec{Cases: 40}, Sched: -1,
				Bounds: "every accessor that reflection exposes (the list printed by 'source | ?') applied to 10 sources (document, individuals, families, names, births, husbands, nodes, strings, a number) on 4 document sets, every result to all five formatters; plus the names of struct fields (every accessor in camel and lower case, 30 field names of the document and node types, exported and unexported) as accessors, inside an object and a filter"},
			{Name: "VerifC15_Arguments", Pkg: "q", Quick: tierSpec{Cases: 40 * 3 * 2}, Thorough: tierSpec{Cases: 40 * 3 * 2}, Sched: -1,
				Bounds: "40 calls with negative, non-numeric, huge, nested and ill-typed arguments x 3 sources x 2 document sets"},
			{Name: "VerifC15_Parse", Pkg: "q", Quick: tierSpec{Cases: 4}, Thorough: tierSpec{Cases: 4}, Sched: -1,
				Bounds: "every query of 0..3 printable ASCII bytes (all bytes symbolic) through tokenizer and parser"},
		},
		Assumptions: []string{"the reflect and encoding/json models reproduce Go's results and panics (validated by per-run trace comparison with the native run)"},
		Outside:     "queries longer than the templates, accessors that need arguments, exact JSON text of map-ordered objects, 'gedcom query' as a process",
	},
	{
		ID:    "C16",
		Files: map[string][]string{"q": {"zz_verif_q_lib.go", "zz_verif_c16.go"}},
		Harnesses: []harnessSpec{
			{Name: "VerifC16_Operators", Pkg: "q", Quick: tierSpec{Cases: 9}, Thorough: tierSpec{Cases: 16, Split: 2}, Sched: -1,
				Bounds: "both operands are strings of 0..2 (thorough 0..3) symbolic bytes over digits, '.', '-', '+', blank, tab, b/B/z/Z; all six operators through the real BinaryExpr against a reference order written from the statement (numbers as exact rationals)"},
			{Name: "VerifC16_OperatorsUnicode", Pkg: "q", Quick: tierSpec{Cases: 6, Split: 1}, Thorough: tierSpec{Cases: 12, Split: 1}, Sched: -1,
				Bounds: "operands that are one two-byte character (6 lead bytes: U+00C0.., U+0100.., U+0140.., Greek, Cyrillic; every pair of second bytes 0x80..0xbf by choice) with or without a trailing letter: the operator laws (negation, trichotomy, <= and >=) and reflexivity under surrounding blanks"},
			{Name: "VerifC16_OperatorsParsed", Pkg: "q", Quick: tierSpec{Cases: 29}, Thorough: tierSpec{Cases: 29}, Sched: -1,
				Bounds: "28 concrete operand pairs in the spellings outside the symbolic alphabet (exponents, hex, underscores, inf, nan, long mantissas, non-ASCII) and one symbolic byte per side, written as the query \"l\" op \"r\" through tokenizer, parser and engine"},
			{Name: "VerifC16_Functions", Pkg: "q", Quick: tierSpec{Cases: 28 * 5}, Thorough: tierSpec{Cases: 28 * 5}, Sched: -1,
				Bounds: "28 queries (accessor chains over Document/Individual/Family/Name, First/Last with a symbolic digit 0..9, Length, Only with a symbolic literal, Combine, NodesWithTagPath, objects, variables) on family documents of 0..4 people whose name bytes are symbolic; JSON of the result against JSON of the value computed with the Go API"},
			{Name: "VerifC16_Algebra", Pkg: "q", Quick: tierSpec{Cases: 7 * 4}, Thorough: tierSpec{Cases: 7 * 4}, Sched: -1, MapOrder: true,
				Bounds: "7 list expressions x 5 following stages x 0..3 people: variable inlining, repeatability (under 4 map iteration orders), Combine(E,E) doubling, Only(p)/Only(not p) partition and order"},
		},
		Assumptions: []string{"operands are ASCII; exponent / hex / inf / nan spellings are checked on the concrete pairs only", "an operand that is a number only after trimming blanks is outside the stated order (either reading of the statement is accepted); the laws still apply to it"},
		Outside:     "accessors with arguments, Date/Place accessors with symbolic dates (floats in JSON), MergeDocumentsAndIndividuals (C10), queries deeper than 5 stages",
	},
	{
		ID:    "C10",
		Files: map[string][]string{"": {"zz_verif_lib.go", "zz_verif_c10.go"}},
		Harnesses: []harnessSpec{
			{Name: "VerifC10_Merge", Quick: tierSpec{Cases: 54}, Thorough: tierSpec{Cases: 54}, Sched: -1,
				Bounds: "a 3-person family merged with 9 variants of a second document (identical copy, renumbered copy, renumbered copy with more detail under facts that the base only mentions, edited renumbered copy with a dropped and an added person and a changed fact, disjoint family, disjoint family with clashing pointers, empty document, copies in which one byte of a given name is symbolic) x default / strict (0.99) / lenient (0.1) thresholds x both argument orders; the real Compare pipeline runs under the deterministic scheduler"},
			{Name: "VerifC10_Identifiers", Quick: tierSpec{Cases: 14}, Thorough: tierSpec{Cases: 14}, Sched: -1,
				Bounds: "a father and a son of the same name matched by unique identifiers against what the pointers say: pointers swapped in the copy (one or both with a _UID), renumbered copy with identifiers, one identifier under different names, twins of whom one has an identifier, copies in which only the family record is renumbered (with and without an added child) x both argument orders"},
		},
		Assumptions: []string{"every person carries a unique NOTE so that it can be followed through the merge; EqualityMergeFunction for the other records"},
		Outside:     "documents with more than 4 people per side or several families per person, other merge functions, the query function (C15/C16 harnesses call it on 2 documents), schedules other than the deterministic one (C11)",
	},
	{
		ID:    "C11",
		Files: map[string][]string{"": {"zz_verif_lib.go", "zz_verif_c11.go"}},
		Harnesses: []harnessSpec{
			{Name: "VerifC11_Compare", Quick: tierSpec{Cases: 32}, Thorough: tierSpec{Cases: 160}, Sched: 1, Invariant: []string{"matching"},
				Bounds: "8 input scenarios (renumbered edited copy, shared pointers, duplicated unique id, identical twins, empty sides, crossed unique ids, a symbolic name byte) x Jobs in {0,1,2,3} with the default thresholds (thorough also 0/0, 1/1, 0/1, 1/0); every schedule of the goroutine pipeline with at most 1 pre-emption at channel, sync.Map and mutex operations"},
			{Name: "VerifC11_Threshold", Quick: tierSpec{Cases: 24}, Thorough: tierSpec{Cases: 24}, Sched: -1,
				Bounds: "the 8 scenarios x Jobs 1, 2, 3 with a symbolic MinimumWeightedSimilarity in [0,1]; deterministic schedule (with the schedule explorer the symbolic scores times the schedules take 25 minutes per case)"},
			{Name: "VerifC11_Races", Quick: tierSpec{Cases: 16}, Thorough: tierSpec{Cases: 16}, Sched: -2, Race: true,
				Bounds: "the 8 scenarios with Jobs 2 and 3 under the happens-before monitor (vector clocks over go, channel, sync.Map, Mutex, WaitGroup, Once): unordered conflicting accesses of the interpreted code to struct fields, slice elements, globals and maps; each report is confirmed natively with the Go race detector"},
		},
		Assumptions: []string{"goroutines are interleaved at channel, sync.Map, mutex, WaitGroup and Sleep operations only (sequentially consistent memory between them)"},
		Outside:     "GOMAXPROCS, true parallelism and weak-memory effects, Jobs > 3, lists of more than 4 individuals, the 'gedcom diff' process",
	},
	{
		ID:    "C04",
		Files: map[string][]string{"": {"zz_verif_lib.go", "zz_verif_c04.go"}},
		Harnesses: []harnessSpec{
			{Name: "VerifC04_Single", Quick: tierSpec{Cases: 16 * 3 * 24 * 4}, Thorough: tierSpec{Cases: 16 * 3 * 24 * 4}, Sched: -1,
				Bounds: "every keyword spelling (15 + none) x lower/UPPER/Capitalised x 23 month spellings + an unknown word x shapes {year, month year, day month year, day year}; day 0..99 in one-digit, two-digit and leading-zero form, year 1..9999 with 1-4 digits (all digits symbolic); separators of 1, 2 and 4 spaces with leading/trailing space"},
			{Name: "VerifC04_Range", Quick: tierSpec{Cases: 4 * 3 * 3 * 3 * 3}, Thorough: tierSpec{Cases: 4 * 3 * 3 * 3 * 3}, Sched: -1,
				Bounds: "4 between-words x 3 and-words x 3 letter cases x 3x3 shapes, each side with/without a keyword, digits symbolic"},
			{Name: "VerifC04_RangeEnds", Quick: tierSpec{Cases: 7}, Thorough: tierSpec{Cases: 7}, Sched: -1, Solver: "cvc5",
				Bounds: "5 ranges whose second date lies inside the period named by the first (or that are written the later date first), with keywords, and ranges between two days of one month / one year (whole-period ranges among them); days symbolic"},
			{Name: "VerifC04_NearMiss", Quick: tierSpec{Cases: 12}, Thorough: tierSpec{Cases: 12}, Sched: -1,
				Bounds: "12 undocumented forms with symbolic day and year digits"},
		},
		Assumptions: []string{"years 1..9999 (year 0 is excluded: the documentation allows it but a zero Year field means 'no year')", "at most four consecutive spaces", "at most one leading zero on the day, none on the year"},
		Outside:     "years >= 10000, year 0, more than one leading zero, tabs, runs of five or more spaces, non-English month names, dual dates; DateNode phrase forms",
	},
	{
		ID:    "C05",
		Files: map[string][]string{"": {"zz_verif_lib.go", "zz_verif_c05.go"}},
		Harnesses: []harnessSpec{
			{Name: "VerifC05_Bounds", Quick: tierSpec{Cases: 3}, Thorough: tierSpec{Cases: 3}, Sched: -1, Solver: "z3-new",
				Bounds: "one symbolic date per granularity (full / month-year / year), every valid day of years 1..9999, both range ends"},
			{Name: "VerifC05_Years", Quick: tierSpec{Cases: 3}, Thorough: tierSpec{Cases: 3}, Sched: -1, Solver: "z3-new",
				Bounds: "every day d and its calendar successor; every month-year and year-only date against its first and last day; floats as reals with a sound rounding operator (relative error 2^-53, monotone)"},
			{Name: "VerifC05_Order", Quick: tierSpec{Cases: 3}, Thorough: tierSpec{Cases: 3}, Sched: -1, Solver: "z3-new",
				Bounds: "two independent symbolic full dates, years 1..9999, split on the order of the years"},
		},
		Assumptions: []string{"valid civil dates, years 1..9999", "float64 arithmetic in round-to-nearest without overflow: modelled as real arithmetic followed by an uninterpreted monotone rounding operator with relative error <= 2^-53 (sound relaxation)"},
		Outside:     "years outside 1..9999; the exact binary64 value of Years(); DateNodes.Minimum/Maximum on parsed nodes (exercised through Years ordering only)",
	},
	{
		ID:    "C06",
		Files: map[string][]string{"": {"zz_verif_lib.go", "zz_verif_c06.go"}},
		Harnesses: []harnessSpec{
			{Name: "VerifC06_Compare", Quick: tierSpec{Cases: 81}, Thorough: tierSpec{Cases: 81}, Sched: -1, Solver: "z3-new",
				Bounds: "four symbolic dates (day/month/year granularity by case, all 81 combinations), years 1..9999, every valid day; both ranges forwards"},
			{Name: "VerifC06_Mixed", Quick: tierSpec{Cases: 4}, Thorough: tierSpec{Cases: 4}, Sched: -1, Solver: "cvc5",
				Bounds: "4 ranges whose ends differ in granularity (year..month, day..month, month..day, year..day of 1943; the day symbolic) against a day range (both days symbolic) and against themselves"},
			{Name: "VerifC06_Self", Quick: tierSpec{Cases: 9}, Thorough: tierSpec{Cases: 9}, Sched: -1, Solver: "z3-new",
				Bounds: "one symbolic range (9 granularity pairs) compared with itself, years 1..9999"},
		},
		Assumptions: []string{"valid civil dates, years 1..9999", "ranges run forwards (first day of start <= last day of end)"},
		Outside:     "years outside 1..9999; constraints (Abt./Bef./Aft.) do not take part in Compare",
	},
}

func findProperty(id string) *propertySpec {
	for i := range registry {
		if registry[i].ID == id {
			return &registry[i]
		}
	}
	return nil
}
