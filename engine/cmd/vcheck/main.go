// vcheck drives gosym: it decides one property of the repo by symbolic
// execution of the registered harnesses, replays counterexamples and sampled
// witnesses against the real build, and writes the evidence file.
package main

import (
	"bufio"
	"go/ast"
	"go/parser"
	"go/token"
	"encoding/json"
	"flag"
	"fmt"
	"math/rand"
	"os"
	"os/exec"
	"path/filepath"
	"regexp"
	"runtime"
	"sort"
	"strconv"
	"strings"
	"sync"
	"time"

	"gosym/interp"
)

var (
	verifDir = envOr("VERIF_DIR", "/verif")
	repoDir  = envOr("VERIF_REPO", "/repo")
	// outDir receives work files, replays and evidence (seeded-change runs set it to a scratch directory)
	outDir = envOr("VERIF_OUT", verifDir)
)

func envOr(k, d string) string {
	if v := os.Getenv(k); v != "" {
		return v
	}
	return d
}

type workerSpec struct {
	Property string  `json:"property"`
	Harness  int     `json:"harness"`
	Tier     string  `json:"tier"`
	Cases    []int   `json:"cases"`
	Prefixes [][]int `json:"prefixes,omitempty"` // with a single case: explore only below these
	Frontier int     `json:"frontier,omitempty"` // >0: only expand to this fork depth and report open prefixes
	Out      string  `json:"out"`
	Seed     int64   `json:"seed"`
	Deadline int64   `json:"deadline_unix"`
	Twin     bool    `json:"twin,omitempty"`
}

type workerLine struct {
	Kind     string             `json:"kind"` // "path", "case", "stats", "error"
	Path     *interp.PathRecord `json:"path,omitempty"`
	Cex      []interp.Cex       `json:"cex,omitempty"`
	Case     *interp.CaseResult `json:"case,omitempty"`
	Stats    *workerStats       `json:"stats,omitempty"`
	Error    string             `json:"error,omitempty"`
	Frontier [][]int            `json:"frontier,omitempty"`
}

type workerStats struct {
	Labels       map[string]int   `json:"labels"`
	Reached      map[string]int   `json:"reached"`
	Obligations  int              `json:"obligations"`
	Discharged   int              `json:"discharged"`
	Trivial      int              `json:"trivial"`
	Queries      int              `json:"queries"`
	Sat          int              `json:"sat"`
	Unsat        int              `json:"unsat"`
	Unknown      int              `json:"unknown"`
	UnknownFeas  int              `json:"unknown_feas"`
	UnknownObl   int              `json:"unknown_obl"`
	ModelHits    int              `json:"model_hits"`
	SolverS      float64          `json:"solver_s"`
	LoadS        float64          `json:"load_s"`
	Funcs        map[string]int64 `json:"funcs"`
	Models       map[string]int64 `json:"models"`
	Inconclusive []string         `json:"inconclusive"`
	SolverErrors []string         `json:"solver_errors"`
	Solver       string           `json:"solver"`
}

func main() {
	property := flag.String("property", "", "property id (C01..C20)")
	tier := flag.String("tier", envOr("VERIF_TIER", "quick"), "quick|thorough")
	worker := flag.String("worker", "", "internal: run a worker spec")
	replay := flag.String("replay", "", "replay a counterexample file natively")
	selftest := flag.Bool("selftest", false, "run the engine self-tests")
	onlyHarness := flag.String("harness", "", "restrict to one harness (debugging)")
	onlyCases := flag.String("cases", "", "restrict to these cases, comma separated (debugging)")
	workers := flag.Int("workers", 0, "worker processes (default: number of CPUs, max 16)")
	noReplay := flag.Bool("no-replay", false, "skip native replay (debugging only; run is then inconclusive)")
	trace := flag.Bool("trace", false, "trace interpreted instructions (worker, debugging)")
	flag.Parse()
	traceInstr = *trace
	switch {
	case *worker != "":
		os.Exit(runWorker(*worker))
	case *replay != "":
		os.Exit(runReplayFile(*replay))
	case *selftest:
		os.Exit(runSelftest())
	case *property != "":
		os.Exit(runProperty(*property, *tier, *onlyHarness, *onlyCases, *workers, *noReplay))
	}
	flag.Usage()
	os.Exit(2)
}

var traceInstr bool

// ---------- overlay ----------

func overlayFiles(p *propertySpec) (map[string]string, error) {
	m := map[string]string{}
	m[filepath.Join(repoDir, "internal/vsym/vsym.go")] = filepath.Join(verifDir, "harness/vsym/vsym.go")
	for dir, files := range p.Files {
		for _, f := range files {
			src := filepath.Join(verifDir, "harness", harnessDir(dir), f)
			if _, err := os.Stat(src); err != nil {
				return nil, err
			}
			m[filepath.Join(repoDir, dir, f)] = src
		}
	}
	return m, nil
}

func loadEngine(p *propertySpec, h *harnessSpec, tier string) (*interp.Engine, error) {
	files, err := overlayFiles(p)
	if err != nil {
		return nil, err
	}
	ov := map[string][]byte{}
	for dst, src := range files {
		b, err := os.ReadFile(src)
		if err != nil {
			return nil, err
		}
		ov[dst] = b
	}
	solver := h.Solver
	if solver == "" {
		solver = "z3-new"
	}
	timeout := h.Timeout
	if timeout == 0 {
		timeout = 20000
		if tier == "thorough" {
			timeout = 120000
		}
	}
	pat := "."
	if h.Pkg != "" {
		pat = "./" + h.Pkg
	}
	return interp.Load(interp.Config{
		RepoDir:    repoDir,
		RepoPrefix: "github.com/elliotchance/gedcom",
		Overlay:    ov,
		Patterns:   []string{pat},
		Solver:     solver,
		TimeoutMS:  timeout,
		Trace:      traceInstr,
	})
}

// ---------- worker ----------

func runWorker(specFile string) int {
	data, err := os.ReadFile(specFile)
	if err != nil {
		fmt.Fprintln(os.Stderr, err)
		return 2
	}
	var spec workerSpec
	if err := json.Unmarshal(data, &spec); err != nil {
		fmt.Fprintln(os.Stderr, err)
		return 2
	}
	out, err := os.Create(spec.Out)
	if err != nil {
		fmt.Fprintln(os.Stderr, err)
		return 2
	}
	defer out.Close()
	w := bufio.NewWriterSize(out, 1<<20)
	defer w.Flush()
	enc := json.NewEncoder(w)
	p := findProperty(spec.Property)
	h := &p.Harnesses[spec.Harness]
	eng, err := loadEngine(p, h, spec.Tier)
	if err != nil {
		enc.Encode(workerLine{Kind: "error", Error: "load: " + err.Error()})
		return 0
	}
	ts := h.Quick
	if spec.Tier == "thorough" {
		ts = h.Thorough
	}
	maxPaths := ts.MaxPaths
	if maxPaths == 0 {
		maxPaths = 200000
	}
	rng := rand.New(rand.NewSource(spec.Seed))
	npaths := 0
	for _, cs := range spec.Cases {
		opts := interp.ExploreOpts{
			MaxPaths:    maxPaths,
			MaxSteps:    ts.MaxSteps,
			MapOrder:    h.MapOrder,
			Race:        h.Race,
			SchedBudget: h.Sched,
			Witnesses:   true,
			Prefixes:    spec.Prefixes,
		}
		if spec.Frontier > 0 {
			opts.FrontierDepth = spec.Frontier
		}
		if spec.Deadline > 0 {
			opts.Deadline = time.Unix(spec.Deadline, 0)
		}
		opts.OnPath = func(rec *interp.PathRecord, cex []interp.Cex) {
			npaths++
			if os.Getenv("VERIF_PROGRESS") != "" && npaths%50 == 0 {
				fmt.Fprintf(os.Stderr, "[worker %s] case %d paths %d queries %d solver %.1fs unknown %d\n", filepath.Base(spec.Out), rec.Case, npaths, eng.Ctx.Queries, eng.Ctx.Solver.Stats.Time.Seconds(), eng.Ctx.Solver.Stats.Unknown)
				w.Flush()
			}
			// keep witnesses only for a sample of the ok paths (all others keep theirs)
			if rec.Outcome == "ok" && len(cex) == 0 && len(rec.Emits) == 0 {
				if !(npaths <= 40 || rng.Intn(20) == 0 || spec.Property == "SELF") {
					rec.Witness = nil
					rec.Trace = nil
					rec.DecisionsV = nil
				}
			}
			enc.Encode(workerLine{Kind: "path", Path: rec, Cex: cex})
		}
		res, err := eng.Explore(pkgPath(h.Pkg), h.Name, cs, opts)
		if err != nil {
			enc.Encode(workerLine{Kind: "error", Error: err.Error()})
			continue
		}
		enc.Encode(workerLine{Kind: "case", Case: res, Frontier: res.Frontier})
	}
	c := eng.Ctx
	st := &workerStats{Labels: c.Labels, Reached: c.Reached, Obligations: c.Obligations, Discharged: c.Discharged, Trivial: c.TrivialObl,
		Queries: c.Queries, Sat: c.Solver.Stats.Sat, Unsat: c.Solver.Stats.Unsat, Unknown: c.Solver.Stats.Unknown,
		UnknownFeas: c.UnknownFeas, UnknownObl: c.UnknownObl, ModelHits: c.ModelHits,
		SolverS: c.Solver.Stats.Time.Seconds(), LoadS: eng.LoadS, Funcs: eng.FuncsExecuted(), Models: c.ModelsUsed,
		Inconclusive: c.Inconclusive, SolverErrors: c.Solver.Stats.Errors, Solver: c.Solver.Kind}
	enc.Encode(workerLine{Kind: "stats", Stats: st})
	return 0
}

// ---------- parent ----------

// emitRepeats: extra native runs of the second witness of a path-invariant counterexample.
const emitRepeats = 8

// schedRepeats: extra native runs of a counterexample that was found under an explored schedule.
const schedRepeats = 150

type cexRecord struct {
	Harness string
	Case    int
	Cex     interp.Cex
	Count   int
	// for path-invariant (relational) obligations: the other witness of the pair and the key
	Other   map[string]string
	EmitKey string
}

func (c *cexRecord) signature() string {
	return c.Harness + "/" + c.Cex.Label + "/" + c.Cex.Class
}

type harnessResult struct {
	spec       *harnessSpec
	paths      int
	forks      int
	symbolic   int
	outcomes   map[string]int
	steps      int64
	asserts    int
	cex        map[string]*cexRecord // by signature
	okSamples  []*interp.PathRecord
	stats      []*workerStats
	errors     []string
	truncated  bool
	seconds    float64
	emitDiffs  []string
	emitFirst  map[string]*interp.PathRecord // case/key -> first path that emitted
	cases      int
	maxPathsIn int
}

// restrictedRun: --harness or --cases was given (debugging run).
var restrictedRun bool

func runProperty(id, tier, onlyHarness, onlyCases string, nworkers int, noReplay bool) int {
	restrictedRun = onlyHarness != "" || onlyCases != ""
	t0 := time.Now()
	p := findProperty(id)
	if p == nil {
		fmt.Printf("INCONCLUSIVE property=%s not registered\n", id)
		return 2
	}
	if tier != "quick" && tier != "thorough" {
		tier = "quick"
	}
	seed := int64(1)
	if s := os.Getenv("VERIF_SEED"); s != "" {
		if n, err := strconv.ParseInt(s, 10, 64); err == nil {
			seed = n
		}
	}
	if nworkers <= 0 {
		nworkers = runtime.NumCPU()
		if nworkers > 16 {
			nworkers = 16
		}
	}
	work := filepath.Join(outDir, "work", id+"-"+tier)
	os.RemoveAll(work)
	os.MkdirAll(work, 0o755)
	os.MkdirAll(filepath.Join(outDir, "evidence"), 0o755)
	self, _ := os.Executable()

	var results []*harnessResult
	for hi := range p.Harnesses {
		h := &p.Harnesses[hi]
		if onlyHarness != "" && h.Name != onlyHarness {
			continue
		}
		ts := h.Quick
		if tier == "thorough" {
			ts = h.Thorough
		}
		var cases []int
		if onlyCases != "" {
			for _, s := range strings.Split(onlyCases, ",") {
				n, _ := strconv.Atoi(s)
				cases = append(cases, n)
			}
		} else {
			for c := ts.First; c < ts.First+ts.Cases; c++ {
				cases = append(cases, c)
			}
		}
		hr := runHarness(self, work, p, hi, tier, cases, nworkers, seed, ts)
		results = append(results, hr)
		var sigs []string
		for s := range hr.cex {
			sigs = append(sigs, s)
		}
		sort.Strings(sigs)
		fmt.Printf("HARNESS %s cases=%d paths=%d outcomes=%v cex_signatures=%d seconds=%.1f\n", h.Name, len(cases), hr.paths, hr.outcomes, len(sigs), hr.seconds)
		for _, s := range sigs {
			fmt.Printf("  candidate %s x%d %v\n", s, hr.cex[s].Count, hr.cex[s].Cex.Assignment)
		}
	}
	return finish(p, tier, seed, results, work, t0, noReplay)
}

func runHarness(self, work string, p *propertySpec, hi int, tier string, cases []int, nworkers int, seed int64, ts tierSpec) *harnessResult {
	h := &p.Harnesses[hi]
	t0 := time.Now()
	hr := &harnessResult{spec: h, outcomes: map[string]int{}, cex: map[string]*cexRecord{}, cases: len(cases)}
	var specs []workerSpec
	if ts.Split > 0 {
		// phase 1: expand each case to the frontier depth (one worker per case), phase 2: deal prefixes
		var fspecs []workerSpec
		for i, c := range cases {
			fspecs = append(fspecs, workerSpec{Property: p.ID, Harness: hi, Tier: tier, Cases: []int{c}, Frontier: ts.Split,
				Out: filepath.Join(work, fmt.Sprintf("%s-f%d.jsonl", h.Name, i)), Seed: seed})
		}
		frontiers := map[int][][]int{}
		runSpecs(self, work, fspecs, nworkers, func(spec *workerSpec, l *workerLine) {
			hr.absorb(spec, l)
			if l.Kind == "case" {
				frontiers[spec.Cases[0]] = append(frontiers[spec.Cases[0]], l.Frontier...)
			}
		})
		k := 0
		for _, c := range cases {
			fr := frontiers[c]
			if len(fr) == 0 {
				continue
			}
			n := nworkers
			if len(fr) < n {
				n = len(fr)
			}
			buckets := make([][][]int, n)
			for i, pr := range fr {
				buckets[i%n] = append(buckets[i%n], pr)
			}
			for _, b := range buckets {
				specs = append(specs, workerSpec{Property: p.ID, Harness: hi, Tier: tier, Cases: []int{c}, Prefixes: b,
					Out: filepath.Join(work, fmt.Sprintf("%s-s%d.jsonl", h.Name, k)), Seed: seed + int64(k)})
				k++
			}
		}
	} else {
		n := nworkers
		if len(cases) < n {
			n = len(cases)
		}
		for w := 0; w < n; w++ {
			var cs []int
			for i := w; i < len(cases); i += n {
				cs = append(cs, cases[i])
			}
			specs = append(specs, workerSpec{Property: p.ID, Harness: hi, Tier: tier, Cases: cs,
				Out: filepath.Join(work, fmt.Sprintf("%s-w%d.jsonl", h.Name, w)), Seed: seed + int64(w)})
		}
	}
	runSpecs(self, work, specs, nworkers, hr.absorb)
	hr.seconds = time.Since(t0).Seconds()
	return hr
}

func runSpecs(self, work string, specs []workerSpec, nworkers int, absorb func(*workerSpec, *workerLine)) {
	sem := make(chan struct{}, nworkers)
	var wg sync.WaitGroup
	var mu sync.Mutex
	for i := range specs {
		spec := &specs[i]
		wg.Add(1)
		sem <- struct{}{}
		go func() {
			defer wg.Done()
			defer func() { <-sem }()
			sf := spec.Out + ".spec.json"
			b, _ := json.Marshal(spec)
			os.WriteFile(sf, b, 0o644)
			cmd := exec.Command(self, "--worker", sf)
			if traceInstr {
				cmd.Args = append(cmd.Args, "--trace")
			}
			cmd.Stderr = os.Stderr
			err := cmd.Run()
			mu.Lock()
			defer mu.Unlock()
			if err != nil {
				absorb(spec, &workerLine{Kind: "error", Error: "worker failed: " + err.Error()})
			}
			f, ferr := os.Open(spec.Out)
			if ferr != nil {
				absorb(spec, &workerLine{Kind: "error", Error: ferr.Error()})
				return
			}
			defer f.Close()
			sc := bufio.NewScanner(f)
			sc.Buffer(make([]byte, 1<<20), 1<<28)
			sawStats := false
			for sc.Scan() {
				var l workerLine
				if err := json.Unmarshal(sc.Bytes(), &l); err != nil {
					absorb(spec, &workerLine{Kind: "error", Error: "bad worker line: " + err.Error()})
					continue
				}
				if l.Kind == "stats" {
					sawStats = true
				}
				absorb(spec, &l)
			}
			if !sawStats {
				absorb(spec, &workerLine{Kind: "error", Error: "worker produced no stats line (crashed?)"})
			}
		}()
	}
	wg.Wait()
}

func (hr *harnessResult) absorb(spec *workerSpec, l *workerLine) {
	switch l.Kind {
	case "error":
		hr.errors = append(hr.errors, l.Error)
	case "path":
		r := l.Path
		hr.paths++
		hr.forks += r.Forks
		hr.steps += r.Steps
		hr.asserts += r.Asserts
		hr.outcomes[r.Outcome]++
		if r.Symbolic {
			hr.symbolic++
		}
		for _, c := range l.Cex {
			rec := &cexRecord{Harness: hr.spec.Name, Case: r.Case, Cex: c}
			if c.Kind == "panic" || c.Kind == "deadlock" || c.Kind == "budget" {
				rec.Cex.Label = panicLabel(c.Kind, c.Msg)
			}
			sig := rec.signature()
			if old, ok := hr.cex[sig]; ok {
				old.Count++
			} else {
				rec.Count = 1
				hr.cex[sig] = rec
			}
		}
		for _, key := range hr.spec.Invariant {
			val, ok := r.Emits[key]
			if !ok {
				continue
			}
			if hr.emitFirst == nil {
				hr.emitFirst = map[string]*interp.PathRecord{}
			}
			ck := fmt.Sprintf("%d/%s", r.Case, key)
			first := hr.emitFirst[ck]
			if first == nil {
				hr.emitFirst[ck] = r
				continue
			}
			if first.Emits[key] != val {
				rec := &cexRecord{Harness: hr.spec.Name, Case: r.Case, Other: first.Witness, EmitKey: key,
					Cex: interp.Cex{Label: "path-invariant:" + key, Kind: "emit", Class: r.Class, Assignment: r.Witness,
						Msg: fmt.Sprintf("%q on this path, %q on another path of the same case", val, first.Emits[key])}}
				if rec.Cex.Assignment == nil {
					rec.Cex.Assignment = map[string]string{}
				}
				if rec.Other == nil {
					rec.Other = map[string]string{}
				}
				sig := rec.signature()
				if old, ok := hr.cex[sig]; ok {
					old.Count++
				} else {
					rec.Count = 1
					hr.cex[sig] = rec
				}
			}
		}
		if (r.Witness != nil || r.Trace != nil || r.DecisionsV != nil) && len(l.Cex) == 0 && r.Outcome == "ok" {
			if r.Witness == nil {
				r.Witness = map[string]string{}
			}
			if len(hr.okSamples) < 5000 {
				hr.okSamples = append(hr.okSamples, r)
			}
		}
		if r.Outcome == "unsupported" || r.Outcome == "internal" {
			if len(hr.errors) < 20 {
				hr.errors = append(hr.errors, fmt.Sprintf("case %d: %s: %s", r.Case, r.Outcome, firstLine(r.Msg)))
			}
		}
	case "case":
		if l.Case.Truncated {
			hr.truncated = true
		}
	case "stats":
		hr.stats = append(hr.stats, l.Stats)
	}
}

func firstLine(s string) string {
	if i := strings.IndexByte(s, '\n'); i >= 0 {
		return s[:i]
	}
	return s
}

var lineNoRe = regexp.MustCompile(`:\d+\)`)

// panicLabel derives a stable label from a panic message "msg @ site".
func panicLabel(kind, msg string) string {
	site := ""
	if i := strings.LastIndex(msg, " @ "); i >= 0 {
		site = msg[i+3:]
		msg = msg[:i]
	}
	if j := strings.Index(site, " ("); j >= 0 {
		site = site[:j]
	}
	m := firstLine(msg)
	if len(m) > 60 {
		m = m[:60]
	}
	// strip volatile parts (numbers)
	m = regexp.MustCompile(`[0-9]+`).ReplaceAllString(m, "N")
	return kind + ":" + strings.TrimSpace(m) + "@" + site
}

// ---------- finishing: vacuity, replay, known findings, evidence ----------

// expectedLabels statically collects the VsAssert / VsReach labels that the registered harness
// functions of p can reach (transitively through functions defined in the harness files).
func expectedLabels(p *propertySpec) (asserts, reaches []string) {
	files, _ := overlayFiles(p)
	type fnInfo struct {
		asserts, reaches, callees []string
	}
	fns := map[string]*fnInfo{}
	fset := token.NewFileSet()
	for _, src := range files {
		if strings.HasSuffix(src, "vsym.go") {
			continue
		}
		f, err := parser.ParseFile(fset, src, nil, 0)
		if err != nil {
			continue
		}
		for _, d := range f.Decls {
			fd, ok := d.(*ast.FuncDecl)
			if !ok || fd.Body == nil {
				continue
			}
			name := fd.Name.Name
			if fd.Recv != nil {
				name = "method." + name
			}
			info := &fnInfo{}
			fns[name] = info
			ast.Inspect(fd.Body, func(n ast.Node) bool {
				ce, ok := n.(*ast.CallExpr)
				if !ok {
					return true
				}
				switch fun := ce.Fun.(type) {
				case *ast.Ident:
					if (fun.Name == "VsAssert" || fun.Name == "VsReach") && len(ce.Args) > 0 {
						if lit, ok := ce.Args[0].(*ast.BasicLit); ok && lit.Kind == token.STRING {
							l, _ := strconv.Unquote(lit.Value)
							if fun.Name == "VsAssert" {
								info.asserts = append(info.asserts, l)
							} else {
								info.reaches = append(info.reaches, l)
							}
						}
					} else {
						info.callees = append(info.callees, fun.Name)
					}
				case *ast.SelectorExpr:
					info.callees = append(info.callees, "method."+fun.Sel.Name)
				}
				return true
			})
		}
	}
	seen := map[string]bool{}
	seenA, seenR := map[string]bool{}, map[string]bool{}
	var visit func(name string)
	visit = func(name string) {
		if seen[name] {
			return
		}
		seen[name] = true
		info := fns[name]
		if info == nil {
			return
		}
		for _, l := range info.asserts {
			seenA[l] = true
		}
		for _, l := range info.reaches {
			seenR[l] = true
		}
		for _, c := range info.callees {
			visit(c)
		}
	}
	for _, h := range p.Harnesses {
		visit(h.Name)
	}
	for k := range seenA {
		asserts = append(asserts, k)
	}
	for k := range seenR {
		reaches = append(reaches, k)
	}
	sort.Strings(asserts)
	sort.Strings(reaches)
	return
}

type knownFinding struct {
	Property, Signature, Text string
	seen                      bool
}

func loadKnownFindings(id string) []*knownFinding {
	var out []*knownFinding
	b, err := os.ReadFile(filepath.Join(verifDir, "known_findings.txt"))
	if err != nil {
		return nil
	}
	for _, line := range strings.Split(string(b), "\n") {
		line = strings.TrimSpace(line)
		if !strings.HasPrefix(line, "finding:") {
			continue
		}
		rest := strings.TrimSpace(strings.TrimPrefix(line, "finding:"))
		parts := strings.SplitN(rest, "::", 2)
		kf := &knownFinding{}
		for _, f := range strings.Fields(parts[0]) {
			if strings.HasPrefix(f, "property=") {
				kf.Property = strings.TrimPrefix(f, "property=")
			}
			if strings.HasPrefix(f, "signature=") {
				kf.Signature = strings.TrimPrefix(f, "signature=")
			}
		}
		if len(parts) == 2 {
			kf.Text = strings.TrimSpace(parts[1])
		}
		if kf.Property == id {
			out = append(out, kf)
		}
	}
	return out
}

func finish(p *propertySpec, tier string, seed int64, results []*harnessResult, work string, t0 time.Time, noReplay bool) int {
	var inconclusive []string
	addInc := func(format string, args ...interface{}) {
		if len(inconclusive) < 40 {
			inconclusive = append(inconclusive, fmt.Sprintf(format, args...))
		}
	}
	// aggregate stats
	labels, reached := map[string]int{}, map[string]int{}
	funcs, modelsUsed := map[string]int64{}, map[string]int64{}
	tot := struct {
		paths, forks, symbolic, asserts, obligations, discharged, trivial, queries, sat, unsat, unknown int
		steps                                                                                           int64
		solverS                                                                                         float64
	}{}
	outcomes := map[string]int{}
	solvers := map[string]bool{}
	for _, hr := range results {
		tot.paths += hr.paths
		tot.forks += hr.forks
		tot.symbolic += hr.symbolic
		tot.steps += hr.steps
		tot.asserts += hr.asserts
		for k, v := range hr.outcomes {
			outcomes[k] += v
		}
		for _, e := range hr.errors {
			addInc("%s: %s", hr.spec.Name, e)
		}
		if hr.truncated {
			addInc("%s: exploration truncated (path limit or deadline)", hr.spec.Name)
		}
		for _, st := range hr.stats {
			for k, v := range st.Labels {
				labels[k] += v
			}
			for k, v := range st.Reached {
				reached[k] += v
			}
			for k, v := range st.Funcs {
				funcs[k] += v
			}
			for k, v := range st.Models {
				modelsUsed[k] += v
			}
			tot.obligations += st.Obligations
			tot.discharged += st.Discharged
			tot.trivial += st.Trivial
			tot.queries += st.Queries
			tot.sat += st.Sat
			tot.unsat += st.Unsat
			tot.unknown += st.Unknown
			tot.solverS += st.SolverS
			solvers[st.Solver] = true
			for _, m := range st.Inconclusive {
				addInc("%s: %s", hr.spec.Name, m)
			}
			for _, m := range st.SolverErrors {
				addInc("%s: solver: %s", hr.spec.Name, m)
			}
			if st.UnknownFeas > 0 {
				addInc("%s: %d feasibility queries answered unknown", hr.spec.Name, st.UnknownFeas)
			}
		}
		for _, k := range []string{"unsupported", "internal", "budget"} {
			if hr.outcomes[k] > 0 && !(k == "budget" && len(hr.cex) > 0) {
				addInc("%s: %d paths ended %s", hr.spec.Name, hr.outcomes[k], k)
			}
		}
		if hr.paths == 0 {
			addInc("%s: no path explored", hr.spec.Name)
		}
	}
	// vacuity
	wantA, wantR := expectedLabels(p)
	var vacuous []string
	if len(results) == len(p.Harnesses) {
		for _, l := range wantA {
			if labels[l] == 0 {
				vacuous = append(vacuous, "assert:"+l)
			}
		}
		for _, l := range wantR {
			if reached[l] == 0 {
				vacuous = append(vacuous, "reach:"+l)
			}
		}
	}
	for _, v := range vacuous {
		addInc("vacuity: label %s never reached", v)
	}

	// counterexamples and samples for native replay
	var allCex []*cexRecord
	schedDependent := map[*cexRecord]bool{}
	for _, hr := range results {
		var sigs []string
		for s := range hr.cex {
			sigs = append(sigs, s)
		}
		sort.Strings(sigs)
		for _, s := range sigs {
			allCex = append(allCex, hr.cex[s])
			if hr.spec.Sched >= 0 {
				schedDependent[hr.cex[s]] = true
			}
		}
	}
	rng := rand.New(rand.NewSource(seed))
	K := 25
	if tier == "thorough" {
		K = 200
	}
	if p.ID == "SELF" {
		K = 1 << 30 // the self-test replays every path
	}
	type sample struct {
		h   *harnessSpec
		rec *interp.PathRecord
	}
	var samples []sample
	for _, hr := range results {
		idx := rng.Perm(len(hr.okSamples))
		k := K / len(results)
		if p.ID == "SELF" {
			k = len(idx)
		}
		if k < 5 {
			k = 5
		}
		if hr.spec.ReplayAll {
			k = len(idx) // every explored path of this harness is replayed natively
		}
		for i := 0; i < len(idx) && i < k; i++ {
			samples = append(samples, sample{hr.spec, hr.okSamples[idx[i]]})
		}
	}

	type witness struct {
		ID         string            `json:"id"`
		Harness    string            `json:"harness"`
		Case       int               `json:"case"`
		Assignment map[string]string `json:"assignment"`
		Isolate    bool              `json:"isolate,omitempty"` // run in a process of its own (package-level state)
	}
	var ws []witness
	i2w := map[int]int{}
	for i, c := range allCex {
		i2w[i] = len(ws)
		ws = append(ws, witness{ID: fmt.Sprintf("cex%d", i), Harness: c.Harness, Case: c.Case, Assignment: c.Cex.Assignment})
		if c.Cex.Kind == "emit" {
			ws[len(ws)-1].Isolate = true
			ws = append(ws, witness{ID: fmt.Sprintf("cex%db", i), Harness: c.Harness, Case: c.Case, Assignment: c.Other, Isolate: true})
			// the native run cannot be forced into a map iteration order or a schedule: the other
			// witness is run several more times, any run that emits a different value reproduces it
			for k := 0; k < emitRepeats; k++ {
				ws = append(ws, witness{ID: fmt.Sprintf("cex%db%d", i, k), Harness: c.Harness, Case: c.Case, Assignment: c.Other, Isolate: true})
			}
		} else if schedDependent[c] && (c.Cex.Kind == "assert" || c.Cex.Kind == "panic") {
			// found under an explored goroutine schedule: the native run cannot be forced into that
			// schedule, so the witness is run many times (the Go scheduler picks the interleavings)
			for k := 0; k < schedRepeats; k++ {
				ws = append(ws, witness{ID: fmt.Sprintf("cex%ds%d", i, k), Harness: c.Harness, Case: c.Case, Assignment: c.Cex.Assignment})
			}
		}
	}
	for i, s := range samples {
		ws = append(ws, witness{ID: fmt.Sprintf("ok%d", i), Harness: s.h.Name, Case: s.rec.Case, Assignment: s.rec.Witness})
	}
	validated, mismatches := 0, 0
	reproduced := map[int]bool{}
	nativeExtra := []string{}
	var replayErr error
	if !noReplay && len(ws) > 0 {
		byPkg := map[string][]witness{}
		pkgOf := map[string]string{}
		for _, h := range p.Harnesses {
			pkgOf[h.Name] = h.Pkg
		}
		for _, w := range ws {
			byPkg[pkgOf[w.Harness]] = append(byPkg[pkgOf[w.Harness]], w)
		}
		nres := map[string]*nativeResult{}
		for pkg, list := range byPkg {
			var batches [][]interface{}
			var shared []interface{}
			for i := range list {
				if list[i].Isolate {
					batches = append(batches, []interface{}{list[i]})
				} else {
					shared = append(shared, list[i])
				}
			}
			if len(shared) > 0 {
				batches = append([][]interface{}{shared}, batches...)
			}
			for _, wl := range batches {
				res, err := nativeReplay(p, pkg, wl, work)
				if err != nil {
					replayErr = err
					break
				}
				for k, v := range res {
					nres[k] = v
				}
			}
			if replayErr != nil {
				break
			}
		}
		if replayErr == nil {
			for i, c := range allCex {
				r := nres[fmt.Sprintf("cex%d", i)]
				if r == nil {
					addInc("counterexample %s: no native result", c.signature())
					continue
				}
				if r.Invalid {
					addInc("counterexample %s: witness violates an assumption natively", c.signature())
					continue
				}
				switch c.Cex.Kind {
				case "assert":
					for _, l := range r.Asserts {
						if l == c.Cex.Label {
							reproduced[i] = true
						}
					}
					for k := 0; k < schedRepeats && !reproduced[i] && schedDependent[c]; k++ {
						if rk := nres[fmt.Sprintf("cex%ds%d", i, k)]; rk != nil {
							for _, l := range rk.Asserts {
								if l == c.Cex.Label {
									reproduced[i] = true
								}
							}
						}
					}
					if !reproduced[i] && r.Panic != "" {
						addInc("counterexample %s: native run panicked instead: %s", c.signature(), firstLine(r.Panic))
					}
				case "panic":
					if r.Panic != "" {
						reproduced[i] = true
					}
					for k := 0; k < schedRepeats && !reproduced[i] && schedDependent[c]; k++ {
						if rk := nres[fmt.Sprintf("cex%ds%d", i, k)]; rk != nil && rk.Panic != "" {
							reproduced[i] = true
						}
					}
				case "deadlock", "budget":
					if r.Panic != "" || r.Timeout {
						reproduced[i] = true
					}
				case "race":
					// A data race is a property of the execution under the memory model; the ordinary
					// replay cannot show it. It is confirmed with the Go race detector instead.
					ok, why := confirmRace(p, pkgOf[c.Harness], ws[i2w[i]], work, c.Cex.Msg)
					if ok {
						reproduced[i] = true
					} else {
						addInc("race %s not confirmed by the Go race detector: %s", c.signature(), why)
						continue
					}
				case "emit":
					// a pair of witnesses: reproduced when the two native runs also emit different values
					// (map-order or schedule dependent pairs are replayed several times by the harness itself)
					rb := nres[fmt.Sprintf("cex%db", i)]
					if rb != nil && r.Emits[c.EmitKey] != rb.Emits[c.EmitKey] {
						reproduced[i] = true
					}
					for k := 0; k < emitRepeats && !reproduced[i]; k++ {
						if rk := nres[fmt.Sprintf("cex%db%d", i, k)]; rk != nil && r.Emits[c.EmitKey] != rk.Emits[c.EmitKey] {
							reproduced[i] = true
						}
					}
				}
				if !reproduced[i] {
					addInc("counterexample %s did not reproduce natively (engine or model wrong?) asserts=%v panic=%q", c.signature(), r.Asserts, firstLine(r.Panic))
				}
			}
			for i, s := range samples {
				r := nres[fmt.Sprintf("ok%d", i)]
				if r == nil {
					addInc("sample ok%d: no native result", i)
					continue
				}
				if r.Invalid {
					addInc("sample %s case %d: witness violates an assumption natively: %v", s.h.Name, s.rec.Case, s.rec.Witness)
					mismatches++
					continue
				}
				if len(r.Asserts) > 0 || r.Panic != "" {
					// the real code fails on an input the engine considered fine: report it
					nativeExtra = append(nativeExtra, fmt.Sprintf("%s case %d: native run fails (asserts=%v panic=%q) on witness %v", s.h.Name, s.rec.Case, r.Asserts, firstLine(r.Panic), s.rec.Witness))
					mismatches++
					if len(r.Asserts) > 0 {
						// the real code breaks an assertion on a concrete input: that is a violation with a
						// replayable witness, whatever the engine thought of the path (the native run may
						// have taken a goroutine schedule or a map order the engine did not explore)
						w := s.rec.Witness
						if w == nil {
							w = map[string]string{}
						}
						allCex = append(allCex, &cexRecord{Harness: s.h.Name, Case: s.rec.Case, Count: 1,
							Cex: interp.Cex{Label: r.Asserts[0], Kind: "assert", Class: s.rec.Class, Assignment: w,
								Msg: "fails in the native run of a sampled witness (on a path that the engine passed)"}})
						reproduced[len(allCex)-1] = true
					}
					continue
				}
				if !sameTrace(s.rec.Trace, r.Trace) {
					addInc("sample %s case %d: observation trace differs: engine %v native %v witness %v", s.h.Name, s.rec.Case, s.rec.Trace, r.Trace, s.rec.Witness)
					mismatches++
					continue
				}
				validated++
			}
		} else {
			addInc("native replay failed: %v", replayErr)
		}
	} else if noReplay {
		addInc("native replay skipped (--no-replay)")
	}
	for _, m := range nativeExtra {
		addInc("native failure on sampled witness: %s", m)
	}

	// classify counterexamples
	known := loadKnownFindings(p.ID)
	var violations []string
	knownSeen := 0
	os.MkdirAll(filepath.Join(outDir, "replays", p.ID), 0o755)
	for i, c := range allCex {
		if !reproduced[i] {
			continue
		}
		sig := c.signature()
		matched := false
		for _, k := range known {
			if signatureMatches(k.Signature, sig) {
				matched = true
				if !k.seen {
					k.seen = true
					knownSeen++
					fmt.Printf("KNOWN-FINDING: property=%s %s [%s]\n", p.ID, k.Text, sig)
				}
			}
		}
		if matched {
			continue
		}
		path := filepath.Join(outDir, "replays", p.ID, sanitize(sig)+".json")
		rf := map[string]interface{}{"property": p.ID, "harness": c.Harness, "case": c.Case, "signature": sig,
			"kind": c.Cex.Kind, "label": c.Cex.Label, "msg": c.Cex.Msg, "site": c.Cex.Site, "assignment": c.Cex.Assignment, "decisions": c.Cex.Decisions, "paths_with_this_signature": c.Count}
		b, _ := json.MarshalIndent(rf, "", " ")
		os.WriteFile(path, b, 0o644)
		violations = append(violations, path)
		fmt.Printf("VIOLATION property=%s replay=%s\n", p.ID, path)
		fmt.Printf("  signature=%s kind=%s msg=%s site=%s\n  assignment=%v\n", sig, c.Cex.Kind, firstLine(c.Cex.Msg), c.Cex.Site, c.Cex.Assignment)
	}

	// evidence
	var samplesOut []interface{}
	for i, s := range samples {
		if i >= 5 {
			break
		}
		samplesOut = append(samplesOut, map[string]interface{}{"harness": s.h.Name, "case": s.rec.Case, "witness_input": s.rec.Witness, "observed": s.rec.Trace, "decisions": len(s.rec.DecisionsV)})
	}
	for i, c := range allCex {
		if i >= 5 {
			break
		}
		samplesOut = append(samplesOut, map[string]interface{}{"counterexample": c.signature(), "input": c.Cex.Assignment, "reproduced_natively": reproduced[i]})
	}
	if len(samplesOut) == 0 {
		samplesOut = append(samplesOut, "no path produced a witness")
	}
	var bounds []map[string]interface{}
	for _, hr := range results {
		ts := hr.spec.Quick
		if tier == "thorough" {
			ts = hr.spec.Thorough
		}
		bounds = append(bounds, map[string]interface{}{"harness": hr.spec.Name, "cases": hr.cases, "bounds": hr.spec.Bounds, "paths": hr.paths, "outcomes": hr.outcomes,
			"max_paths_per_case": ts.MaxPaths, "map_order_exploration": hr.spec.MapOrder, "sched_preemption_budget": hr.spec.Sched, "seconds": round2(hr.seconds)})
	}
	var funcList []string
	for f := range funcs {
		funcList = append(funcList, f)
	}
	sort.Strings(funcList)
	var modelList []string
	for m := range modelsUsed {
		modelList = append(modelList, m)
	}
	sort.Strings(modelList)
	var solverList []string
	for s := range solvers {
		solverList = append(solverList, s)
	}
	sort.Strings(solverList)
	cexFound := len(allCex)
	cexRepro := len(reproduced)
	ev := map[string]interface{}{
		"property_id": p.ID,
		"tier":        tier,
		"seed":        seed,
		"level":       "model_checking",
		"wall_s":      round2(time.Since(t0).Seconds()),
		"violations":  len(violations),
		"assumptions": append(append([]string{}, p.Assumptions...), "stdlib models listed under coverage.models_used behave like the real functions (validated by vcheck --selftest and per-run trace comparison)", "go/packages + go/ssa build the same program the compiler builds", "SMT solver answers are correct"),
		"coverage": map[string]interface{}{
			"states":                        tot.paths,
			"transitions":                   tot.forks + tot.paths,
			"traces_validated_against_impl": validated,
			"trace_mismatches":              mismatches,
			"samples":                       samplesOut,
			"evaluations":                   tot.paths,
			"distinct_nontrivial":           tot.symbolic,
			"rule":                          "one evaluation = one feasible path of the real code's SSA under a symbolic input, identified by its decision vector (distinct by construction); non-trivial = its path condition mentions at least one symbolic variable",
			"obligations":                   tot.obligations,
			"discharged":                    tot.discharged,
			"obligations_decided_without_solver": tot.trivial,
			"assert_labels_reached":         labels,
			"reach_labels":                  reached,
			"vacuous_labels":                vacuous,
			"functions_encoded":             funcList,
			"functions_encoded_count":       len(funcList),
			"models_used":                   modelList,
			"bounds":                        bounds,
			"outside_bounds":                p.Outside,
			"queries":                       map[string]int{"total": tot.queries, "sat": tot.sat, "unsat": tot.unsat, "unknown": tot.unknown},
			"solver_time_s":                 round2(tot.solverS),
			"solvers":                       solverList,
			"interpreted_instructions":      tot.steps,
			"path_outcomes":                 outcomes,
			"counterexamples":               map[string]int{"signatures_found": cexFound, "reproduced_natively": cexRepro, "known_findings": knownSeen},
			"inconclusive":                  inconclusive,
			"exhaustive":                    false,
		},
	}
	b, _ := json.MarshalIndent(ev, "", " ")
	name := p.ID + ".json"
	if restrictedRun {
		name = p.ID + ".partial.json" // a debugging run of one harness / some cases must not replace the evidence of the whole check
	}
	os.WriteFile(filepath.Join(outDir, "evidence", name), b, 0o644)

	fmt.Printf("SUMMARY property=%s tier=%s paths=%d forks=%d obligations=%d discharged=%d queries=%d solver_s=%.1f validated=%d cex=%d reproduced=%d known=%d wall_s=%.1f\n",
		p.ID, tier, tot.paths, tot.forks, tot.obligations, tot.discharged, tot.queries, tot.solverS, validated, cexFound, cexRepro, knownSeen, time.Since(t0).Seconds())
	if len(violations) > 0 {
		return 1
	}
	if len(inconclusive) > 0 {
		for _, m := range inconclusive {
			fmt.Printf("INCONCLUSIVE property=%s %s\n", p.ID, m)
		}
		return 2
	}
	return 0
}

// signatureMatches: harness and label equal, and every class token of the finding occurs in the
// class set of the counterexample.
func signatureMatches(finding, cex string) bool {
	fp, cp := strings.SplitN(finding, "/", 3), strings.SplitN(cex, "/", 3)
	if len(fp) != 3 || len(cp) != 3 || fp[0] != cp[0] || fp[1] != cp[1] {
		return finding == cex
	}
	have := map[string]bool{}
	for _, t := range strings.Split(cp[2], ",") {
		have[t] = true
	}
	for _, t := range strings.Split(fp[2], ",") {
		if t != "" && !have[t] {
			return false
		}
	}
	return fp[2] != "" || cp[2] == ""
}

func round2(f float64) float64 { return float64(int(f*100+0.5)) / 100 }

func sanitize(s string) string {
	var sb strings.Builder
	for _, r := range s {
		switch {
		case r >= 'a' && r <= 'z', r >= 'A' && r <= 'Z', r >= '0' && r <= '9', r == '-', r == '_', r == '.':
			sb.WriteRune(r)
		default:
			sb.WriteByte('_')
		}
	}
	out := sb.String()
	if len(out) > 120 {
		out = out[:120]
	}
	return out
}

func sameTrace(a, b []string) bool {
	if len(a) != len(b) {
		return false
	}
	for i := range a {
		if a[i] == b[i] {
			continue
		}
		// floats are compared approximately ("~" prefix)
		if strings.HasPrefix(a[i], "~") && strings.HasPrefix(b[i], "~") {
			x, e1 := strconv.ParseFloat(a[i][1:], 64)
			y, e2 := strconv.ParseFloat(b[i][1:], 64)
			if e1 == nil && e2 == nil {
				d := x - y
				if d < 0 {
					d = -d
				}
				m := x
				if m < 0 {
					m = -m
				}
				if d <= 1e-7*(1+m) {
					continue
				}
			}
		}
		if a[i] == "?" {
			continue
		}
		return false
	}
	return true
}
