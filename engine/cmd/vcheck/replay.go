package main

import (
	"bufio"
	"bytes"
	"encoding/json"
	"fmt"
	"gosym/interp"
	"os"
	"os/exec"
	"path/filepath"
	"sort"
	"strings"
	"time"
)

type nativeResult struct {
	ID      string            `json:"id"`
	Asserts []string          `json:"asserts"`
	Panic   string            `json:"panic,omitempty"`
	Trace   []string          `json:"trace,omitempty"`
	Invalid bool              `json:"invalid"`
	Emits   map[string]string `json:"emits,omitempty"`
	Class   string            `json:"class,omitempty"`
	Timeout bool              `json:"timeout,omitempty"`
	Start   bool              `json:"start,omitempty"`
}

func pkgName(dir string) string {
	if dir == "" {
		return "gedcom"
	}
	return filepath.Base(dir)
}

const driverTmpl = `package %s

import (
	"encoding/json"
	"fmt"
	"os"
	"runtime/debug"
	"strconv"
	"testing"
	"time"

	vs "github.com/elliotchance/gedcom/v39/internal/vsym"
)

var verifHarnesses = map[string]func(int){
%s}

type verifOut struct {
	*vs.Result
	Timeout bool ` + "`json:\"timeout,omitempty\"`" + `
	Start   bool ` + "`json:\"start,omitempty\"`" + `
}

func verifRunOne(w *vs.Witness) (r *vs.Result) {
	vs.Begin(w)
	defer func() {
		if p := recover(); p != nil {
			r = vs.End()
			if _, ok := p.(vs.InvalidWitness); !ok {
				r.Panic = fmt.Sprint(p) + "\n" + string(debug.Stack())
			}
		}
	}()
	h := verifHarnesses[w.Harness]
	if h == nil {
		panic("unknown harness " + w.Harness)
	}
	h(w.Case)
	return vs.End()
}

func TestVerifReplay(t *testing.T) {
	ws, err := vs.LoadWitnesses(os.Getenv("VERIF_REPLAY"))
	if err != nil {
		t.Fatal(err)
	}
	out, err := os.OpenFile(os.Getenv("VERIF_REPLAY_OUT"), os.O_APPEND|os.O_CREATE|os.O_WRONLY, 0644)
	if err != nil {
		t.Fatal(err)
	}
	defer out.Close()
	skip, _ := strconv.Atoi(os.Getenv("VERIF_REPLAY_SKIP"))
	tmo, _ := strconv.Atoi(os.Getenv("VERIF_REPLAY_TIMEOUT_S"))
	if tmo <= 0 {
		tmo = 60
	}
	enc := json.NewEncoder(out)
	for i, w := range ws {
		if i < skip {
			continue
		}
		enc.Encode(verifOut{Result: &vs.Result{ID: w.ID}, Start: true})
		out.Sync()
		done := make(chan *vs.Result, 1)
		go func() { done <- verifRunOne(w) }()
		select {
		case r := <-done:
			enc.Encode(verifOut{Result: r})
			out.Sync()
		case <-time.After(time.Duration(tmo) * time.Second):
			enc.Encode(verifOut{Result: &vs.Result{ID: w.ID}, Timeout: true})
			out.Sync()
			os.Exit(3)
		}
	}
}
`

// nativeReplay runs the witnesses against the real build of package dir pkg and returns results by id.
func nativeReplay(p *propertySpec, pkg string, witnesses []interface{}, work string) (map[string]*nativeResult, error) {
	files, err := overlayFiles(p)
	if err != nil {
		return nil, err
	}
	var hs []string
	for _, h := range p.Harnesses {
		if h.Pkg == pkg {
			hs = append(hs, h.Name)
		}
	}
	sort.Strings(hs)
	var sb strings.Builder
	for _, h := range hs {
		fmt.Fprintf(&sb, "\t%q: %s,\n", h, h)
	}
	tag := harnessDir(pkg)
	tag = strings.ReplaceAll(tag, "/", "_")
	driver := filepath.Join(work, "driver_"+tag+"_test.go")
	if err := os.WriteFile(driver, []byte(fmt.Sprintf(driverTmpl, pkgName(pkg), sb.String())), 0o644); err != nil {
		return nil, err
	}
	files[filepath.Join(repoDir, pkg, "zz_verif_replay_test.go")] = driver
	ov := map[string]map[string]string{"Replace": files}
	ovb, _ := json.Marshal(ov)
	ovf := filepath.Join(work, "overlay_"+tag+".json")
	os.WriteFile(ovf, ovb, 0o644)
	wf := filepath.Join(work, "witnesses_"+tag+".jsonl")
	var wb bytes.Buffer
	enc := json.NewEncoder(&wb)
	ids := make([]string, len(witnesses))
	for i, w := range witnesses {
		enc.Encode(w)
		b, _ := json.Marshal(w)
		var probe struct {
			ID string `json:"id"`
		}
		json.Unmarshal(b, &probe)
		ids[i] = probe.ID
	}
	os.WriteFile(wf, wb.Bytes(), 0o644)
	rf := filepath.Join(work, "native_"+tag+".jsonl")
	os.Remove(rf)

	results := map[string]*nativeResult{}
	skip := 0
	target := "."
	if pkg != "" {
		target = "./" + pkg
	}
	var lastOut []byte
	for attempt := 0; attempt < len(witnesses)+2 && skip < len(witnesses); attempt++ {
		args := []string{"1500", "go", "test", "-vet=off", "-count=1", "-timeout", "20m", "-run", "^TestVerifReplay$", "-overlay", ovf}
		if replayWithRaceDetector {
			args = append(args, "-race")
		}
		cmd := exec.Command("timeout", append(args, target)...)
		cmd.Dir = repoDir
		cmd.Env = append(os.Environ(), "GOFLAGS=-mod=mod", "GOPROXY=off", "GOSUMDB=off", "GOTOOLCHAIN=local",
			"VERIF_REPLAY="+wf, "VERIF_REPLAY_OUT="+rf, fmt.Sprintf("VERIF_REPLAY_SKIP=%d", skip), "VERIF_REPLAY_TIMEOUT_S=60")
		out, runErr := cmd.CombinedOutput()
		lastOut = out
		// read results so far
		f, err := os.Open(rf)
		if err != nil {
			return nil, fmt.Errorf("native replay produced no output: %v\n%s", runErr, tail(out, 2000))
		}
		started := map[string]bool{}
		sc := bufio.NewScanner(f)
		sc.Buffer(make([]byte, 1<<20), 1<<28)
		for sc.Scan() {
			var r nativeResult
			if err := json.Unmarshal(sc.Bytes(), &r); err != nil {
				continue
			}
			if r.Start {
				started[r.ID] = true
				continue
			}
			rc := r
			results[r.ID] = &rc
		}
		f.Close()
		// find the first witness without a result
		next := len(witnesses)
		for i, id := range ids {
			if results[id] == nil {
				next = i
				break
			}
		}
		if next == len(witnesses) {
			break
		}
		id := ids[next]
		if started[id] {
			// the process died while running this witness: that is a crash of the real code
			results[id] = &nativeResult{ID: id, Panic: "process died during this witness (fatal error / unrecovered goroutine panic / stack overflow):\n" + tail(out, 3000)}
			skip = next + 1
			continue
		}
		if runErr != nil && next == skip {
			return nil, fmt.Errorf("native replay did not start (build error?): %v\n%s", runErr, tail(out, 4000))
		}
		skip = next
	}
	lastReplayOutput = lastOut
	return results, nil
}

// replayWithRaceDetector makes nativeReplay build the test binary with -race; lastReplayOutput is
// the combined output of the last native run (the race detector writes its reports there).
var (
	replayWithRaceDetector bool
	lastReplayOutput       []byte
)

// confirmRace runs one witness natively under the Go race detector (up to 3 times) and reports
// whether the detector saw a race in one of the functions the monitor named.
func confirmRace(p *propertySpec, pkg string, w interface{}, work string, msg string) (bool, string) {
	replayWithRaceDetector = true
	defer func() { replayWithRaceDetector = false }()
	// functions named by the monitor: "... in (*T).M and goroutine 3 in f$1 are ..."
	var fns []string
	for _, part := range strings.Split(msg, " in ")[1:] {
		f := strings.Fields(part)[0]
		if i := strings.Index(f, "$"); i >= 0 {
			f = f[:i]
		}
		// the detector prints "pkg.(*T).M.func1()", the monitor "(*pkg.T).M$1": compare by ".M"
		if i := strings.LastIndex(f, "."); i >= 0 {
			f = f[i:]
		}
		fns = append(fns, strings.TrimSuffix(f, ","))
	}
	for attempt := 0; attempt < 3; attempt++ {
		if _, err := nativeReplay(p, pkg, []interface{}{w}, work); err != nil {
			return false, err.Error()
		}
		out := string(lastReplayOutput)
		if !strings.Contains(out, "WARNING: DATA RACE") {
			continue
		}
		for _, f := range fns {
			if f != "" && (strings.Contains(out, f+"(") || strings.Contains(out, f+".func")) {
				return true, ""
			}
		}
	}
	return false, "the race detector did not report it in 3 runs"
}

func tail(b []byte, n int) string {
	if len(b) > n {
		b = b[len(b)-n:]
	}
	return string(b)
}

// runReplayFile replays one stored counterexample against the current tree (exit 1 if it still fails).
func runReplayFile(path string) int {
	b, err := os.ReadFile(path)
	if err != nil {
		fmt.Fprintln(os.Stderr, err)
		return 2
	}
	var rf struct {
		Property   string            `json:"property"`
		Harness    string            `json:"harness"`
		Case       int               `json:"case"`
		Kind       string            `json:"kind"`
		Label      string            `json:"label"`
		Assignment map[string]string `json:"assignment"`
	}
	if err := json.Unmarshal(b, &rf); err != nil {
		fmt.Fprintln(os.Stderr, err)
		return 2
	}
	p := findProperty(rf.Property)
	if p == nil {
		fmt.Fprintln(os.Stderr, "unknown property", rf.Property)
		return 2
	}
	pkg := ""
	for _, h := range p.Harnesses {
		if h.Name == rf.Harness {
			pkg = h.Pkg
		}
	}
	work := filepath.Join(outDir, "work", "replay-"+rf.Property+fmt.Sprintf("-%d", time.Now().UnixNano()))
	os.MkdirAll(work, 0o755)
	defer os.RemoveAll(work)
	w := map[string]interface{}{"id": "r0", "harness": rf.Harness, "case": rf.Case, "assignment": rf.Assignment}
	res, err := nativeReplay(p, pkg, []interface{}{w}, work)
	if err != nil {
		fmt.Fprintln(os.Stderr, err)
		return 2
	}
	r := res["r0"]
	if r == nil {
		fmt.Println("no result")
		return 2
	}
	out, _ := json.MarshalIndent(r, "", " ")
	fmt.Println(string(out))
	if len(r.Asserts) > 0 || r.Panic != "" || r.Timeout {
		fmt.Printf("VIOLATION property=%s replay=%s\n", rf.Property, path)
		return 1
	}
	fmt.Println("witness no longer fails")
	return 0
}

// runSelftest validates the trusted base: (1) the calendar closed forms and the order lemma of the
// time model, exhaustively against the time package; (2) the library models, by exploring small
// harnesses that only call library functions on symbolic strings and replaying EVERY path natively
// (registry entry SELF), so that every observation of every model path is compared with what the
// real library returns.
func runSelftest() int {
	t0 := time.Now()
	n, err := interp.SelfTestCalendar()
	if err != nil {
		fmt.Printf("SELFTEST calendar FAILED after %d dates: %v\n", n, err)
		return 1
	}
	fmt.Printf("SELFTEST calendar ok: %d dates checked (day number, month length, successor, predecessor, order) in %.1fs\n", n, time.Since(t0).Seconds())
	rc := runProperty("SELF", "quick", "", "", 0, false)
	if rc != 0 {
		fmt.Printf("SELFTEST models FAILED (exit %d): a model path disagrees with the real library, see the INCONCLUSIVE lines\n", rc)
		return 1
	}
	fmt.Println("SELFTEST models ok: every explored path of the library-model harnesses replayed natively with identical observations")
	return 0
}
