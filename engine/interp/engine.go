package interp

import (
	"fmt"
	"go/token"
	"go/types"
	"os"
	"runtime/debug"
	"sort"
	"strings"
	"time"

	"golang.org/x/tools/go/packages"
	"golang.org/x/tools/go/ssa"
	"golang.org/x/tools/go/ssa/ssautil"
)

// Config describes what to load.
type Config struct {
	RepoDir    string            // directory of the module under test
	RepoPrefix string            // import path prefix interpreted from source
	Overlay    map[string][]byte // absolute file name -> content
	Patterns   []string          // package patterns to load (relative to RepoDir)
	Solver     string
	TimeoutMS  int
	Trace      bool
}

// Engine is a loaded program ready for exploration.
type Engine struct {
	cfg   Config
	prog  *ssa.Program
	pkgs  map[string]*ssa.Package
	in    *interpreter
	Ctx   *Ctx
	LoadS float64
}

// Load type-checks the packages, builds SSA and prepares the interpreter.
func Load(cfg Config) (*Engine, error) {
	t0 := time.Now()
	pcfg := &packages.Config{
		Mode: packages.NeedName | packages.NeedFiles | packages.NeedCompiledGoFiles | packages.NeedImports |
			packages.NeedDeps | packages.NeedTypes | packages.NeedSyntax | packages.NeedTypesInfo | packages.NeedTypesSizes | packages.NeedModule,
		Dir:     cfg.RepoDir,
		Overlay: cfg.Overlay,
		Env:     append(os.Environ(), "GOFLAGS=-mod=mod", "GOPROXY=off", "GOSUMDB=off", "GOTOOLCHAIN=local"),
	}
	initial, err := packages.Load(pcfg, cfg.Patterns...)
	if err != nil {
		return nil, err
	}
	var errs []string
	packages.Visit(initial, nil, func(p *packages.Package) {
		if strings.HasPrefix(p.PkgPath, cfg.RepoPrefix) {
			for _, e := range p.Errors {
				errs = append(errs, e.Error())
			}
		}
	})
	if len(errs) > 0 {
		return nil, fmt.Errorf("load errors:\n%s", strings.Join(errs, "\n"))
	}
	prog, spkgs := ssautil.AllPackages(initial, ssa.InstantiateGenerics|ssa.SanityCheckFunctions&0)
	prog.Build()
	e := &Engine{cfg: cfg, prog: prog, pkgs: map[string]*ssa.Package{}}
	for _, p := range spkgs {
		if p != nil {
			e.pkgs[p.Pkg.Path()] = p
		}
	}
	in := &interpreter{
		prog:       prog,
		globals:    map[*ssa.Global]*value{},
		sizes:      types.SizesFor("gc", "amd64"),
		repoPrefix: cfg.RepoPrefix,
		funcInfos:  map[*ssa.Function]*funcInfo{},
		execCount:  map[*ssa.Function]int64{},
		trace:      cfg.Trace,
		initDone:   map[*ssa.Package]bool{},
	}
	if ep := prog.ImportedPackage("errors"); ep != nil {
		in.errorStrT = types.NewPointer(ep.Type("errorString").Type())
	} else {
		return nil, fmt.Errorf("program does not include package errors")
	}
	e.in = in
	theInterp = in
	c, err := NewCtx(cfg.Solver, cfg.TimeoutMS)
	if err != nil {
		return nil, err
	}
	e.Ctx = c
	cx = c
	// external interpretable packages: globals allocated and initialised once
	sched = newScheduler()
	cx.startPath(nil)
	for _, pkg := range prog.AllPackages() {
		if interpretablePkg[pkg.Pkg.Path()] {
			e.allocGlobals(pkg)
		}
	}
	in.lenient = true
	defer func() { in.lenient = false }()
	for _, pkg := range prog.AllPackages() {
		if interpretablePkg[pkg.Pkg.Path()] {
			if init := pkg.Func("init"); init != nil {
				if err := e.protect(func() { e.runInit(pkg) }); err != nil {
					cx.endPath()
					return nil, fmt.Errorf("init of %s: %v", pkg.Pkg.Path(), err)
				}
			}
		}
	}
	cx.endPath()
	e.LoadS = time.Since(t0).Seconds()
	return e, nil
}

func (e *Engine) protect(f func()) (err error) {
	defer func() {
		if r := recover(); r != nil {
			err = fmt.Errorf("%v", describePanic(r))
		}
	}()
	f()
	return nil
}

func describePanic(r interface{}) string {
	switch r := r.(type) {
	case targetPanic:
		return "panic: " + panicMessage(r.v) + " @ " + r.site
	case abortPath:
		return r.Error()
	case goroutineCrash:
		return fmt.Sprintf("goroutine %d: %s", r.g, describePanic(r.p))
	case error:
		return r.Error()
	}
	return fmt.Sprint(r)
}

func (e *Engine) allocGlobals(pkg *ssa.Package) {
	for _, m := range pkg.Members {
		if g, ok := m.(*ssa.Global); ok {
			cell := zero(mustDeref(g.Type()))
			if p, ok := e.in.globals[g]; ok {
				*p = cell
			} else {
				e.in.globals[g] = &cell
			}
		}
	}
}

// runInit runs the package initializer of pkg (dependencies first, via the init guard).
func (e *Engine) runInit(pkg *ssa.Package) {
	call(e.in, nil, token.NoPos, pkg.Func("init"), nil)
}

// repoPackages lists the SSA packages under the repo prefix.
func (e *Engine) repoPackages() []*ssa.Package {
	var out []*ssa.Package
	for _, pkg := range e.prog.AllPackages() {
		if strings.HasPrefix(pkg.Pkg.Path(), e.cfg.RepoPrefix) {
			out = append(out, pkg)
		}
	}
	sort.Slice(out, func(i, j int) bool { return out[i].Pkg.Path() < out[j].Pkg.Path() })
	return out
}

// ExploreOpts configures one exploration.
type ExploreOpts struct {
	MaxPaths    int
	MaxSteps    int64
	Deadline    time.Time
	MapOrder    bool
	SchedBudget int // -1 deterministic
	Race        bool // happens-before data race monitor (race.go)
	Witnesses   bool
	// Prefixes restricts the exploration to the subtrees below these decision prefixes (nil = whole tree).
	Prefixes [][]int
	// FrontierDepth > 0: stop expanding at this many forks and return the open prefixes instead.
	FrontierDepth int
	OnPath        func(rec *PathRecord, cex []Cex)
}

// CaseResult summarises the exploration of one outer case.
type CaseResult struct {
	Case      int
	Paths     int
	Forks     int
	Truncated bool    // MaxPaths or deadline hit
	Frontier  [][]int // open prefixes when FrontierDepth was used
	Seconds   float64
}

// Explore runs harness function fn (func(int)) of package pkgPath on case cs over all feasible paths.
func (e *Engine) Explore(pkgPath, fn string, cs int, opts ExploreOpts) (*CaseResult, error) {
	pkg := e.pkgs[pkgPath]
	if pkg == nil {
		return nil, fmt.Errorf("package %s not loaded", pkgPath)
	}
	f := pkg.Func(fn)
	if f == nil {
		return nil, fmt.Errorf("harness %s.%s not found", pkgPath, fn)
	}
	t0 := time.Now()
	res := &CaseResult{Case: cs}
	work := [][]int{nil}
	if opts.Prefixes != nil {
		work = append([][]int(nil), opts.Prefixes...)
	}
	c := e.Ctx
	c.MapOrder = opts.MapOrder
	c.SchedBudget = opts.SchedBudget
	if opts.MaxSteps > 0 {
		c.MaxSteps = opts.MaxSteps
	}
	c.Deadline = opts.Deadline
	for len(work) > 0 {
		if opts.MaxPaths > 0 && res.Paths >= opts.MaxPaths {
			res.Truncated = true
			c.inconclusive("case %d: path limit %d reached with %d prefixes open", cs, opts.MaxPaths, len(work))
			break
		}
		if !opts.Deadline.IsZero() && time.Now().After(opts.Deadline) {
			res.Truncated = true
			c.inconclusive("case %d: deadline reached with %d prefixes open", cs, len(work))
			break
		}
		prefix := work[len(work)-1]
		work = work[:len(work)-1]
		if opts.FrontierDepth > 0 && countForks(prefix) >= opts.FrontierDepth {
			res.Frontier = append(res.Frontier, prefix)
			continue
		}
		rec, cex := e.runPath(pkg, f, cs, prefix, opts)
		res.Paths++
		res.Forks += rec.Forks
		if opts.OnPath != nil {
			opts.OnPath(rec, cex)
		}
		// depth-first: explore the alternatives discovered deepest first
		work = append(work, c.pending...)
		if res.Paths%2000 == 0 {
			// z3's incremental state grows: restart between paths
			c.Solver.Restart()
		}
	}
	res.Seconds = time.Since(t0).Seconds()
	return res, nil
}

func countForks(prefix []int) int {
	n := 0
	for _, d := range prefix {
		if d == dTrue || d == dFalse || d >= dChooseBase {
			n++
		}
	}
	return n
}

func (e *Engine) runPath(pkg *ssa.Package, f *ssa.Function, cs int, prefix []int, opts ExploreOpts) (rec *PathRecord, cex []Cex) {
	c := e.Ctx
	c.startPath(prefix)
	sched = newScheduler()
	raceReset(opts.Race)
	rec = &PathRecord{Case: cs}
	defer func() {
		if r := recover(); r != nil {
			e.classify(rec, r)
		}
		sched.killAll()
		if n := sched.leaked(); n > 0 && rec.Outcome == "ok" {
			rec.Msg = fmt.Sprintf("%d goroutines still blocked at exit", n)
		}
		rec.Decisions = len(c.decisions)
		rec.Forks = c.forks
		rec.Steps = c.steps
		rec.Asserts = c.asserts
		rec.Symbolic = c.symbolicP
		rec.Class = c.class
		rec.Emits = c.emits
		cex = c.pathCex
		needW := opts.Witnesses || rec.Outcome == "panic" || rec.Outcome == "deadlock" || rec.Outcome == "budget" || rec.Outcome == "unsupported" || rec.Outcome == "internal"
		if needW && rec.Outcome != "infeasible" && rec.Outcome != "assume" {
			rec.Witness = c.witness()
			rec.DecisionsV = append([]int(nil), c.decisions...)
			rec.Trace = c.renderTrace()
		}
		if rec.Outcome == "panic" || rec.Outcome == "deadlock" || rec.Outcome == "budget" {
			cex = append(cex, Cex{Label: rec.Outcome, Kind: rec.Outcome, Msg: rec.Msg, Assignment: rec.Witness, Decisions: rec.DecisionsV, Class: c.class})
		}
		if race.on && rec.Outcome != "infeasible" && rec.Outcome != "assume" {
			for _, loc := range race.order {
				w := rec.Witness
				if w == nil {
					w = c.witness()
				}
				cex = append(cex, Cex{Label: "no-data-race", Kind: "race", Msg: race.found[loc], Assignment: w, Decisions: append([]int(nil), c.decisions...), Class: loc})
			}
		}
		c.endPath()
	}()
	// fresh package state for every path
	for _, p := range e.repoPackages() {
		e.allocGlobals(p)
	}
	e.runInit(pkg)
	call(e.in, nil, token.NoPos, f, []value{cs})
	rec.Outcome = "ok"
	return
}

func (e *Engine) classify(rec *PathRecord, r interface{}) {
	switch r := r.(type) {
	case abortPath:
		rec.Outcome = r.kind
		rec.Msg = r.msg
		if r.kind == "unsupported" || r.kind == "internal" {
			e.Ctx.inconclusive("%s: %s", r.kind, r.msg)
		}
	case targetPanic:
		rec.Outcome = "panic"
		rec.Msg = panicMessage(r.v) + " @ " + r.site
	case goroutineCrash:
		rec.Outcome = "panic"
		rec.Msg = fmt.Sprintf("[goroutine %d] %s", r.g, describePanic(r.p))
	case runtimeError:
		rec.Outcome = "panic"
		rec.Msg = r.Error()
	default:
		rec.Outcome = "internal"
		rec.Msg = fmt.Sprintf("%v\n%s", r, debug.Stack())
		e.Ctx.inconclusive("internal error: %v", r)
	}
}

// panicMessage renders a target panic value the way the Go runtime would print it.
func panicMessage(v value) string {
	if i, ok := v.(iface); ok {
		if i.t == nil {
			return "nil"
		}
		if s, ok := i.v.(string); ok {
			return s
		}
		if isStr(i.v) {
			return toString(i.v)
		}
		// error values: call Error() when it is cheap (errors.errorString, fmt.wrapError)
		if p, ok := i.v.(*value); ok && p != nil {
			if st, ok := (*p).(structure); ok && len(st) >= 1 {
				if s, ok := st[0].(string); ok {
					return s
				}
				if isStr(st[0]) {
					return toString(st[0])
				}
			}
		}
		return fmt.Sprintf("(%s) %s", i.t, toString(i.v))
	}
	return toString(v)
}

// FuncsExecuted returns repo functions whose SSA was executed, with call counts.
func (e *Engine) FuncsExecuted() map[string]int64 {
	out := map[string]int64{}
	for f, n := range e.in.execCount {
		out[f.String()] = n
	}
	return out
}

// HarnessExists reports whether a function exists in a loaded package.
func (e *Engine) HarnessExists(pkgPath, fn string) bool {
	p := e.pkgs[pkgPath]
	return p != nil && p.Func(fn) != nil
}
