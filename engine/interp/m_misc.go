package interp

import (
	"math/bits"
	"fmt"
	"go/token"
	"go/types"
	"math"
	"math/big"

	"gosym/sym"
)

// ---------- sync ----------

type syncMap struct {
	m  *Map
	vc vclock
}
type syncMutex struct {
	locked bool
	vc     vclock
}
type syncWaitGroup struct {
	n  int
	vc vclock
}
type syncOnce struct {
	done bool
	vc   vclock
}

func syncMapArg(v value) *syncMap {
	p := v.(*value)
	if p == nil {
		panic(runtimeError("invalid memory address or nil pointer dereference"))
	}
	return (*p).(*syncMap)
}

func emptyIface() types.Type { return types.NewInterfaceType(nil, nil) }

// ---------- sort ----------

// stableSortIdx sorts idx stably with an interpreted less(i, j) over *positions*.
// Because sort.Slice's less refers to the slice by index, we sort by repeatedly
// swapping elements of the real slice (insertion sort: stable, deterministic,
// calls less only on adjacent elements of the current arrangement).
func insertionSort(n int, less func(i, j int) bool, swap func(i, j int)) {
	for i := 1; i < n; i++ {
		for j := i; j > 0 && less(j, j-1); j-- {
			swap(j, j-1)
		}
	}
}

func sortSliceModel(fr *frame, a []value, stable bool) value {
	si := a[0].(iface)
	if si.t == nil {
		panic(targetPanic{v: mkError("reflect: call of Swapper on zero Value")})
	}
	s, ok := si.v.([]value)
	if !ok {
		panic(targetPanic{v: mkError("reflect: call of Swapper on non-slice Value")})
	}
	lessFn := a[1]
	if len(s) > 400 {
		Unsupported("sort of %d elements", len(s))
	}
	ls := lessSwap{
		Less: func(i, j int) bool { return cx.BranchV(call(fr.i, fr, fr.callpos, lessFn, []value{i, j})) },
		Swap: func(i, j int) { s[i], s[j] = s[j], s[i] },
	}
	if stable {
		stable_func(ls, len(s))
	} else {
		pdqsort_func(ls, 0, len(s), bits.Len(uint(len(s))))
	}
	return nil
}

func init() {
	reg("(*sync.Map).Load", func(fr *frame, a []value) value {
		sched.visible()
		m := syncMapArg(a[0])
		raceAcquire(m.vc)
		v, ok := m.m.lookup(a[1])
		if !ok {
			return tuple{iface{}, false}
		}
		return tuple{v, true}
	})
	reg("(*sync.Map).Store", func(fr *frame, a []value) value {
		sched.visible()
		raceRelease(&syncMapArg(a[0]).vc)
		syncMapArg(a[0]).m.insert(a[1], a[2])
		return nil
	})
	reg("(*sync.Map).LoadOrStore", func(fr *frame, a []value) value {
		sched.visible()
		m := syncMapArg(a[0])
		raceAcquire(m.vc)
		if v, ok := m.m.lookup(a[1]); ok {
			return tuple{v, true}
		}
		raceRelease(&m.vc)
		m.m.insert(a[1], a[2])
		return tuple{a[2], false}
	})
	reg("(*sync.Map).Delete", func(fr *frame, a []value) value {
		sched.visible()
		raceRelease(&syncMapArg(a[0]).vc)
		syncMapArg(a[0]).m.delete(a[1])
		return nil
	})
	reg("(*sync.Map).Range", func(fr *frame, a []value) value {
		m := syncMapArg(a[0])
		raceAcquire(m.vc)
		for _, e := range orderForRange(m.m.live()) {
			if e.deleted {
				continue
			}
			if !cx.BranchV(call(fr.i, fr, fr.callpos, a[1], []value{e.key, e.val})) {
				break
			}
		}
		return nil
	})
	mu := func(v value) *syncMutex { return (*v.(*value)).(*syncMutex) }
	reg("(*sync.Mutex).Lock", func(fr *frame, a []value) value {
		sched.visible()
		m := mu(a[0])
		sched.block("mutex", func() bool { return !m.locked })
		m.locked = true
		raceAcquire(m.vc)
		return nil
	})
	reg("(*sync.Mutex).Unlock", func(fr *frame, a []value) value {
		m := mu(a[0])
		if !m.locked {
			panic(abortPath{"deadlock", "fatal error: sync: unlock of unlocked mutex"})
		}
		raceRelease(&m.vc)
		m.locked = false
		return nil
	})
	wg := func(v value) *syncWaitGroup { return (*v.(*value)).(*syncWaitGroup) }
	reg("(*sync.WaitGroup).Add", func(fr *frame, a []value) value {
		w := wg(a[0])
		w.n += int(asInt64(a[1]))
		if w.n < 0 {
			panic(targetPanic{v: mkError("sync: negative WaitGroup counter")})
		}
		return nil
	})
	reg("(*sync.WaitGroup).Done", func(fr *frame, a []value) value {
		w := wg(a[0])
		raceRelease(&w.vc)
		w.n--
		if w.n < 0 {
			panic(targetPanic{v: mkError("sync: negative WaitGroup counter")})
		}
		return nil
	})
	reg("(*sync.WaitGroup).Wait", func(fr *frame, a []value) value {
		w := wg(a[0])
		sched.block("waitgroup", func() bool { return w.n == 0 })
		raceAcquire(w.vc)
		return nil
	})
	reg("(*sync.Once).Do", func(fr *frame, a []value) value {
		o := (*a[0].(*value)).(*syncOnce)
		if !o.done {
			o.done = true
			call(fr.i, fr, fr.callpos, a[1], nil)
			raceRelease(&o.vc)
		} else {
			raceAcquire(o.vc)
		}
		return nil
	})

	// The number of processors is part of the environment: an arbitrary value of the set that the
	// properties quantify over (one choice per path).
	procs := func(fr *frame, a []value) value {
		if cx.gomaxprocs == 0 {
			cx.gomaxprocs = []int{1, 2, 16}[cx.Choose(3, nil)]
			if cx.choices == nil {
				cx.choices = map[string]string{}
			}
			cx.choices["env:GOMAXPROCS#0"] = fmt.Sprint(cx.gomaxprocs) // the replay sets it
		}
		return cx.gomaxprocs
	}
	reg("runtime.GOMAXPROCS", procs)
	reg("runtime.NumCPU", procs)
	reg("sort.Slice", func(fr *frame, a []value) value { return sortSliceModel(fr, a, false) })
	reg("sort.SliceStable", func(fr *frame, a []value) value { return sortSliceModel(fr, a, true) })
	reg("sort.Strings", func(fr *frame, a []value) value {
		s := a[0].([]value)
		insertionSort(len(s),
			func(i, j int) bool { return cx.BranchV(strLess(s[i], s[j])) },
			func(i, j int) { s[i], s[j] = s[j], s[i] })
		return nil
	})
	reg("sort.Ints", func(fr *frame, a []value) value {
		s := a[0].([]value)
		insertionSort(len(s),
			func(i, j int) bool { return cx.BranchV(binop(token.LSS, nil, s[i], s[j])) },
			func(i, j int) { s[i], s[j] = s[j], s[i] })
		return nil
	})

	// ---------- math ----------
	f1 := func(conc func(float64) float64, symb func(t *sym.Term) *sym.Term) modelFn {
		return func(fr *frame, a []value) value {
			if s, ok := a[0].(*Sym); ok {
				return mkSymFloat(symb(s.T))
			}
			return conc(a[0].(float64))
		}
	}
	reg("math.Floor", f1(math.Floor, func(t *sym.Term) *sym.Term { return sym.ToReal(sym.ToIntFloor(t)) }))
	reg("math.Ceil", f1(math.Ceil, func(t *sym.Term) *sym.Term { return sym.Neg(sym.ToReal(sym.ToIntFloor(sym.Neg(t)))) }))
	reg("math.Abs", f1(math.Abs, func(t *sym.Term) *sym.Term { return sym.Abs(t) }))
	f2 := func(conc func(a, b float64) float64, symb func(a, b *sym.Term) *sym.Term) modelFn {
		return func(fr *frame, a []value) value {
			_, s0 := a[0].(*Sym)
			_, s1 := a[1].(*Sym)
			if s0 || s1 {
				return mkSymFloat(symb(termOf(a[0]), termOf(a[1])))
			}
			return conc(a[0].(float64), a[1].(float64))
		}
	}
	reg("math.Max", f2(math.Max, func(a, b *sym.Term) *sym.Term { return sym.Ite(sym.Le(a, b), b, a) }))
	reg("math.Min", f2(math.Min, func(a, b *sym.Term) *sym.Term { return sym.Ite(sym.Le(a, b), a, b) }))
	reg("math.Pow", func(fr *frame, a []value) value {
		_, s0 := a[0].(*Sym)
		_, s1 := a[1].(*Sym)
		if !s0 && !s1 {
			return math.Pow(a[0].(float64), a[1].(float64))
		}
		if s1 || a[1].(float64) != 2 {
			Unsupported("math.Pow with symbolic or non-2 exponent")
		}
		// math.Pow(x, 2) == x*x bit for bit unless the result is subnormal (checked natively, DESIGN 2.3.3);
		// in the subnormal range both are within one subnormal ulp of x^2, which the absolute slack of
		// the rounding axiom (2^-1073) covers.
		x := termOf(a[0])
		return mkSymFloat(sym.Rnd(sym.Mul(x, x)))
	})
	_ = big.NewInt
}
