// Port of Go 1.23 sort/zsortfunc.go (pdqsort and the stable insertion/symmerge sort) so that sort.Slice and
// sort.SliceStable call less and swap in exactly the order of the real library (tie order of the unstable sort
// and behaviour under inconsistent comparators included). Copyright The Go Authors, BSD-style licence.

package interp

import "math/bits"

type sortedHint int // hint for pdqsort when choosing the pivot

const (
	unknownHint sortedHint = iota
	increasingHint
	decreasingHint
)

// xorshift paper: https://www.jstatsoft.org/article/view/v008i14/xorshift.pdf
type xorshift uint64

func (r *xorshift) Next() uint64 {
	*r ^= *r << 13
	*r ^= *r >> 17
	*r ^= *r << 5
	return uint64(*r)
}

func nextPowerOfTwo(length int) uint {
	shift := uint(bits.Len(uint(length)))
	return uint(1 << shift)
}

type lessSwap struct {
	Less func(i, j int) bool
	Swap func(i, j int)
}

// insertionSort_func sorts data[a:b] using insertion sort.
func insertionSort_func(data lessSwap, a, b int) {
	for i := a + 1; i < b; i++ {
		for j := i; j > a && data.Less(j, j-1); j-- {
			data.Swap(j, j-1)
		}
	}
}

// siftDown_func implements the heap property on data[lo:hi].
// first is an offset into the array where the root of the heap lies.
func siftDown_func(data lessSwap, lo, hi, first int) {
	root := lo
	for {
		child := 2*root + 1
		if child >= hi {
			break
		}
		if child+1 < hi && data.Less(first+child, first+child+1) {
			child++
		}
		if !data.Less(first+root, first+child) {
			return
		}
		data.Swap(first+root, first+child)
		root = child
	}
}

func heapSort_func(data lessSwap, a, b int) {
	first := a
	lo := 0
	hi := b - a

	// Build heap with greatest element at top.
	for i := (hi - 1) / 2; i >= 0; i-- {
		siftDown_func(data, i, hi, first)
	}

	// Pop elements, largest first, into end of data.
	for i := hi - 1; i >= 0; i-- {
		data.Swap(first, first+i)
		siftDown_func(data, lo, i, first)
	}
}

// pdqsort_func sorts data[a:b].
// The algorithm based on pattern-defeating quicksort(pdqsort), but without the optimizations from BlockQuicksort.
// pdqsort paper: https://arxiv.org/pdf/2106.05123.pdf
// C++ implementation: https://github.com/orlp/pdqsort
// Rust implementation: https://docs.rs/pdqsort/latest/pdqsort/
// limit is the number of allowed bad (very unbalanced) pivots before falling back to heapsort.
func pdqsort_func(data lessSwap, a, b, limit int) {
	const maxInsertion = 12

	var (
		wasBalanced    = true // whether the last partitioning was reasonably balanced
		wasPartitioned = true // whether the slice was already partitioned
	)

	for {
		length := b - a

		if length <= maxInsertion {
			insertionSort_func(data, a, b)
			return
		}

		// Fall back to heapsort if too many bad choices were made.
		if limit == 0 {
			heapSort_func(data, a, b)
			return
		}

		// If the last partitioning was imbalanced, we need to breaking patterns.
		if !wasBalanced {
			breakPatterns_func(data, a, b)
			limit--
		}

		pivot, hint := choosePivot_func(data, a, b)
		if hint == decreasingHint {
			reverseRange_func(data, a, b)
			// The chosen pivot was pivot-a elements after the start of the array.
			// After reversing it is pivot-a elements before the end of the array.
			// The idea came from Rust's implementation.
			pivot = (b - 1) - (pivot - a)
			hint = increasingHint
		}

		// The slice is likely already sorted.
		if wasBalanced && wasPartitioned && hint == increasingHint {
			if partialInsertionSort_func(data, a, b) {
				return
			}
		}

		// Probably the slice contains many duplicate elements, partition the slice into
		// elements equal to and elements greater than the pivot.
		if a > 0 && !data.Less(a-1, pivot) {
			mid := partitionEqual_func(data, a, b, pivot)
			a = mid
			continue
		}

		mid, alreadyPartitioned := partition_func(data, a, b, pivot)
		wasPartitioned = alreadyPartitioned

		leftLen, rightLen := mid-a, b-mid
		balanceThreshold := length / 8
		if leftLen < rightLen {
			wasBalanced = leftLen >= balanceThreshold
			pdqsort_func(data, a, mid, limit)
			a = mid + 1
		} else {
			wasBalanced = rightLen >= balanceThreshold
			pdqsort_func(data, mid+1, b, limit)
			b = mid
		}
	}
}

// partition_func does one quicksort partition.
// Let p = data[pivot]
// Moves elements in data[a:b] around, so that data[i]<p and data[j]>=p for i<newpivot and j>newpivot.
// On return, data[newpivot] = p
func partition_func(data lessSwap, a, b, pivot int) (newpivot int, alreadyPartitioned bool) {
	data.Swap(a, pivot)
	i, j := a+1, b-1 // i and j are inclusive of the elements remaining to be partitioned

	for i <= j && data.Less(i, a) {
		i++
	}
	for i <= j && !data.Less(j, a) {
		j--
	}
	if i > j {
		data.Swap(j, a)
		return j, true
	}
	data.Swap(i, j)
	i++
	j--

	for {
		for i <= j && data.Less(i, a) {
			i++
		}
		for i <= j && !data.Less(j, a) {
			j--
		}
		if i > j {
			break
		}
		data.Swap(i, j)
		i++
		j--
	}
	data.Swap(j, a)
	return j, false
}

// partitionEqual_func partitions data[a:b] into elements equal to data[pivot] followed by elements greater than data[pivot].
// It assumed that data[a:b] does not contain elements smaller than the data[pivot].
func partitionEqual_func(data lessSwap, a, b, pivot int) (newpivot int) {
	data.Swap(a, pivot)
	i, j := a+1, b-1 // i and j are inclusive of the elements remaining to be partitioned

	for {
		for i <= j && !data.Less(a, i) {
			i++
		}
		for i <= j && data.Less(a, j) {
			j--
		}
		if i > j {
			break
		}
		data.Swap(i, j)
		i++
		j--
	}
	return i
}

// partialInsertionSort_func partially sorts a slice, returns true if the slice is sorted at the end.
func partialInsertionSort_func(data lessSwap, a, b int) bool {
	const (
		maxSteps         = 5  // maximum number of adjacent out-of-order pairs that will get shifted
		shortestShifting = 50 // don't shift any elements on short arrays
	)
	i := a + 1
	for j := 0; j < maxSteps; j++ {
		for i < b && !data.Less(i, i-1) {
			i++
		}

		if i == b {
			return true
		}

		if b-a < shortestShifting {
			return false
		}

		data.Swap(i, i-1)

		// Shift the smaller one to the left.
		if i-a >= 2 {
			for j := i - 1; j >= 1; j-- {
				if !data.Less(j, j-1) {
					break
				}
				data.Swap(j, j-1)
			}
		}
		// Shift the greater one to the right.
		if b-i >= 2 {
			for j := i + 1; j < b; j++ {
				if !data.Less(j, j-1) {
					break
				}
				data.Swap(j, j-1)
			}
		}
	}
	return false
}

// breakPatterns_func scatters some elements around in an attempt to break some patterns
// that might cause imbalanced partitions in quicksort.
func breakPatterns_func(data lessSwap, a, b int) {
	length := b - a
	if length >= 8 {
		random := xorshift(length)
		modulus := nextPowerOfTwo(length)

		for idx := a + (length/4)*2 - 1; idx <= a+(length/4)*2+1; idx++ {
			other := int(uint(random.Next()) & (modulus - 1))
			if other >= length {
				other -= length
			}
			data.Swap(idx, a+other)
		}
	}
}

// choosePivot_func chooses a pivot in data[a:b].
//
// [0,8): chooses a static pivot.
// [8,shortestNinther): uses the simple median-of-three method.
// [shortestNinther,∞): uses the Tukey ninther method.
func choosePivot_func(data lessSwap, a, b int) (pivot int, hint sortedHint) {
	const (
		shortestNinther = 50
		maxSwaps        = 4 * 3
	)

	l := b - a

	var (
		swaps int
		i     = a + l/4*1
		j     = a + l/4*2
		k     = a + l/4*3
	)

	if l >= 8 {
		if l >= shortestNinther {
			// Tukey ninther method, the idea came from Rust's implementation.
			i = medianAdjacent_func(data, i, &swaps)
			j = medianAdjacent_func(data, j, &swaps)
			k = medianAdjacent_func(data, k, &swaps)
		}
		// Find the median among i, j, k and stores it into j.
		j = median_func(data, i, j, k, &swaps)
	}

	switch swaps {
	case 0:
		return j, increasingHint
	case maxSwaps:
		return j, decreasingHint
	default:
		return j, unknownHint
	}
}

// order2_func returns x,y where data[x] <= data[y], where x,y=a,b or x,y=b,a.
func order2_func(data lessSwap, a, b int, swaps *int) (int, int) {
	if data.Less(b, a) {
		*swaps++
		return b, a
	}
	return a, b
}

// median_func returns x where data[x] is the median of data[a],data[b],data[c], where x is a, b, or c.
func median_func(data lessSwap, a, b, c int, swaps *int) int {
	a, b = order2_func(data, a, b, swaps)
	b, c = order2_func(data, b, c, swaps)
	a, b = order2_func(data, a, b, swaps)
	return b
}

// medianAdjacent_func finds the median of data[a - 1], data[a], data[a + 1] and stores the index into a.
func medianAdjacent_func(data lessSwap, a int, swaps *int) int {
	return median_func(data, a-1, a, a+1, swaps)
}

func reverseRange_func(data lessSwap, a, b int) {
	i := a
	j := b - 1
	for i < j {
		data.Swap(i, j)
		i++
		j--
	}
}

func swapRange_func(data lessSwap, a, b, n int) {
	for i := 0; i < n; i++ {
		data.Swap(a+i, b+i)
	}
}

func stable_func(data lessSwap, n int) {
	blockSize := 20 // must be > 0
	a, b := 0, blockSize
	for b <= n {
		insertionSort_func(data, a, b)
		a = b
		b += blockSize
	}
	insertionSort_func(data, a, n)

	for blockSize < n {
		a, b = 0, 2*blockSize
		for b <= n {
			symMerge_func(data, a, a+blockSize, b)
			a = b
			b += 2 * blockSize
		}
		if m := a + blockSize; m < n {
			symMerge_func(data, a, m, n)
		}
		blockSize *= 2
	}
}

// symMerge_func merges the two sorted subsequences data[a:m] and data[m:b] using
// the SymMerge algorithm from Pok-Son Kim and Arne Kutzner, "Stable Minimum
// Storage Merging by Symmetric Comparisons", in Susanne Albers and Tomasz
// Radzik, editors, Algorithms - ESA 2004, volume 3221 of Lecture Notes in
// Computer Science, pages 714-723. Springer, 2004.
//
// Let M = m-a and N = b-n. Wolog M < N.
// The recursion depth is bound by ceil(log(N+M)).
// The algorithm needs O(M*log(N/M + 1)) calls to data.Less.
// The algorithm needs O((M+N)*log(M)) calls to data.Swap.
//
// The paper gives O((M+N)*log(M)) as the number of assignments assuming a
// rotation algorithm which uses O(M+N+gcd(M+N)) assignments. The argumentation
// in the paper carries through for Swap operations, especially as the block
// swapping rotate uses only O(M+N) Swaps.
//
// symMerge assumes non-degenerate arguments: a < m && m < b.
// Having the caller check this condition eliminates many leaf recursion calls,
// which improves performance.
func symMerge_func(data lessSwap, a, m, b int) {
	// Avoid unnecessary recursions of symMerge
	// by direct insertion of data[a] into data[m:b]
	// if data[a:m] only contains one element.
	if m-a == 1 {
		// Use binary search to find the lowest index i
		// such that data[i] >= data[a] for m <= i < b.
		// Exit the search loop with i == b in case no such index exists.
		i := m
		j := b
		for i < j {
			h := int(uint(i+j) >> 1)
			if data.Less(h, a) {
				i = h + 1
			} else {
				j = h
			}
		}
		// Swap values until data[a] reaches the position before i.
		for k := a; k < i-1; k++ {
			data.Swap(k, k+1)
		}
		return
	}

	// Avoid unnecessary recursions of symMerge
	// by direct insertion of data[m] into data[a:m]
	// if data[m:b] only contains one element.
	if b-m == 1 {
		// Use binary search to find the lowest index i
		// such that data[i] > data[m] for a <= i < m.
		// Exit the search loop with i == m in case no such index exists.
		i := a
		j := m
		for i < j {
			h := int(uint(i+j) >> 1)
			if !data.Less(m, h) {
				i = h + 1
			} else {
				j = h
			}
		}
		// Swap values until data[m] reaches the position i.
		for k := m; k > i; k-- {
			data.Swap(k, k-1)
		}
		return
	}

	mid := int(uint(a+b) >> 1)
	n := mid + m
	var start, r int
	if m > mid {
		start = n - b
		r = mid
	} else {
		start = a
		r = m
	}
	p := n - 1

	for start < r {
		c := int(uint(start+r) >> 1)
		if !data.Less(p-c, c) {
			start = c + 1
		} else {
			r = c
		}
	}

	end := n - start
	if start < m && m < end {
		rotate_func(data, start, m, end)
	}
	if a < start && start < mid {
		symMerge_func(data, a, start, mid)
	}
	if mid < end && end < b {
		symMerge_func(data, mid, end, b)
	}
}

// rotate_func rotates two consecutive blocks u = data[a:m] and v = data[m:b] in data:
// Data of the form 'x u v y' is changed to 'x v u y'.
// rotate performs at most b-a many calls to data.Swap,
// and it assumes non-degenerate arguments: a < m && m < b.
func rotate_func(data lessSwap, a, m, b int) {
	i := m - a
	j := b - m

	for i != j {
		if i > j {
			swapRange_func(data, m-i, m, j)
			i -= j
		} else {
			swapRange_func(data, m-i, m+j-i, i)
			j -= i
		}
	}
	// i == j
	swapRange_func(data, m-i, m, i)
}
