package interp

import (
	"fmt"
	"time"

	"gosym/sym"
)

// SelfTestCalendar validates the closed forms of the time model against the time package:
// daysFromCivilT (the day number formula), daysInT (month lengths), civSucc / civPred (calendar
// successor / predecessor) and, through strict monotonicity of the day number over consecutive
// days, the order lemma that registerCivil injects (day numbers of valid dates are ordered like
// their (year, month, day) triples). Exhaustive over every day of the years 0..800 (two full
// 400-year Gregorian cycles) and 9200..9999, and over the days around every year and February
// boundary of all years -9999..99999.
func SelfTestCalendar() (checked int, err error) {
	epoch := time.Date(1, 1, 1, 0, 0, 0, 0, time.UTC)
	constInt := func(t *sym.Term) (int64, bool) {
		if !t.IsConst() {
			return 0, false
		}
		return t.IV.Int64(), true
	}
	dayNo := func(t time.Time) int64 {
		// time.Sub saturates beyond ±292 years: count through Unix seconds
		return (t.Unix() - epoch.Unix()) / 86400
	}
	check := func(t time.Time) error {
		y, m, d := t.Date()
		Y, M, D := sym.Int(int64(y)), sym.Int(int64(m)), sym.Int(int64(d))
		got, ok := constInt(daysFromCivilT(Y, M, D))
		if !ok || got != dayNo(t) {
			return fmt.Errorf("daysFromCivilT(%d,%d,%d) = %d, time package says %d", y, m, d, got, dayNo(t))
		}
		ml, ok := constInt(daysInT(M, Y))
		last := time.Date(y, m+1, 0, 0, 0, 0, 0, time.UTC).Day()
		if !ok || int(ml) != last {
			return fmt.Errorf("daysInT(%d,%d) = %d, time package says %d", m, y, ml, last)
		}
		c := &civil{Y, M, D}
		for dir, nb := range map[int]*civil{1: civSucc(c), -1: civPred(c)} {
			want := t.AddDate(0, 0, dir)
			wy, wm, wd := want.Date()
			gy, ok1 := constInt(nb.Y)
			gm, ok2 := constInt(nb.M)
			gd, ok3 := constInt(nb.D)
			if !ok1 || !ok2 || !ok3 || int(gy) != wy || int(gm) != int(wm) || int(gd) != wd {
				return fmt.Errorf("civil neighbour %+d of %04d-%02d-%02d = %d-%d-%d, time package says %d-%d-%d", dir, y, m, d, gy, gm, gd, wy, wm, wd)
			}
		}
		checked++
		return nil
	}
	ranges := [][2]int{{0, 800}, {9200, 9999}}
	for _, r := range ranges {
		prev := int64(0)
		first := true
		for t := time.Date(r[0], 1, 1, 0, 0, 0, 0, time.UTC); t.Year() <= r[1]; t = t.AddDate(0, 0, 1) {
			if err := check(t); err != nil {
				return checked, err
			}
			// strict monotonicity over consecutive days = the order lemma
			y, m, d := t.Date()
			n, _ := constInt(daysFromCivilT(sym.Int(int64(y)), sym.Int(int64(m)), sym.Int(int64(d))))
			if !first && n != prev+1 {
				return checked, fmt.Errorf("day numbers are not consecutive at %v", t)
			}
			prev, first = n, false
		}
	}
	for y := -9999; y <= 99999; y++ {
		for _, md := range [][2]int{{1, 1}, {2, 28}, {3, 1}, {12, 31}} {
			if err := check(time.Date(y, time.Month(md[0]), md[1], 0, 0, 0, 0, time.UTC)); err != nil {
				return checked, err
			}
		}
		if time.Date(y, 2, 29, 0, 0, 0, 0, time.UTC).Month() == 2 {
			if err := check(time.Date(y, 2, 29, 0, 0, 0, 0, time.UTC)); err != nil {
				return checked, err
			}
		}
	}
	return checked, nil
}
