// Adapted from golang.org/x/tools/go/ssa/interp (BSD-3-Clause, see
// ../third_party/LICENSE.x-tools). Copyright 2013 The Go Authors.
// Changes: symbolic branches and obligations, register frames, budgets,
// cooperative goroutines, stdlib models instead of an interpreted runtime.

package interp

import (
	"fmt"
	"go/token"
	"go/types"
	"os"
	"runtime"
	"strings"

	"golang.org/x/tools/go/ssa"

	"gosym/sym"
)

type continuation int

const (
	kNext continuation = iota
	kReturn
	kJump
)

// If the target program panics, the interpreter panics with this type.
type targetPanic struct {
	v    value
	site string
}

func (p targetPanic) String() string { return toString(p.v) }

type exitPanic int

// State shared between all interpreted goroutines.
type interpreter struct {
	prog        *ssa.Program
	globals     map[*ssa.Global]*value
	sizes       types.Sizes
	repoPrefix  string // import path prefix of packages that are interpreted from source
	funcInfos   map[*ssa.Function]*funcInfo
	runtimeErrT types.Type
	errorStrT   types.Type // *errors.errorString
	execCount   map[*ssa.Function]int64
	trace       bool
	initDone    map[*ssa.Package]bool
	lenient     bool // during init of external packages: unmodelled callees return zero values
}

type funcInfo struct {
	index  map[ssa.Value]int
	n      int
	isRepo bool
	model  modelFn
	name   string
	interp bool // allowed to be interpreted from SSA
	phis   map[*ssa.BasicBlock]int
}

type deferred struct {
	fn    value
	args  []value
	instr *ssa.Defer
	tail  *deferred
}

type frame struct {
	i                *interpreter
	caller           *frame
	fn               *ssa.Function
	info             *funcInfo
	block, prevBlock *ssa.BasicBlock
	regs             []value
	locals           []value
	defers           *deferred
	result           value
	panicking        bool
	panic            interface{}
	phitemps         []value
	callpos          token.Pos
}

func mustDeref(t types.Type) types.Type {
	if p, ok := t.Underlying().(*types.Pointer); ok {
		return p.Elem()
	}
	panic("mustDeref: not a pointer: " + t.String())
}

func (i *interpreter) infoOf(fn *ssa.Function) *funcInfo {
	if fi, ok := i.funcInfos[fn]; ok {
		return fi
	}
	fi := &funcInfo{index: map[ssa.Value]int{}, name: fn.String()}
	add := func(v ssa.Value) {
		fi.index[v] = fi.n
		fi.n++
	}
	for _, p := range fn.Params {
		add(p)
	}
	for _, fv := range fn.FreeVars {
		add(fv)
	}
	for _, b := range fn.Blocks {
		for _, ins := range b.Instrs {
			if v, ok := ins.(ssa.Value); ok {
				add(v)
			}
		}
	}
	pkg := fn.Package()
	if pkg == nil && fn.Parent() != nil {
		p := fn
		for p.Parent() != nil {
			p = p.Parent()
		}
		pkg = p.Package()
	}
	if pkg == nil && fn.Origin() != nil {
		pkg = fn.Origin().Package()
	}
	path := ""
	if pkg != nil {
		path = pkg.Pkg.Path()
	} else if fn.Object() != nil && fn.Object().Pkg() != nil {
		path = fn.Object().Pkg().Path()
	} else if recv := fn.Signature.Recv(); recv != nil {
		// wrappers / thunks / bound methods: use the receiver's package
		if n := namedOf(recv.Type()); n != nil && n.Obj().Pkg() != nil {
			path = n.Obj().Pkg().Path()
		}
	}
	fi.isRepo = strings.HasPrefix(path, i.repoPrefix)
	fi.interp = fi.isRepo || interpretablePkg[path] || fn.Synthetic != "" && path == ""
	if fn.Parent() == nil {
		fi.model = models[fi.name]
	}
	i.funcInfos[fn] = fi
	return fi
}

func namedOf(t types.Type) *types.Named {
	for {
		switch tt := t.(type) {
		case *types.Pointer:
			t = tt.Elem()
		case *types.Named:
			return tt
		default:
			return nil
		}
	}
}

// packages (outside the repo) whose functions may be interpreted from SSA when no model exists.
var interpretablePkg = map[string]bool{
	"unicode/utf8": true, "sort": true, "slices": true,
	"strings": true, "strconv": true, "math": true, "bytes": true, "container/list": true,
	"internal/stringslite": true, "cmp": true, "math/bits": true, "internal/itoa": true,
}

func (fr *frame) get(key ssa.Value) value {
	switch key := key.(type) {
	case nil:
		return nil
	case *ssa.Function, *ssa.Builtin:
		return key
	case *ssa.Const:
		return constValue(key)
	case *ssa.Global:
		if r, ok := fr.i.globals[key]; ok {
			return r
		}
		return fr.i.externalGlobal(key)
	}
	if idx, ok := fr.info.index[key]; ok {
		return fr.regs[idx]
	}
	panic(fmt.Sprintf("get: no value for %T: %v", key, key.Name()))
}

func (fr *frame) set(key ssa.Value, v value) {
	fr.regs[fr.info.index[key]] = v
}

func isInternalPanic(p interface{}) bool {
	switch p.(type) {
	case abortPath, goroutineCrash, exitPanic:
		return true
	}
	return false
}

func (fr *frame) runDefer(d *deferred) {
	var ok bool
	defer func() {
		if !ok {
			p := recover()
			if isInternalPanic(p) {
				panic(p)
			}
			fr.panicking = true
			fr.panic = p
		}
	}()
	call(fr.i, fr, d.instr.Pos(), d.fn, d.args)
	ok = true
}

func (fr *frame) runDefers() {
	for d := fr.defers; d != nil; d = d.tail {
		fr.runDefer(d)
	}
	fr.defers = nil
	if fr.panicking {
		panic(fr.panic)
	}
}

func lookupMethod(i *interpreter, typ types.Type, meth *types.Func) *ssa.Function {
	return i.prog.LookupMethod(typ, meth.Pkg(), meth.Name())
}

func (fr *frame) site(pos token.Pos) string {
	if pos == token.NoPos {
		return fr.fn.String()
	}
	p := fr.i.prog.Fset.Position(pos)
	return fmt.Sprintf("%s (%s:%d)", fr.fn.String(), shortFile(p.Filename), p.Line)
}

func shortFile(f string) string {
	if i := strings.LastIndex(f, "/"); i >= 0 {
		// keep one directory level
		if j := strings.LastIndex(f[:i], "/"); j >= 0 {
			return f[j+1:]
		}
	}
	return f
}

func visitInstr(fr *frame, instr ssa.Instruction) continuation {
	switch instr := instr.(type) {
	case *ssa.DebugRef:
		// no-op

	case *ssa.UnOp:
		if race.on && instr.Op == token.MUL {
			if ptr, ok := fr.get(instr.X).(*value); ok {
				raceLoad(fr, instr.X, ptr)
			}
		}
		fr.set(instr, unop(instr, fr.get(instr.X)))

	case *ssa.BinOp:
		fr.set(instr, binop(instr.Op, instr.X.Type(), fr.get(instr.X), fr.get(instr.Y)))

	case *ssa.Call:
		fn, args := prepareCall(fr, &instr.Call)
		fr.set(instr, call(fr.i, fr, instr.Pos(), fn, args))

	case *ssa.ChangeInterface:
		fr.set(instr, fr.get(instr.X))

	case *ssa.ChangeType:
		fr.set(instr, fr.get(instr.X))

	case *ssa.Convert:
		fr.set(instr, conv(instr.Type(), instr.X.Type(), fr.get(instr.X)))

	case *ssa.SliceToArrayPointer:
		fr.set(instr, sliceToArrayPointer(instr.Type(), instr.X.Type(), fr.get(instr.X)))

	case *ssa.MakeInterface:
		fr.set(instr, iface{t: instr.X.Type(), v: fr.get(instr.X)})

	case *ssa.Extract:
		fr.set(instr, fr.get(instr.Tuple).(tuple)[instr.Index])

	case *ssa.Slice:
		fr.set(instr, slice(fr.get(instr.X), fr.get(instr.Low), fr.get(instr.High), fr.get(instr.Max)))

	case *ssa.Return:
		switch len(instr.Results) {
		case 0:
		case 1:
			fr.result = fr.get(instr.Results[0])
		default:
			var res []value
			for _, r := range instr.Results {
				res = append(res, fr.get(r))
			}
			fr.result = tuple(res)
		}
		fr.block = nil
		return kReturn

	case *ssa.RunDefers:
		fr.runDefers()

	case *ssa.Panic:
		panic(targetPanic{v: fr.get(instr.X), site: fr.site(instr.Pos())})

	case *ssa.Send:
		chanSend(fr.get(instr.Chan).(*Chan), fr.get(instr.X))

	case *ssa.Store:
		addr := fr.get(instr.Addr).(*value)
		if addr == nil {
			panic(runtimeError("invalid memory address or nil pointer dereference"))
		}
		raceStore(fr, instr.Addr, addr)
		store(mustDeref(instr.Addr.Type()), addr, fr.get(instr.Val))

	case *ssa.If:
		succ := 1
		if cx.BranchV(fr.get(instr.Cond)) {
			succ = 0
		}
		fr.prevBlock, fr.block = fr.block, fr.block.Succs[succ]
		return kJump

	case *ssa.Jump:
		fr.prevBlock, fr.block = fr.block, fr.block.Succs[0]
		return kJump

	case *ssa.Defer:
		fn, args := prepareCall(fr, &instr.Call)
		defers := &fr.defers
		if instr.DeferStack != nil {
			if into := fr.get(instr.DeferStack); into != nil {
				defers = into.(**deferred)
			}
		}
		*defers = &deferred{fn: fn, args: args, instr: instr, tail: *defers}

	case *ssa.Go:
		fn, args := prepareCall(fr, &instr.Call)
		sched.goStart(fr.i, fn, args, instr.Pos())

	case *ssa.MakeChan:
		fr.set(instr, makeChan(int(asInt64(fr.get(instr.Size)))))

	case *ssa.Alloc:
		var addr *value
		if instr.Heap {
			addr = new(value)
			fr.set(instr, addr)
		} else {
			addr = fr.get(instr).(*value)
		}
		*addr = zero(mustDeref(instr.Type()))

	case *ssa.MakeSlice:
		c := concretizeInt(fr.get(instr.Cap), "make: cap", 256)
		l := concretizeInt(fr.get(instr.Len), "make: len", 256)
		if l < 0 || c < l {
			panic(runtimeError("makeslice: len out of range"))
		}
		if c > 1<<24 {
			Unsupported("make of %d elements", c)
		}
		slice := make([]value, c)
		tElt := instr.Type().Underlying().(*types.Slice).Elem()
		for i := range slice {
			slice[i] = zero(tElt)
		}
		fr.set(instr, slice[:l])

	case *ssa.MakeMap:
		fr.set(instr, makeMap(instr.Type().Underlying().(*types.Map).Key()))

	case *ssa.Range:
		if m, ok := fr.get(instr.X).(*Map); ok {
			raceMap(fr, m, instr.X, false)
		}
		fr.set(instr, rangeIter(fr.get(instr.X), instr.X.Type()))

	case *ssa.Next:
		fr.set(instr, fr.get(instr.Iter).(iter).next())

	case *ssa.FieldAddr:
		p := fr.get(instr.X).(*value)
		if p == nil {
			panic(runtimeError("invalid memory address or nil pointer dereference"))
		}
		fr.set(instr, &(*p).(structure)[instr.Field])

	case *ssa.Field:
		fr.set(instr, fr.get(instr.X).(structure)[instr.Field])

	case *ssa.IndexAddr:
		x := fr.get(instr.X)
		idx := fr.get(instr.Index)
		switch x := x.(type) {
		case []value:
			fr.set(instr, &x[concretizeIndex(idx, len(x), "slice")])
		case *value: // *array
			if x == nil {
				panic(runtimeError("invalid memory address or nil pointer dereference"))
			}
			a := (*x).(array)
			fr.set(instr, &a[concretizeIndex(idx, len(a), "array")])
		default:
			panic(fmt.Sprintf("unexpected x type in IndexAddr: %T", x))
		}

	case *ssa.Index:
		x := normStr(fr.get(instr.X))
		idx := fr.get(instr.Index)
		switch x := x.(type) {
		case array:
			fr.set(instr, x[concretizeIndex(idx, len(x), "array")])
		case string, symstr:
			fr.set(instr, strIndex(x, idx))
		default:
			panic(fmt.Sprintf("unexpected x type in Index: %T", x))
		}

	case *ssa.Lookup:
		x := normStr(fr.get(instr.X))
		if isStr(x) {
			fr.set(instr, strIndex(x, fr.get(instr.Index)))
		} else {
			if m, ok := x.(*Map); ok {
				raceMap(fr, m, instr.X, false)
			}
			fr.set(instr, lookup(instr, x, fr.get(instr.Index)))
		}

	case *ssa.MapUpdate:
		m := fr.get(instr.Map)
		key := fr.get(instr.Key)
		v := fr.get(instr.Value)
		switch m := m.(type) {
		case *Map:
			raceMap(fr, m, instr.Map, true)
			m.insert(copyVal(normStr(key)), copyVal(v))
		default:
			panic(fmt.Sprintf("illegal map type: %T", m))
		}

	case *ssa.TypeAssert:
		fr.set(instr, typeAssert(fr.i, instr, fr.get(instr.X).(iface)))

	case *ssa.MakeClosure:
		var bindings []value
		for _, binding := range instr.Bindings {
			bindings = append(bindings, fr.get(binding))
		}
		fr.set(instr, &closure{instr.Fn.(*ssa.Function), bindings})

	case *ssa.Phi:
		panic("unreachable: phis are processed at block entry")

	case *ssa.Select:
		fr.set(instr, doSelect(fr, instr))

	default:
		panic(fmt.Sprintf("unexpected instruction: %T", instr))
	}
	return kNext
}

func doSelect(fr *frame, instr *ssa.Select) value {
	type st struct {
		ch   *Chan
		send value
		recv bool
	}
	var states []st
	for _, s := range instr.States {
		x := st{ch: fr.get(s.Chan).(*Chan), recv: s.Dir == types.RecvOnly}
		if s.Send != nil {
			x.send = fr.get(s.Send)
		}
		states = append(states, x)
	}
	readyIdx := func() int {
		for i, s := range states {
			if s.ch == nil {
				continue
			}
			if s.recv {
				if s.ch.recvReady() {
					return i
				}
			} else if s.ch.closed || len(s.ch.buf) < s.ch.cap || s.ch.recvw > 0 {
				return i
			}
		}
		return -1
	}
	chosen := readyIdx()
	if chosen < 0 {
		if !instr.Blocking {
			chosen = -1
		} else {
			for _, s := range states {
				if s.ch != nil && s.recv {
					s.ch.recvw++
				}
			}
			sched.block("select", func() bool { return readyIdx() >= 0 })
			for _, s := range states {
				if s.ch != nil && s.recv {
					s.ch.recvw--
				}
			}
			chosen = readyIdx()
		}
	}
	var recv value
	recvOk := false
	if chosen >= 0 {
		s := states[chosen]
		if s.recv {
			recv, recvOk = s.ch.take()
		} else {
			chanSend(s.ch, s.send)
		}
	}
	r := tuple{chosen, recvOk}
	for i, s := range instr.States {
		if s.Dir == types.RecvOnly {
			var v value
			if i == chosen && recvOk {
				v = recv
			} else {
				v = zero(s.Chan.Type().Underlying().(*types.Chan).Elem())
			}
			r = append(r, v)
		}
	}
	return r
}

func prepareCall(fr *frame, call *ssa.CallCommon) (fn value, args []value) {
	v := fr.get(call.Value)
	if call.Method == nil {
		fn = v
	} else {
		recv := v.(iface)
		if recv.t == nil {
			panic(runtimeError("invalid memory address or nil pointer dereference (method call on nil interface)"))
		}
		if f := lookupMethod(fr.i, recv.t, call.Method); f == nil {
			panic(fmt.Sprintf("method set for dynamic type %v does not contain %s", recv.t, call.Method))
		} else {
			fn = f
		}
		args = append(args, recv.v)
	}
	for _, arg := range call.Args {
		args = append(args, fr.get(arg))
	}
	return
}

func call(i *interpreter, caller *frame, callpos token.Pos, fn value, args []value) value {
	switch fn := fn.(type) {
	case *ssa.Function:
		if fn == nil {
			panic(runtimeError("invalid memory address or nil pointer dereference (call of nil func)"))
		}
		return callSSA(i, caller, callpos, fn, args, nil)
	case *closure:
		return callSSA(i, caller, callpos, fn.Fn, args, fn.Env)
	case *ssa.Builtin:
		return callBuiltin(caller, callpos, fn, args)
	case *nativeFn:
		return fn.fn(caller, args)
	}
	panic(fmt.Sprintf("cannot call %T", fn))
}

func callSSA(i *interpreter, caller *frame, callpos token.Pos, fn *ssa.Function, args []value, env []value) value {
	fi := i.infoOf(fn)
	fr := &frame{i: i, caller: caller, fn: fn, info: fi, callpos: callpos}
	if fi.model != nil {
		cx.ModelsUsed[fi.name]++
		return fi.model(fr, args)
	}
	if isVsym(fn) {
		return callVsym(fr, fn, args)
	}
	if fn.Synthetic == "package initializer" && !fi.interp {
		return nil // state of external packages lives in the models
	}
	if fn.Blocks == nil {
		if i.lenient {
			return zero(fn.Signature.Results())
		}
		Unsupported("no code and no model for %s", fi.name)
	}
	if !fi.interp && i.lenient && fn.Synthetic == "" {
		return zero(fn.Signature.Results())
	}
	if !fi.interp {
		// method wrappers and bound-method closures of external types delegate to a real
		// method that may have a model: interpret the synthetic wrapper itself.
		if fn.Synthetic == "" {
			Unsupported("no model for external function %s", fi.name)
		}
	}
	if fn.TypeParams().Len() > 0 && len(fn.TypeArgs()) == 0 {
		Unsupported("uninstantiated generic function %s", fi.name)
	}
	if fi.isRepo {
		i.execCount[fn]++
	}
	cx.depth++
	if cx.depth > cx.MaxDepth {
		panic(abortPath{"budget", "call depth exceeded in " + fi.name})
	}
	defer func() { cx.depth-- }()

	fr.regs = make([]value, fi.n)
	fr.block = fn.Blocks[0]
	fr.locals = make([]value, len(fn.Locals))
	for k, l := range fn.Locals {
		fr.locals[k] = zero(mustDeref(l.Type()))
		fr.regs[fi.index[l]] = &fr.locals[k]
	}
	for k, p := range fn.Params {
		fr.regs[fi.index[p]] = args[k]
	}
	for k, fv := range fn.FreeVars {
		fr.regs[fi.index[fv]] = env[k]
	}
	for fr.block != nil {
		runFrame(fr)
	}
	return fr.result
}

func runFrame(fr *frame) {
	defer func() {
		if fr.block == nil {
			return // normal return
		}
		p := recover()
		if isInternalPanic(p) {
			panic(p)
		}
		if s, ok := p.(string); ok && !strings.HasPrefix(s, "runtime error") {
			// interpreter-internal failure: never a target panic
			panic(abortPath{"internal", s + " in " + fr.fn.String()})
		}
		if re, ok := p.(runtime.Error); ok {
			if _, mine := p.(runtimeError); !mine {
				// host runtime error while interpreting: could be a genuine target error
				// (index out of range on a host slice) or an engine bug. Keep it a target
				// panic; native replay is the arbiter.
				p = runtimeError(strings.TrimPrefix(re.Error(), "runtime error: "))
			}
		}
		if tp, ok := p.(targetPanic); ok && tp.site == "" {
			tp.site = fr.fn.String()
			p = tp
		}
		if re, ok := p.(runtimeError); ok {
			p = targetPanic{v: runtimeErrValue(string(re)), site: fr.fn.String()}
		}
		fr.panicking = true
		fr.panic = p
		fr.runDefers()
		fr.block = fr.fn.Recover
	}()

	for {
		nonPhis := executePhis(fr)
		for _, instr := range nonPhis {
			cx.steps++
			if cx.steps > cx.MaxSteps {
				panic(abortPath{"budget", "instruction budget exceeded in " + fr.fn.String()})
			}
			if fr.i.trace {
				if v, ok := instr.(ssa.Value); ok {
					fmt.Fprintln(os.Stderr, "\t", fr.fn.Name(), v.Name(), "=", instr)
				} else {
					fmt.Fprintln(os.Stderr, "\t", fr.fn.Name(), instr)
				}
			}
			if visitInstr(fr, instr) == kReturn {
				return
			}
		}
	}
}

func executePhis(fr *frame) []ssa.Instruction {
	firstNonPhi := -1
	for i, instr := range fr.block.Instrs {
		if _, ok := instr.(*ssa.Phi); !ok {
			firstNonPhi = i
			break
		}
	}
	nonPhis := fr.block.Instrs[firstNonPhi:]
	if firstNonPhi > 0 {
		phis := fr.block.Instrs[:firstNonPhi]
		predIndex := -1
		for k, p := range fr.block.Preds {
			if p == fr.prevBlock {
				predIndex = k
				break
			}
		}
		fr.phitemps = fr.phitemps[:0]
		for _, phi := range phis {
			phi := phi.(*ssa.Phi)
			fr.phitemps = append(fr.phitemps, fr.get(phi.Edges[predIndex]))
		}
		for i, phi := range phis {
			fr.set(phi.(*ssa.Phi), fr.phitemps[i])
		}
	}
	return nonPhis
}

// runtimeErrValue builds the target-level value of a runtime.Error with the given message.
func runtimeErrValue(msg string) value {
	return mkError("runtime error: " + msg)
}

// mkError builds an error value of dynamic type *errors.errorString.
func mkError(msg value) value {
	var s value = structure{msg}
	return iface{t: theInterp.errorStrT, v: &s}
}

func doRecover(caller *frame) value {
	if caller != nil && !caller.panicking &&
		caller.caller != nil && caller.caller.panicking {
		p := caller.caller.panic
		switch p := p.(type) {
		case targetPanic:
			caller.caller.panicking = false
			caller.caller.panic = nil
			return p.v
		default:
			panic(fmt.Sprintf("unexpected panic type %T in target call to recover()", p))
		}
	}
	return iface{}
}

var theInterp *interpreter

// typeAssert checks whether dynamic type of itf is instr.AssertedType.
func typeAssert(i *interpreter, instr *ssa.TypeAssert, itf iface) value {
	var v value
	err := ""
	if itf.t == nil {
		err = fmt.Sprintf("interface conversion: interface is nil, not %s", instr.AssertedType)
	} else if idst, ok := instr.AssertedType.Underlying().(*types.Interface); ok {
		v = itf
		err = checkInterface(i, idst, itf)
	} else if types.Identical(itf.t, instr.AssertedType) {
		v = itf.v
	} else {
		err = fmt.Sprintf("interface conversion: interface is %s, not %s", itf.t, instr.AssertedType)
	}
	if err != "" {
		if !instr.CommaOk {
			panic(targetPanic{v: mkError(err)})
		}
		return tuple{zero(instr.AssertedType), false}
	}
	if instr.CommaOk {
		return tuple{v, true}
	}
	return v
}

var _ = sym.True
