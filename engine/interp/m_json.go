package interp

import (
	"bytes"
	"encoding/base64"
	"encoding/json"
	"fmt"
	"go/types"
	"reflect"
	"sort"
	"strconv"
	"strings"
	"unicode/utf8"

	"gosym/sym"
)

// A marshaller for encoding/json.Marshal / MarshalIndent over engine values and go/types.
// It honours MarshalJSON methods of interpreted types (json.Marshaler), struct tags,
// sorted map keys, omitempty, HTML escaping. Errors mirror json.UnsupportedTypeError.

type jsonEnc struct {
	fr        *frame
	out       []value
	depth     int
	noHTMLEsc bool // json.Encoder.SetEscapeHTML(false)
}

// jsonEncoder models *json.Encoder.
type jsonEncoder struct {
	w              iface
	prefix, indent string
	escapeHTML     bool
}

type jsonUnsupported struct{ msg string }

func (e *jsonEnc) ws(s string) { e.out = append(e.out, strBytes(s)...) }

const jsonHex = "0123456789abcdef"

func (e *jsonEnc) str(v value) {
	e.ws(`"`)
	bs := strBytes(v)
	for i := 0; i < len(bs); {
		switch b := bs[i].(type) {
		case uint8:
			if b < utf8.RuneSelf {
				switch {
				case b == '"' || b == '\\':
					e.ws("\\" + string([]byte{b}))
				case b == '\n':
					e.ws(`\n`)
				case b == '\r':
					e.ws(`\r`)
				case b == '\t':
					e.ws(`\t`)
				case b < 0x20 || (!e.noHTMLEsc && (b == '<' || b == '>' || b == '&')):
					e.ws(`\u00` + string([]byte{jsonHex[b>>4], jsonHex[b&0xF]}))
				default:
					e.out = append(e.out, b)
				}
				i++
				continue
			}
			r, w := decodeRuneAt(bs, i)
			rc, _ := r.(int32)
			if rc == utf8.RuneError && w == 1 {
				e.ws(`�`)
			} else if rc == ' ' || rc == ' ' {
				e.ws(`\u202` + string([]byte{jsonHex[rc&0xF]}))
			} else {
				for k := 0; k < w; k++ {
					e.out = append(e.out, bs[i+k])
				}
			}
			i += w
		case *Sym:
			t := b.T
			special := sym.Or(sym.Lt(t, sym.Int(0x20)), sym.Le(sym.Int(0x80), t), sym.Eq(t, sym.Int('"')), sym.Eq(t, sym.Int('\\')))
			if !e.noHTMLEsc {
				special = sym.Or(special, sym.Eq(t, sym.Int('<')), sym.Eq(t, sym.Int('>')), sym.Eq(t, sym.Int('&')))
			}
			if !cx.Branch(special) {
				e.out = append(e.out, b)
				i++
				continue
			}
			if cx.Branch(sym.Le(sym.Int(0x80), t)) {
				Unsupported("json: symbolic non-ASCII byte")
			}
			c := byte(concretizeInt(b, "json string escape", 256))
			tmp := &jsonEnc{noHTMLEsc: e.noHTMLEsc}
			tmp.str(string([]byte{c}))
			e.out = append(e.out, tmp.out[1:len(tmp.out)-1]...)
			i++
		}
	}
	e.ws(`"`)
}

func jsonIsEmpty(t types.Type, v value) bool {
	switch u := t.Underlying().(type) {
	case *types.Basic:
		switch x := v.(type) {
		case bool:
			return !x
		case string:
			return x == ""
		case symstr:
			return len(x) == 0
		case float64:
			return x == 0
		case float32:
			return x == 0
		case *Sym:
			// a symbolic number or bool is empty when it is zero / false: decide it (found by the
			// self-test: omitempty kept a symbolic 0)
			if x.K == types.Bool {
				return !cx.Branch(x.T)
			}
			if x.K == types.Float64 || x.K == types.Float32 {
				return cx.Branch(sym.Eq(x.T, sym.RealF(0)))
			}
			return cx.Branch(sym.Eq(x.T, sym.Int(0)))
		case lazyDec:
			return false
		}
		if u.Info()&types.IsInteger != 0 {
			return asInt64(v) == 0
		}
	case *types.Slice:
		return len(v.([]value)) == 0
	case *types.Map:
		return v.(*Map).len() == 0
	case *types.Array:
		return u.Len() == 0
	case *types.Pointer, *types.Interface:
		return valueIsNil(v)
	}
	return false
}

func (e *jsonEnc) marshal(t types.Type, v value) {
	e.depth++
	defer func() { e.depth-- }()
	if e.depth > 200 {
		panic(jsonUnsupported{"json: unsupported value: encountered a cycle"})
	}
	// json.Marshaler / encoding.TextMarshaler
	if _, isBasic := t.(*types.Basic); !isBasic {
		if _, isI := t.Underlying().(*types.Interface); !isI {
			if m := findMethod(e.fr.i, t, "MarshalJSON"); m != nil && m.Signature.Params().Len() == 0 && m.Signature.Results().Len() == 2 {
				if p, ok := v.(*value); ok && p == nil {
					if _, isPtr := t.Underlying().(*types.Pointer); isPtr {
						e.ws("null")
						return
					}
				}
				res := call(e.fr.i, e.fr, e.fr.callpos, m, []value{v}).(tuple)
				if ei := res[1].(iface); ei.t != nil {
					panic(jsonUnsupported{"json: error calling MarshalJSON for type " + reflectTypeString(t) + ": " + panicMessage(ei)})
				}
				raw := res[0].([]value)
				// json compacts and validates the returned bytes; they come from our own marshaller
				e.out = append(e.out, raw...)
				return
			}
		}
	}
	switch u := t.Underlying().(type) {
	case *types.Basic:
		info := u.Info()
		switch {
		case info&types.IsString != 0:
			e.str(v)
		case info&types.IsBoolean != 0:
			if s, ok := v.(*Sym); ok {
				if cx.Branch(s.T) {
					e.ws("true")
				} else {
					e.ws("false")
				}
				return
			}
			e.ws(strconv.FormatBool(v.(bool)))
		case info&types.IsInteger != 0:
			e.out = append(e.out, strBytes(itoaV(v))...)
		case info&types.IsFloat != 0:
			f, ok := v.(float64)
			if !ok {
				if f32, ok32 := v.(float32); ok32 {
					b, _ := json.Marshal(f32)
					e.ws(string(b))
					return
				}
				Unsupported("json: symbolic float")
			}
			b, err := json.Marshal(f)
			if err != nil {
				panic(jsonUnsupported{err.Error()})
			}
			e.ws(string(b))
		default:
			panic(jsonUnsupported{"json: unsupported type: " + reflectTypeString(t)})
		}
	case *types.Interface:
		i := v.(iface)
		if i.t == nil {
			e.ws("null")
			return
		}
		e.marshal(i.t, i.v)
	case *types.Pointer:
		p, _ := v.(*value)
		if p == nil {
			e.ws("null")
			return
		}
		e.marshal(u.Elem(), *p)
	case *types.Slice:
		s := v.([]value)
		if s == nil {
			e.ws("null")
			return
		}
		if b, ok := u.Elem().Underlying().(*types.Basic); ok && b.Kind() == types.Uint8 {
			raw := make([]byte, len(s))
			for k, x := range s {
				c, conc := x.(uint8)
				if !conc {
					Unsupported("json: []byte with symbolic bytes (base64)")
				}
				raw[k] = c
			}
			e.ws(`"` + base64.StdEncoding.EncodeToString(raw) + `"`)
			return
		}
		e.ws("[")
		for k, x := range s {
			if k > 0 {
				e.ws(",")
			}
			e.marshal(u.Elem(), x)
		}
		e.ws("]")
	case *types.Array:
		e.ws("[")
		for k, x := range v.(array) {
			if k > 0 {
				e.ws(",")
			}
			e.marshal(u.Elem(), x)
		}
		e.ws("]")
	case *types.Map:
		m := v.(*Map)
		if m == nil {
			e.ws("null")
			return
		}
		kb, ok := u.Key().Underlying().(*types.Basic)
		if !ok || (kb.Info()&types.IsString == 0 && kb.Info()&types.IsInteger == 0) {
			panic(jsonUnsupported{"json: unsupported type: " + reflectTypeString(t)})
		}
		type kv struct {
			k string
			v value
		}
		var kvs []kv
		for _, en := range m.live() {
			ks, isS := en.key.(string)
			if !isS {
				if _, sy := en.key.(*Sym); sy || isSymbolic(en.key) {
					Unsupported("json: symbolic map key")
				}
				ks = fmt.Sprint(en.key)
			}
			kvs = append(kvs, kv{ks, en.val})
		}
		sort.Slice(kvs, func(a, b int) bool { return kvs[a].k < kvs[b].k })
		e.ws("{")
		for k, x := range kvs {
			if k > 0 {
				e.ws(",")
			}
			e.str(x.k)
			e.ws(":")
			e.marshal(u.Elem(), x.v)
		}
		e.ws("}")
	case *types.Struct:
		st, ok := v.(structure)
		if !ok {
			Unsupported("json: model-owned struct %s", t)
		}
		e.ws("{")
		first := true
		var emit func(u *types.Struct, st structure)
		emit = func(u *types.Struct, st structure) {
			for k := 0; k < u.NumFields(); k++ {
				f := u.Field(k)
				tag := reflect.StructTag(u.Tag(k)).Get("json")
				if tag == "-" {
					continue
				}
				name, opts, _ := strings.Cut(tag, ",")
				if f.Embedded() && name == "" {
					// promoted fields of embedded structs
					ft := f.Type()
					fv := st[k]
					if p, isP := ft.Underlying().(*types.Pointer); isP {
						pv, _ := fv.(*value)
						if pv == nil {
							continue
						}
						ft, fv = p.Elem(), *pv
					}
					if es, isS := ft.Underlying().(*types.Struct); isS {
						if m := findMethod(e.fr.i, f.Type(), "MarshalJSON"); m == nil {
							if sv, ok := fv.(structure); ok {
								emit(es, sv)
							}
							continue
						}
					}
				}
				if !f.Exported() {
					continue
				}
				if name == "" {
					name = f.Name()
				}
				if strings.Contains(opts, "omitempty") && jsonIsEmpty(f.Type(), st[k]) {
					continue
				}
				if !first {
					e.ws(",")
				}
				first = false
				e.str(name)
				e.ws(":")
				if strings.Contains(opts, "string") {
					Unsupported("json: ,string option")
				}
				e.marshal(f.Type(), st[k])
			}
		}
		emit(u, st)
		e.ws("}")
	default:
		panic(jsonUnsupported{"json: unsupported type: " + reflectTypeString(t)})
	}
}

// jsonIndent ports json.Indent on a compact byte stream whose symbolic bytes are plain string content.
func jsonIndent(src []value, prefix, indent string) []value {
	var out []value
	depth := 0
	inStr, esc := false, false
	needIndent := false
	nl := func() {
		out = append(out, uint8('\n'))
		out = append(out, strBytes(prefix)...)
		for k := 0; k < depth; k++ {
			out = append(out, strBytes(indent)...)
		}
	}
	for _, bv := range src {
		b, conc := bv.(uint8)
		if inStr {
			out = append(out, bv)
			if !conc {
				esc = false
				continue
			}
			switch {
			case esc:
				esc = false
			case b == '\\':
				esc = true
			case b == '"':
				inStr = false
			}
			continue
		}
		if !conc {
			// digits of a symbolic number: a value like any other (found by the self-test: the first
			// element of an array was not moved to its own line)
			if needIndent {
				needIndent = false
				depth++
				nl()
			}
			out = append(out, bv)
			continue
		}
		if b == ' ' || b == '\t' || b == '\r' || b == '\n' {
			continue
		}
		if needIndent && b != ']' && b != '}' {
			needIndent = false
			depth++
			nl()
		}
		switch b {
		case '"':
			inStr = true
			out = append(out, bv)
		case '{', '[':
			out = append(out, bv)
			needIndent = true
		case ',':
			out = append(out, bv)
			nl()
		case ':':
			out = append(out, bv, uint8(' '))
		case '}', ']':
			if needIndent {
				needIndent = false
			} else {
				depth--
				nl()
			}
			out = append(out, bv)
		default:
			out = append(out, bv)
		}
	}
	return out
}

func jsonMarshalModel(fr *frame, arg value, indent bool, prefix, ind string) (res value) {
	return jsonMarshalModelOpt(fr, arg, indent, prefix, ind, true)
}

func jsonMarshalModelOpt(fr *frame, arg value, indent bool, prefix, ind string, escapeHTML bool) (res value) {
	i := arg.(iface)
	defer func() {
		if r := recover(); r != nil {
			if ju, ok := r.(jsonUnsupported); ok {
				res = tuple{[]value(nil), mkError(ju.msg)}
				return
			}
			panic(r)
		}
	}()
	e := &jsonEnc{fr: fr, noHTMLEsc: !escapeHTML}
	if i.t == nil {
		e.ws("null")
	} else {
		e.marshal(i.t, i.v)
	}
	out := e.out
	if indent {
		out = jsonIndent(out, prefix, ind)
	}
	return tuple{out, nilError()}
}

func init() {
	reg("encoding/json.Marshal", func(fr *frame, a []value) value { return jsonMarshalModel(fr, a[0], false, "", "") })
	encArg := func(v value) *jsonEncoder { return (*v.(*value)).(*jsonEncoder) }
	reg("encoding/json.NewEncoder", func(fr *frame, a []value) value {
		var cell value = &jsonEncoder{w: a[0].(iface), escapeHTML: true}
		return &cell
	})
	reg("(*encoding/json.Encoder).SetEscapeHTML", func(fr *frame, a []value) value {
		encArg(a[0]).escapeHTML = a[1].(bool)
		return nil
	})
	reg("(*encoding/json.Encoder).SetIndent", func(fr *frame, a []value) value {
		p, ok1 := a[1].(string)
		in, ok2 := a[2].(string)
		if !ok1 || !ok2 {
			Unsupported("json.Encoder.SetIndent with symbolic prefix/indent")
		}
		e := encArg(a[0])
		e.prefix, e.indent = p, in
		return nil
	})
	reg("(*encoding/json.Encoder).Encode", func(fr *frame, a []value) value {
		e := encArg(a[0])
		res := jsonMarshalModelOpt(fr, a[1], e.prefix != "" || e.indent != "", e.prefix, e.indent, e.escapeHTML).(tuple)
		if ei := res[1].(iface); ei.t != nil {
			return res[1]
		}
		out := append(append([]value(nil), res[0].([]value)...), uint8('\n'))
		m := findMethod(fr.i, e.w.t, "Write")
		if m == nil {
			Unsupported("json.Encoder over %s", e.w.t)
		}
		wres := call(fr.i, fr, fr.callpos, m, []value{e.w.v, out}).(tuple)
		return wres[1]
	})
	reg("encoding/json.MarshalIndent", func(fr *frame, a []value) value {
		p, ok1 := a[1].(string)
		in, ok2 := a[2].(string)
		if !ok1 || !ok2 {
			Unsupported("json.MarshalIndent with symbolic prefix/indent")
		}
		return jsonMarshalModel(fr, a[0], true, p, in)
	})
	_ = bytes.Compare
}
