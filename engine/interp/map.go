package interp

import (
	"go/types"
)

// Map is the engine's map: insertion ordered (so that re-execution is
// deterministic), with a hash index for concrete keys. Keys that contain
// symbolic parts are compared with a forking equality test.
type Map struct {
	keyT    types.Type
	entries []*mapEntry
	index   map[int][]*mapEntry // hash -> live entries with concrete keys
	symKeys []*mapEntry         // live entries whose key is symbolic
	n       int
}

type mapEntry struct {
	key, val value
	deleted  bool
	hash     int
	sym      bool
}

func makeMap(kt types.Type) *Map {
	return &Map{keyT: kt, index: map[int][]*mapEntry{}}
}

func (m *Map) len() int {
	if m == nil {
		return 0
	}
	return m.n
}

// find returns the entry whose key equals k, forking on symbolic comparisons.
func (m *Map) find(k value) *mapEntry {
	if m == nil {
		return nil
	}
	h, conc := hashV(m.keyT, k)
	if conc {
		for _, e := range m.index[h] {
			if equals(m.keyT, e.key, k) {
				return e
			}
		}
		for _, e := range m.symKeys {
			if cx.BranchV(equalsV(m.keyT, e.key, k)) {
				return e
			}
		}
		return nil
	}
	// symbolic key: scan everything in insertion order
	for _, e := range m.entries {
		if e.deleted {
			continue
		}
		if cx.BranchV(equalsV(m.keyT, e.key, k)) {
			return e
		}
	}
	return nil
}

func (m *Map) lookup(k value) (value, bool) {
	if e := m.find(k); e != nil {
		return e.val, true
	}
	return nil, false
}

func (m *Map) insert(k, v value) {
	if m == nil {
		panic(runtimeError("assignment to entry in nil map"))
	}
	if e := m.find(k); e != nil {
		e.val = v
		return
	}
	h, conc := hashV(m.keyT, k)
	e := &mapEntry{key: k, val: v, hash: h, sym: !conc}
	m.entries = append(m.entries, e)
	if conc {
		m.index[h] = append(m.index[h], e)
	} else {
		m.symKeys = append(m.symKeys, e)
	}
	m.n++
}

func (m *Map) delete(k value) {
	if m == nil {
		return
	}
	e := m.find(k)
	if e == nil {
		return
	}
	e.deleted = true
	m.n--
	if e.sym {
		for i, x := range m.symKeys {
			if x == e {
				m.symKeys = append(m.symKeys[:i:i], m.symKeys[i+1:]...)
				break
			}
		}
	} else {
		b := m.index[e.hash]
		for i, x := range b {
			if x == e {
				m.index[e.hash] = append(b[:i:i], b[i+1:]...)
				break
			}
		}
	}
	if len(m.entries) > 32 && m.n*2 < len(m.entries) {
		live := m.entries[:0:0]
		for _, x := range m.entries {
			if !x.deleted {
				live = append(live, x)
			}
		}
		m.entries = live
	}
}

// live returns the live entries in iteration order.
func (m *Map) live() []*mapEntry {
	if m == nil {
		return nil
	}
	out := make([]*mapEntry, 0, m.n)
	for _, e := range m.entries {
		if !e.deleted {
			out = append(out, e)
		}
	}
	return out
}

// mapIter iterates over a snapshot of the entries; entries deleted during
// iteration are skipped (as in Go), entries added during iteration are not
// visited (allowed by the spec).
type mapIter struct {
	es []*mapEntry
	i  int
}

func (it *mapIter) next() tuple {
	for it.i < len(it.es) {
		e := it.es[it.i]
		it.i++
		if e.deleted {
			continue
		}
		return tuple{true, e.key, e.val}
	}
	return tuple{false, nil, nil}
}
