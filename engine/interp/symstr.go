package interp

import (
	"fmt"
	"go/types"
	"unicode/utf8"

	"gosym/sym"
)

// lazyDec is a string that contains decimal renderings of symbolic integers whose digit
// count has not been decided yet. It is produced by the fmt model and consumed without
// forking by the time.Parse and strconv.Atoi models; every other use materialises it
// (forking on the digit counts) through strBytes.
type lazyDec struct {
	segs []lazySeg
}

type lazySeg struct {
	lit   []value   // literal bytes, or
	num   *sym.Term // decimal rendering of this integer term
	width int       // > 0: zero padded to this width (%0Nd)
}

func (l lazyDec) materialise() value {
	var out []value
	for _, sg := range l.segs {
		if sg.num == nil {
			out = append(out, sg.lit...)
			continue
		}
		x := mkSymInt(sg.num, types.Int)
		var r value
		if sg.width > 0 {
			r = zeroPadded(x, sg.width)
		} else {
			r = itoaV(x)
		}
		out = append(out, strBytes(r)...)
	}
	return mkStr(out)
}

// normStr materialises lazy strings; other values are returned unchanged.
func normStr(v value) value {
	if l, ok := v.(lazyDec); ok {
		return l.materialise()
	}
	return v
}

// mkStr builds a string value from byte values, normalising to a host string
// when every byte is concrete.
func mkStr(bs []value) value {
	allc := true
	for _, b := range bs {
		if _, ok := b.(uint8); !ok {
			allc = false
			break
		}
	}
	if allc {
		buf := make([]byte, len(bs))
		for i, b := range bs {
			buf[i] = b.(uint8)
		}
		return string(buf)
	}
	out := make(symstr, len(bs))
	for i, b := range bs {
		switch b := b.(type) {
		case uint8:
			out[i] = b
		case *Sym:
			if b.K != types.Uint8 {
				out[i] = symConv(types.Uint8, b)
			} else {
				out[i] = b
			}
		default:
			panic("mkStr: non-byte element")
		}
	}
	return out
}

// strBytes returns the bytes of a string value (shared for symstr: do not modify).
func strBytes(v value) []value {
	switch v := v.(type) {
	case string:
		out := make([]value, len(v))
		for i := 0; i < len(v); i++ {
			out[i] = v[i]
		}
		return out
	case symstr:
		return []value(v)
	case lazyDec:
		return strBytes(v.materialise())
	}
	panic(fmt.Sprintf("strBytes: not a string: %T", v))
}

func strLen(v value) int {
	switch v := v.(type) {
	case string:
		return len(v)
	case symstr:
		return len(v)
	case lazyDec:
		return strLen(v.materialise())
	}
	panic("strLen: not a string")
}

func isStr(v value) bool {
	switch v.(type) {
	case string, symstr, lazyDec:
		return true
	}
	return false
}

func byteTerm(b value) *sym.Term { return termOf(b) }

// strEq returns x == y as bool-or-Sym.
func strEq(x, y value) value {
	if xs, ok := x.(string); ok {
		if ys, ok := y.(string); ok {
			return xs == ys
		}
	}
	if strLen(x) != strLen(y) {
		return false
	}
	xb, yb := strBytes(x), strBytes(y)
	conj := make([]*sym.Term, 0, len(xb))
	for i := range xb {
		xc, okx := xb[i].(uint8)
		yc, oky := yb[i].(uint8)
		if okx && oky {
			if xc != yc {
				return false
			}
			continue
		}
		e := sym.Eq(byteTerm(xb[i]), byteTerm(yb[i]))
		if e == sym.False {
			return false
		}
		conj = append(conj, e)
	}
	return mkSymBool(sym.And(conj...))
}

// strLess returns x < y (lexicographic on bytes) as bool-or-Sym, built without forking.
func strLess(x, y value) value {
	if xs, ok := x.(string); ok {
		if ys, ok := y.(string); ok {
			return xs < ys
		}
	}
	xb, yb := strBytes(x), strBytes(y)
	n := len(xb)
	if len(yb) < n {
		n = len(yb)
	}
	res := sym.Bool(len(xb) < len(yb))
	for i := n - 1; i >= 0; i-- {
		a, b := byteTerm(xb[i]), byteTerm(yb[i])
		res = sym.Ite(sym.Lt(a, b), sym.True, sym.Ite(sym.Eq(a, b), res, sym.False))
	}
	return mkSymBool(res)
}

func strConcat(x, y value) value {
	if xs, ok := x.(string); ok {
		if ys, ok := y.(string); ok {
			return xs + ys
		}
	}
	xb, yb := strBytes(x), strBytes(y)
	out := make([]value, 0, len(xb)+len(yb))
	out = append(out, xb...)
	out = append(out, yb...)
	return mkStr(out)
}

func strSlice(x value, lo, hi int) value {
	switch x := x.(type) {
	case string:
		return x[lo:hi]
	case symstr:
		if lo < 0 || hi > len(x) || lo > hi {
			panic(runtimeError("slice bounds out of range"))
		}
		return mkStr([]value(x[lo:hi]))
	}
	panic("strSlice: not a string")
}

// concretizeIndex checks 0 <= idx < n (panicking in the target otherwise) and
// forks over the feasible concrete values of a symbolic index.
func concretizeIndex(idx value, n int, what string) int {
	s, ok := idx.(*Sym)
	if !ok {
		i := asInt64(idx)
		if i < 0 || i >= int64(n) {
			panic(runtimeError(fmt.Sprintf("index out of range [%d] with length %d", i, n)))
		}
		return int(i)
	}
	out := sym.Or(sym.Lt(s.T, sym.Int(0)), sym.Le(sym.Int(int64(n)), s.T))
	if cx.Branch(out) {
		panic(runtimeError("index out of range [symbolic] with length " + fmt.Sprint(n)))
	}
	if n > 4096 {
		Unsupported("%s: symbolic index into %d elements", what, n)
	}
	conds := make([]*sym.Term, n)
	for i := range conds {
		conds[i] = sym.Eq(s.T, sym.Int(int64(i)))
	}
	return cx.Choose(n, conds)
}

// strIndex returns x[idx].
func strIndex(x value, idx value) value {
	n := strLen(x)
	if s, ok := idx.(*Sym); ok {
		// read-only access: build an ite chain instead of forking (bounds obligation still forks)
		out := sym.Or(sym.Lt(s.T, sym.Int(0)), sym.Le(sym.Int(int64(n)), s.T))
		if cx.Branch(out) {
			panic(runtimeError("string index out of range"))
		}
		bs := strBytes(x)
		res := byteTerm(bs[n-1])
		for i := n - 2; i >= 0; i-- {
			res = sym.Ite(sym.Eq(s.T, sym.Int(int64(i))), byteTerm(bs[i]), res)
		}
		return mkSymInt(res, types.Uint8)
	}
	i := asInt64(idx)
	if i < 0 || i >= int64(n) {
		panic(runtimeError("string index out of range"))
	}
	switch x := x.(type) {
	case string:
		return x[i]
	case symstr:
		return x[i]
	}
	panic("strIndex")
}

// decodeRuneAt decodes one rune of a string value at byte offset i:
// returns the rune value (int32 or *Sym) and its width. Symbolic bytes are
// forked into ASCII / non-ASCII; a symbolic non-ASCII lead byte is concretised
// by the ported UTF-8 decoder below.
func decodeRuneAt(bs []value, i int) (value, int) {
	b0 := bs[i]
	if c, ok := b0.(uint8); ok && c < utf8.RuneSelf {
		return int32(c), 1
	}
	if s, ok := b0.(*Sym); ok {
		if cx.Branch(sym.Lt(s.T, sym.Int(utf8.RuneSelf))) {
			return mkSymInt(s.T, types.Int32), 1
		}
	}
	// multi-byte: concretise the lead byte, then each continuation byte.
	var buf [4]byte
	buf[0] = byte(concretizeInt(b0, "utf8 lead byte", 256))
	need := 1
	switch {
	case buf[0] >= 0xC2 && buf[0] < 0xE0:
		need = 2
	case buf[0] >= 0xE0 && buf[0] < 0xF0:
		need = 3
	case buf[0] >= 0xF0 && buf[0] < 0xF5:
		need = 4
	}
	n := 1
	for ; n < need && i+n < len(bs); n++ {
		switch b := bs[i+n].(type) {
		case uint8:
			buf[n] = b
		case *Sym:
			isCont := sym.And(sym.Le(sym.Int(0x80), b.T), sym.Le(b.T, sym.Int(0xBF)))
			if !cx.Branch(isCont) {
				return int32(utf8.RuneError), 1
			}
			buf[n] = byte(concretizeInt(b, "utf8 continuation byte", 256))
		}
	}
	r, w := utf8.DecodeRune(buf[:n])
	return int32(r), w
}

// strRunes converts a string value to a slice of rune values.
func strRunes(x value) []value {
	if s, ok := x.(string); ok {
		var out []value
		for _, r := range s {
			out = append(out, int32(r))
		}
		return out
	}
	bs := strBytes(x)
	var out []value
	for i := 0; i < len(bs); {
		r, w := decodeRuneAt(bs, i)
		out = append(out, r)
		i += w
	}
	return out
}

// runeToStr implements string(rune).
func runeToStr(r value) value {
	if s, ok := r.(*Sym); ok {
		if cx.Branch(sym.And(sym.Le(sym.Int(0), s.T), sym.Lt(s.T, sym.Int(utf8.RuneSelf)))) {
			return mkStr([]value{mkSymInt(s.T, types.Uint8)})
		}
		c := concretizeInt(r, "string(rune)", 1<<16)
		return string(rune(c))
	}
	return string(rune(asInt64(r)))
}

// runesToStr implements string([]rune).
func runesToStr(rs []value) value {
	var out []value
	for _, r := range rs {
		out = append(out, strBytes(runeToStr(r))...)
	}
	return mkStr(out)
}

type symStringIter struct {
	bs []value
	i  int
}

func (it *symStringIter) next() tuple {
	if it.i >= len(it.bs) {
		return tuple{false, nil, nil}
	}
	r, w := decodeRuneAt(it.bs, it.i)
	t := tuple{true, it.i, r}
	it.i += w
	return t
}
