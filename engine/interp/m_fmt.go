package interp

import (
	"fmt"
	"go/types"
	"strconv"
	"strings"

	"golang.org/x/tools/go/ssa"

	"gosym/sym"
)

// findMethod looks up a method by name in the method set of t.
func findMethod(i *interpreter, t types.Type, name string) *ssa.Function {
	ms := i.prog.MethodSets.MethodSet(t)
	for k := 0; k < ms.Len(); k++ {
		sel := ms.At(k)
		if sel.Obj().Name() == name && sel.Obj().Exported() {
			return i.prog.MethodValue(sel)
		}
	}
	return nil
}

// native converts a concrete scalar engine value of (possibly named) type t to a host value for fmt.
func nativeScalar(v value) (interface{}, bool) {
	switch v := v.(type) {
	case bool, int, int8, int16, int32, int64, uint, uint8, uint16, uint32, uint64, uintptr, float32, float64, string:
		return v, true
	}
	return nil, false
}

type fmtState struct {
	fr   *frame
	out  []value   // literal tail
	segs []lazySeg // completed segments (only when a symbolic integer was formatted)
}

func (f *fmtState) writeS(s string) { f.out = append(f.out, strBytes(s)...) }
func (f *fmtState) writeV(v value) {
	if l, ok := v.(lazyDec); ok {
		f.flushLit()
		f.segs = append(f.segs, l.segs...)
		return
	}
	f.out = append(f.out, strBytes(v)...)
}

func (f *fmtState) flushLit() {
	if len(f.out) > 0 {
		f.segs = append(f.segs, lazySeg{lit: f.out})
		f.out = nil
	}
}

// writeNum appends the decimal rendering of a symbolic integer lazily (no fork on the digit count).
func (f *fmtState) writeNum(x value, width int) {
	f.flushLit()
	f.segs = append(f.segs, lazySeg{num: termOf(x), width: width})
}

func (f *fmtState) result() value {
	if len(f.segs) == 0 {
		return mkStr(f.out)
	}
	f.flushLit()
	return lazyDec{segs: f.segs}
}

// handleMethods mimics fmt's handleMethods for %v %s %q %x %X: error first, then Stringer.
func (f *fmtState) stringerOf(arg iface) (value, bool) {
	if arg.t == nil {
		return nil, false
	}
	if _, isBasic := arg.t.(*types.Basic); isBasic {
		return nil, false
	}
	for _, name := range []string{"Error", "String"} {
		m := findMethod(f.fr.i, arg.t, name)
		if m == nil {
			continue
		}
		sig := m.Signature
		if sig.Params().Len() != 0 || sig.Results().Len() != 1 {
			continue
		}
		if b, ok := sig.Results().At(0).Type().Underlying().(*types.Basic); !ok || b.Kind() != types.String {
			continue
		}
		// fmt catches panics from nil receivers and prints <nil>
		if p, ok := arg.v.(*value); ok && p == nil {
			if _, isPtr := arg.t.Underlying().(*types.Pointer); isPtr {
				// a nil pointer receiver: fmt calls the method; if it panics prints "<nil>"
				var res value
				func() {
					defer func() {
						if r := recover(); r != nil {
							if isInternalPanic(r) {
								panic(r)
							}
							res = "<nil>"
						}
					}()
					res = call(f.fr.i, f.fr, f.fr.callpos, m, []value{arg.v})
				}()
				return res, true
			}
		}
		return call(f.fr.i, f.fr, f.fr.callpos, m, []value{arg.v}), true
	}
	return nil, false
}

// formatValue renders v (of type t) for %v-like verbs.
func (f *fmtState) formatValue(t types.Type, v value, verb byte, plus, sharp bool, depth int) {
	if depth > 8 {
		f.writeS("...")
		return
	}
	if depth > 0 {
		// nested operands also honour Stringer/error when they are interface-typed or have methods
		if s, ok := f.stringerOf(iface{t: t, v: v}); ok && verb != 'd' {
			f.writeV(s)
			return
		}
	}
	switch ut := t.Underlying().(type) {
	case *types.Basic:
		f.formatBasic(ut, v, verb, sharp)
	case *types.Pointer:
		p := v.(*value)
		if p == nil {
			f.writeS("<nil>")
			return
		}
		if depth == 0 {
			switch ut.Elem().Underlying().(type) {
			case *types.Struct, *types.Array, *types.Slice, *types.Map:
				f.writeS("&")
				f.formatValue(ut.Elem(), *p, verb, plus, sharp, depth+1)
				return
			}
		}
		f.writeS(fmt.Sprintf("0xc%09x", ptrID(p)))
	case *types.Struct:
		st, ok := v.(structure)
		if !ok {
			f.writeS(fmt.Sprintf("{%s}", toString(v)))
			return
		}
		f.writeS("{")
		for i := 0; i < ut.NumFields(); i++ {
			if i > 0 {
				f.writeS(" ")
			}
			if plus || sharp {
				f.writeS(ut.Field(i).Name() + ":")
			}
			f.formatValue(ut.Field(i).Type(), st[i], verb, plus, sharp, depth+1)
		}
		f.writeS("}")
	case *types.Slice:
		s := v.([]value)
		if b, ok := ut.Elem().Underlying().(*types.Basic); ok && b.Kind() == types.Uint8 && (verb == 's' || verb == 'q' || verb == 'x') {
			f.formatBasic(types.Typ[types.String], mkStr(s), verb, sharp)
			return
		}
		f.writeS("[")
		for i, e := range s {
			if i > 0 {
				f.writeS(" ")
			}
			f.formatValue(ut.Elem(), e, verb, plus, sharp, depth+1)
		}
		f.writeS("]")
	case *types.Array:
		s := v.(array)
		f.writeS("[")
		for i, e := range s {
			if i > 0 {
				f.writeS(" ")
			}
			f.formatValue(ut.Elem(), e, verb, plus, sharp, depth+1)
		}
		f.writeS("]")
	case *types.Map:
		m := v.(*Map)
		f.writeS("map[")
		// fmt sorts map keys; support string / int keys
		es := m.live()
		sortEntriesForFmt(es)
		for i, e := range es {
			if i > 0 {
				f.writeS(" ")
			}
			f.formatValue(ut.Key(), e.key, verb, plus, sharp, depth+1)
			f.writeS(":")
			f.formatValue(ut.Elem(), e.val, verb, plus, sharp, depth+1)
		}
		f.writeS("]")
	case *types.Interface:
		i := v.(iface)
		if i.t == nil {
			f.writeS("<nil>")
			return
		}
		f.formatValue(i.t, i.v, verb, plus, sharp, depth+1)
	case *types.Signature, *types.Chan:
		f.writeS("0xc000012345")
	default:
		f.writeS(toString(v))
	}
}

var ptrIDs = map[*value]int{}

func ptrID(p *value) int {
	if id, ok := ptrIDs[p]; ok {
		return id
	}
	id := 0x10000 + 16*len(ptrIDs)
	ptrIDs[p] = id
	return id
}

func sortEntriesForFmt(es []*mapEntry) {
	less := func(a, b value) bool {
		switch a := a.(type) {
		case string:
			if bs, ok := b.(string); ok {
				return a < bs
			}
		case int:
			if bi, ok := b.(int); ok {
				return a < bi
			}
		}
		return false
	}
	for i := 1; i < len(es); i++ {
		for j := i; j > 0 && less(es[j].key, es[j-1].key); j-- {
			es[j], es[j-1] = es[j-1], es[j]
		}
	}
}

func (f *fmtState) formatBasic(b *types.Basic, v value, verb byte, sharp bool) {
	info := b.Info()
	switch {
	case info&types.IsString != 0:
		switch verb {
		case 'q':
			if cs, ok := v.(string); ok {
				f.writeS(strconv.Quote(cs))
			} else {
				f.quoteSym(v)
			}
		case 'x':
			if cs, ok := v.(string); ok {
				f.writeS(fmt.Sprintf("%x", cs))
			} else {
				Unsupported("%%x of symbolic string")
			}
		case 'v', 's':
			if sharp && verb == 'v' {
				if cs, ok := v.(string); ok {
					f.writeS(strconv.Quote(cs))
				} else {
					f.quoteSym(v)
				}
				return
			}
			f.writeV(v)
		default:
			f.writeS("%!" + string(verb) + "(string=")
			f.writeV(v)
			f.writeS(")")
		}
	case info&types.IsBoolean != 0:
		if s, ok := v.(*Sym); ok {
			if cx.Branch(s.T) {
				f.writeS("true")
			} else {
				f.writeS("false")
			}
			return
		}
		if verb == 'v' || verb == 't' {
			f.writeS(strconv.FormatBool(v.(bool)))
		} else {
			f.writeS(fmt.Sprintf("%%!%c(bool=%v)", verb, v))
		}
	case info&types.IsInteger != 0:
		if _, ok := v.(*Sym); ok {
			switch verb {
			case 'v', 'd':
				f.writeNum(v, 0)
			case 'c':
				f.writeV(runeToStr(v))
			case 's':
				f.writeS("%!s(int=")
				f.writeV(itoaV(v))
				f.writeS(")")
			default:
				Unsupported("%%%c of symbolic integer", verb)
			}
			return
		}
		nv, _ := nativeScalar(v)
		f.writeS(fmt.Sprintf("%"+string(verb), nv))
	case info&types.IsFloat != 0:
		if _, ok := v.(*Sym); ok {
			Unsupported("formatting a symbolic float with %%%c", verb)
		}
		nv, _ := nativeScalar(v)
		f.writeS(fmt.Sprintf("%"+string(verb), nv))
	default:
		f.writeS(toString(v))
	}
}

// quoteSym renders %q of a symbolic string: printable ASCII bytes that need no escaping are kept.
func (f *fmtState) quoteSym(v value) {
	f.writeS(`"`)
	for _, b := range strBytes(v) {
		if c, ok := b.(uint8); ok {
			q := strconv.Quote(string([]byte{c}))
			f.writeS(q[1 : len(q)-1])
			continue
		}
		t := b.(*Sym).T
		plain := sym.And(inRange(t, 0x20, 0x7e), sym.Not(sym.Eq(t, sym.Int('"'))), sym.Not(sym.Eq(t, sym.Int('\\'))))
		if cx.Branch(plain) {
			f.out = append(f.out, b)
		} else {
			c := byte(concretizeInt(b, "%q of symbolic byte", 256))
			q := strconv.Quote(string([]byte{c}))
			f.writeS(q[1 : len(q)-1])
		}
	}
	f.writeS(`"`)
}

// sprintf implements fmt.Sprintf over engine values. args are interface values.
func sprintf(fr *frame, format value, args []value) value {
	fs, ok := format.(string)
	if !ok {
		Unsupported("symbolic format string")
	}
	// fast path: every operand is a concrete scalar of basic (unnamed-method-free) type
	if nat, ok := nativeArgs(fr, args); ok {
		return fmt.Sprintf(fs, nat...)
	}
	f := &fmtState{fr: fr}
	argi := 0
	for i := 0; i < len(fs); {
		c := fs[i]
		if c != '%' {
			j := strings.IndexByte(fs[i:], '%')
			if j < 0 {
				j = len(fs) - i
			}
			f.writeS(fs[i : i+j])
			i += j
			continue
		}
		// parse flags, width, precision
		j := i + 1
		plus, sharp, zero, minus, space := false, false, false, false, false
	flags:
		for j < len(fs) {
			switch fs[j] {
			case '+':
				plus = true
			case '#':
				sharp = true
			case '0':
				zero = true
			case '-':
				minus = true
			case ' ':
				space = true
			default:
				break flags
			}
			j++
		}
		width, hasWidth := 0, false
		for j < len(fs) && fs[j] >= '0' && fs[j] <= '9' {
			width = width*10 + int(fs[j]-'0')
			hasWidth = true
			j++
		}
		prec, hasPrec := 0, false
		if j < len(fs) && fs[j] == '.' {
			j++
			hasPrec = true
			for j < len(fs) && fs[j] >= '0' && fs[j] <= '9' {
				prec = prec*10 + int(fs[j]-'0')
				j++
			}
		}
		if j >= len(fs) {
			f.writeS("%!(NOVERB)")
			break
		}
		verb := fs[j]
		spec := fs[i : j+1]
		i = j + 1
		if verb == '%' {
			f.writeS("%")
			continue
		}
		if argi >= len(args) {
			f.writeS("%!" + string(verb) + "(MISSING)")
			continue
		}
		arg := args[argi].(iface)
		argi++
		_ = space
		_ = minus
		start := len(f.out)
		nsegs := len(f.segs)
		switch {
		case verb == 'T':
			if arg.t == nil {
				f.writeS("<nil>")
			} else {
				f.writeS(typeString(arg.t))
			}
		case arg.t == nil:
			if verb == 'v' {
				f.writeS("<nil>")
			} else {
				f.writeS("%!" + string(verb) + "(<nil>)")
			}
		default:
			// concrete scalar of basic type with flags: native
			if _, isBasic := arg.t.(*types.Basic); isBasic {
				if nv, ok := nativeScalar(arg.v); ok {
					f.writeS(fmt.Sprintf(spec, nv))
					continue
				}
			}
			if verb == 'v' || verb == 's' || verb == 'q' || verb == 'x' || verb == 'X' {
				if s, ok := f.stringerOf(arg); ok && !(sharp && verb == 'v') {
					f.formatBasic(types.Typ[types.String], s, verb, false)
					break
				}
			}
			if nv, ok := nativeScalar(arg.v); ok {
				f.writeS(fmt.Sprintf(spec, nv))
				continue
			}
			if sym_, ok := arg.v.(*Sym); ok && (verb == 'd' || verb == 'v') && isIntKind(sym_.K) {
				// %d / %0Nd of a symbolic integer
				if hasWidth && zero && !minus {
					f.writeNum(arg.v, width)
				} else if hasWidth {
					Unsupported("space-padded symbolic integer")
				} else {
					f.writeNum(arg.v, 0)
				}
				continue
			}
			if sym_, ok := arg.v.(*Sym); ok && sym_.K == types.Float64 {
				Unsupported("formatting a symbolic float with %s", spec)
			}
			_ = hasPrec
			_ = prec
			f.formatValue(arg.t, arg.v, verb, plus, sharp, 0)
		}
		// width padding for non-native operands
		if hasWidth && !zero && nsegs == len(f.segs) {
			n := len(f.out) - start
			if n < width {
				pad := strBytes(strings.Repeat(" ", width-n))
				if minus {
					f.out = append(f.out, pad...)
				} else {
					seg := append([]value(nil), f.out[start:]...)
					f.out = append(append(f.out[:start], pad...), seg...)
				}
			}
		}
	}
	if argi < len(args) {
		f.writeS("%!(EXTRA ")
		for k := argi; k < len(args); k++ {
			if k > argi {
				f.writeS(", ")
			}
			a := args[k].(iface)
			if a.t == nil {
				f.writeS("<nil>")
				continue
			}
			f.writeS(typeString(a.t) + "=")
			f.formatValue(a.t, a.v, 'v', false, false, 0)
		}
		f.writeS(")")
	}
	return f.result()
}

// zeroPadded renders a symbolic integer with %0Nd semantics.
func zeroPadded(x value, width int) value {
	t := termOf(x)
	if !t.NonNeg() {
		if cx.Branch(sym.Lt(t, sym.Int(0))) {
			// "-" then zero padding to width-1
			inner := zeroPadded(mkSymInt(sym.Neg(t), types.Int), width-1)
			return strConcat("-", inner)
		}
	}
	// if it fits in width digits: exactly width digits; otherwise natural length
	limit := int64(1)
	for i := 0; i < width && i < 18; i++ {
		limit *= 10
	}
	if cx.Branch(sym.Lt(t, sym.Int(limit))) {
		return decimalDigits(&Sym{T: t, K: types.Int}, width)
	}
	return itoaV(x)
}

func hasNoMethods(i *interpreter, t types.Type) bool {
	return findMethod(i, t, "String") == nil && findMethod(i, t, "Error") == nil && findMethod(i, t, "Format") == nil && findMethod(i, t, "GoString") == nil
}

// nativeArgs converts operands to host values if all are concrete scalars without methods.
func nativeArgs(fr *frame, args []value) ([]interface{}, bool) {
	out := make([]interface{}, len(args))
	for k, a := range args {
		i := a.(iface)
		if i.t == nil {
			out[k] = nil
			continue
		}
		nv, ok := nativeScalar(i.v)
		if !ok {
			return nil, false
		}
		if _, isBasic := i.t.(*types.Basic); !isBasic && !hasNoMethods(fr.i, i.t) {
			return nil, false
		}
		if _, isBasic := i.t.(*types.Basic); !isBasic {
			// named type without methods: %T/%v differences are limited to %T and %#v; keep it simple
			out[k] = nv
			continue
		}
		out[k] = nv
	}
	return out, true
}

func typeString(t types.Type) string {
	return types.TypeString(t, func(p *types.Package) string { return p.Name() })
}

func sprint(fr *frame, args []value, ln bool) value {
	f := &fmtState{fr: fr}
	prevString := false
	for k, a := range args {
		arg := a.(iface)
		isString := false
		if arg.t != nil {
			if b, ok := arg.t.Underlying().(*types.Basic); ok && b.Info()&types.IsString != 0 {
				isString = true
			}
		}
		if ln && k > 0 {
			f.writeS(" ")
		} else if !ln && k > 0 && !isString && !prevString {
			f.writeS(" ")
		}
		if arg.t == nil {
			f.writeS("<nil>")
		} else if s, ok := f.stringerOf(arg); ok {
			f.writeV(s)
		} else {
			f.formatValue(arg.t, arg.v, 'v', false, false, 0)
		}
		prevString = isString
	}
	if ln {
		f.writeS("\n")
	}
	return f.result()
}

// writeTo implements io.Writer.Write dispatch for an interface value w.
func writeTo(fr *frame, w value, data value) value {
	wi := w.(iface)
	if wi.t == nil {
		panic(runtimeError("invalid memory address or nil pointer dereference"))
	}
	m := findMethod(fr.i, wi.t, "Write")
	if m == nil {
		Unsupported("Write on %s", wi.t)
	}
	return call(fr.i, fr, fr.callpos, m, []value{wi.v, append([]value(nil), strBytes(data)...)})
}

func init() {
	reg("fmt.Sprintf", func(fr *frame, a []value) value { return sprintf(fr, a[0], a[1].([]value)) })
	reg("fmt.Errorf", func(fr *frame, a []value) value {
		// %w wraps; message formatting is the same as %v
		fs, _ := a[0].(string)
		msg := sprintf(fr, strings.ReplaceAll(fs, "%w", "%v"), a[1].([]value))
		return mkError(msg)
	})
	reg("fmt.Sprint", func(fr *frame, a []value) value { return sprint(fr, a[0].([]value), false) })
	reg("fmt.Sprintln", func(fr *frame, a []value) value { return sprint(fr, a[0].([]value), true) })
	reg("fmt.Fprintf", func(fr *frame, a []value) value {
		s := sprintf(fr, a[1], a[2].([]value))
		return writeTo(fr, a[0], s)
	})
	reg("fmt.Fprint", func(fr *frame, a []value) value { return writeTo(fr, a[0], sprint(fr, a[1].([]value), false)) })
	reg("fmt.Fprintln", func(fr *frame, a []value) value { return writeTo(fr, a[0], sprint(fr, a[1].([]value), true)) })
	discard := func(fr *frame, a []value) value { return tuple{0, nilError()} }
	reg("fmt.Printf", discard)
	reg("fmt.Println", discard)
	reg("fmt.Print", discard)
	reg("errors.New", func(fr *frame, a []value) value { return mkError(a[0]) })
	reg("(*errors.errorString).Error", func(fr *frame, a []value) value {
		p := a[0].(*value)
		if p == nil {
			panic(runtimeError("invalid memory address or nil pointer dereference"))
		}
		return (*p).(structure)[0]
	})
}
