package interp

import (
	"fmt"
	"math/big"
	"os"
	"sort"
	"strings"
	"time"

	"gosym/sym"
)

// Decision codes for binary branches.
const (
	dTrue        = 0 // forked (or replayed), true side, condition asserted
	dFalse       = 1
	dForcedTrue  = 2 // only feasible side; nothing asserted
	dForcedFalse = 3
	dChooseBase  = 10 // n-ary: dChooseBase+i
)

// abortPath is the internal panic used to unwind a path.
type abortPath struct {
	kind string // "infeasible", "assume", "unsupported", "budget", "deadlock", "killed", "internal"
	msg  string
}

func (a abortPath) Error() string { return a.kind + ": " + a.msg }

// Unsupported aborts the current path as not encodable.
func Unsupported(format string, args ...interface{}) {
	panic(abortPath{"unsupported", fmt.Sprintf(format, args...)})
}

// Cex is a counterexample for one obligation on one path.
type Cex struct {
	Label      string            `json:"label"`
	Kind       string            `json:"kind"` // "assert", "panic", "deadlock", "budget", "emit"
	Msg        string            `json:"msg,omitempty"`
	Class      string            `json:"class,omitempty"`
	Assignment map[string]string `json:"assignment"`
	Decisions  []int             `json:"decisions,omitempty"`
	Site       string            `json:"site,omitempty"`
}

// PathRecord summarises one explored path.
type PathRecord struct {
	Case       int               `json:"case"`
	Decisions  int               `json:"ndec"`
	Forks      int               `json:"forks"`
	Outcome    string            `json:"outcome"` // ok, panic, infeasible, assume, unsupported, budget, deadlock
	Msg        string            `json:"msg,omitempty"`
	Steps      int64             `json:"steps"`
	Asserts    int               `json:"asserts"` // obligations checked on this path
	Symbolic   bool              `json:"symbolic"`
	Witness    map[string]string `json:"witness,omitempty"`
	Trace      []string          `json:"trace,omitempty"`
	Emits      map[string]string `json:"emits,omitempty"`
	Class      string            `json:"class,omitempty"`
	DecisionsV []int             `json:"decv,omitempty"`
}

// Ctx is the per-process exploration context.
type Ctx struct {
	Solver    *sym.Solver
	Portfolio []*sym.Solver // lazily started, for obligations that come back unknown
	TimeoutMS int

	// current path
	prefix    []int
	pos       int
	decisions []int
	forks     int
	pending   [][]int
	vars      []*sym.Term
	varSeen   map[string]bool
	varCount  map[string]int
	model     *sym.Model // satisfies the current path condition, or nil
	steps     int64
	asserts   int
	trace     []string
	emits     map[string]string
	class     string
	pathCex   []Cex
	symbolicP bool
	choices   map[string]string
	obs       []value
	decimals  map[string]*sym.Term
	vfs       *virtualFS // files written through the os model on this path
	known     map[int]bool // conditions whose truth value is fixed on this path
	civils    []civTriple
	mapPolicy int

	// limits
	MaxSteps int64
	MaxDepth int
	depth    int

	// options
	MapOrder    bool // explore map iteration orders
	SchedBudget int  // pre-emption budget for schedule exploration (-1 = deterministic default)
	preempts    int
	gomaxprocs  int // value returned by runtime.GOMAXPROCS on this path (0 = not asked yet)

	// accumulated over the run
	Labels        map[string]int // assertion label -> times reached
	Reached       map[string]int // vsReach labels
	Discharged    int
	Obligations   int
	TrivialObl    int
	UnknownFeas   int
	UnknownObl    int
	InterpFolds   int
	ModelHits     int
	KnownHits     int
	Lemmas        int
	dumpN         int
	Queries       int
	FuncsExecuted map[string]int64
	ModelsUsed    map[string]int64
	Inconclusive  []string
	Deadline      time.Time
}

var cx *Ctx

func NewCtx(solverKind string, timeoutMS int) (*Ctx, error) {
	s, err := sym.NewSolverWithFallback(solverKind, 1500, timeoutMS)
	if err != nil {
		return nil, err
	}
	if lf := os.Getenv("VERIF_SOLVER_LOG"); lf != "" {
		if f, err := os.Create(lf); err == nil {
			s.Log = f
		}
	}
	c := &Ctx{Solver: s, TimeoutMS: timeoutMS, MaxSteps: 20_000_000, MaxDepth: 3000, SchedBudget: -1,
		Labels: map[string]int{}, Reached: map[string]int{}, FuncsExecuted: map[string]int64{}, ModelsUsed: map[string]int64{}}
	return c, nil
}

func (c *Ctx) startPath(prefix []int) {
	c.prefix = prefix
	c.pos = 0
	c.decisions = c.decisions[:0]
	c.forks = 0
	c.pending = nil
	c.vars = nil
	c.varSeen = map[string]bool{}
	c.varCount = map[string]int{}
	c.model = nil
	if len(prefix) == 0 {
		c.model = sym.NewModel()
	}
	c.steps = 0
	c.asserts = 0
	c.trace = nil
	c.emits = nil
	c.class = ""
	c.pathCex = nil
	c.symbolicP = false
	c.choices = nil
	c.obs = nil
	c.decimals = nil
	c.vfs = nil
	c.known = map[int]bool{}
	c.civils = nil
	c.mapPolicy = -1
	c.depth = 0
	c.preempts = 0
	c.gomaxprocs = 0
	c.Solver.Push()
}

func (c *Ctx) endPath() {
	for c.Solver.Level() > 0 {
		c.Solver.Pop()
	}
}

func (c *Ctx) inconclusive(format string, args ...interface{}) {
	msg := fmt.Sprintf(format, args...)
	if len(c.Inconclusive) < 50 {
		c.Inconclusive = append(c.Inconclusive, msg)
	}
}

// newVar declares a fresh symbolic variable name#k.
func (c *Ctx) newVar(name string, s sym.Sort, lo, hi *big.Int) *sym.Term {
	k := c.varCount[name]
	c.varCount[name] = k + 1
	full := fmt.Sprintf("%s#%d", name, k)
	t := sym.Var(smtName(full), s, lo, hi)
	if !c.varSeen[t.Name] {
		c.varSeen[t.Name] = true
		c.vars = append(c.vars, t)
	}
	c.symbolicP = true
	return t
}

func smtName(full string) string {
	var sb strings.Builder
	sb.WriteString("v_")
	for _, r := range full {
		switch {
		case r >= 'a' && r <= 'z', r >= 'A' && r <= 'Z', r >= '0' && r <= '9', r == '_', r == '.':
			sb.WriteRune(r)
		case r == '#':
			sb.WriteString("__")
		default:
			fmt.Fprintf(&sb, "_x%x_", r)
		}
	}
	return sb.String()
}

// origName inverts smtName (for witness files).
func origName(smt string) string {
	s := strings.TrimPrefix(smt, "v_")
	if i := strings.LastIndex(s, "__"); i >= 0 {
		s = s[:i] + "#" + s[i+2:]
	}
	return s
}

func (c *Ctx) evalModel(t *sym.Term) (bool, bool) {
	if c.model == nil {
		return false, false
	}
	v, ok := sym.Eval(t, c.model, map[int]sym.EvalVal{})
	if !ok {
		return false, false
	}
	return v.B, true
}

// refreshModel obtains a model of the current path condition; false if infeasible.
func (c *Ctx) refreshModel() sym.Result {
	c.Queries++
	r := c.Solver.Check()
	if r == sym.Sat {
		c.model = c.Solver.GetModel(c.vars)
	} else {
		c.model = nil
	}
	return r
}

func (c *Ctx) checkDeadline() {
	if !c.Deadline.IsZero() && time.Now().After(c.Deadline) {
		panic(abortPath{"budget", "wall-clock deadline"})
	}
}

// learn records that t has truth value v on the rest of this path.
func (c *Ctx) learn(t *sym.Term, v bool) {
	switch {
	case t.Op == sym.ONot:
		c.learn(t.Args[0], !v)
		return
	case t.Op == sym.OAnd && v:
		for _, a := range t.Args {
			c.learn(a, true)
		}
	case t.Op == sym.OOr && !v:
		for _, a := range t.Args {
			c.learn(a, false)
		}
	}
	c.known[t.ID] = v
}

// lookupKnown decides t from the conditions already fixed on this path.
func (c *Ctx) lookupKnown(t *sym.Term) (bool, bool) {
	if t.Op == sym.ONot {
		v, ok := c.lookupKnown(t.Args[0])
		return !v, ok
	}
	if v, ok := c.known[t.ID]; ok {
		return v, true
	}
	switch t.Op {
	case sym.OAnd:
		all := true
		for _, a := range t.Args {
			v, ok := c.lookupKnown(a)
			if ok && !v {
				return false, true
			}
			if !ok {
				all = false
			}
		}
		if all {
			return true, true
		}
	case sym.OOr:
		all := true
		for _, a := range t.Args {
			v, ok := c.lookupKnown(a)
			if ok && v {
				return true, true
			}
			if !ok {
				all = false
			}
		}
		if all {
			return false, true
		}
	}
	return false, false
}

// Branch decides a symbolic condition, forking the exploration if both sides are feasible.
func (c *Ctx) Branch(cond *sym.Term) bool {
	if cond.IsConst() {
		return cond.BV
	}
	if v, ok := c.lookupKnown(cond); ok {
		c.KnownHits++
		return v
	}
	r := c.branch(cond)
	c.learn(cond, r)
	if branchLog {
		txt := sym.Print(cond)
		if len(txt) > 300 {
			txt = txt[:300]
		}
		fmt.Fprintf(os.Stderr, "BRANCH #%d %v d=%d %s\n", len(c.decisions), r, c.decisions[len(c.decisions)-1], txt)
	}
	return r
}

var branchLog = os.Getenv("VERIF_BRANCH_LOG") != ""

func (c *Ctx) branch(cond *sym.Term) bool {
	c.symbolicP = true
	if c.pos < len(c.prefix) {
		d := c.prefix[c.pos]
		c.pos++
		c.decisions = append(c.decisions, d)
		c.model = nil
		switch d {
		case dTrue:
			c.Solver.Assert(cond)
			c.afterPrefix()
			return true
		case dFalse:
			c.Solver.Assert(sym.Not(cond))
			c.afterPrefix()
			return false
		case dForcedTrue:
			c.afterPrefix()
			return true
		case dForcedFalse:
			c.afterPrefix()
			return false
		}
		panic(abortPath{"internal", fmt.Sprintf("replay mismatch: binary branch met decision %d", d)})
	}
	c.checkDeadline()
	// Which side does the current model take?
	side, have := c.evalModel(cond)
	if have {
		c.ModelHits++
		var other *sym.Term
		if side {
			other = sym.Not(cond)
		} else {
			other = cond
		}
		c.Queries++
		r := c.Solver.CheckWith(other)
		if r == sym.Unknown {
			c.UnknownFeas++
		}
		if r == sym.Unsat {
			if side {
				c.decisions = append(c.decisions, dForcedTrue)
			} else {
				c.decisions = append(c.decisions, dForcedFalse)
			}
			return side
		}
		// fork: follow the model's side, queue the other
		alt := append(append([]int(nil), c.decisions...), b2d(!side))
		c.pending = append(c.pending, alt)
		c.forks++
		c.decisions = append(c.decisions, b2d(side))
		if side {
			c.Solver.Assert(cond)
		} else {
			c.Solver.Assert(sym.Not(cond))
		}
		return side
	}
	// no usable model: two queries
	c.Queries += 2
	rt := c.Solver.CheckWith(cond)
	rf := c.Solver.CheckWith(sym.Not(cond))
	if rt == sym.Unknown {
		c.UnknownFeas++
	}
	if rf == sym.Unknown {
		c.UnknownFeas++
	}
	switch {
	case rt == sym.Unsat && rf == sym.Unsat:
		panic(abortPath{"infeasible", "both sides infeasible"})
	case rf == sym.Unsat:
		c.decisions = append(c.decisions, dForcedTrue)
		return true
	case rt == sym.Unsat:
		c.decisions = append(c.decisions, dForcedFalse)
		return false
	}
	alt := append(append([]int(nil), c.decisions...), dFalse)
	c.pending = append(c.pending, alt)
	c.forks++
	c.decisions = append(c.decisions, dTrue)
	c.Solver.Assert(cond)
	c.model = nil // the old model was not shown to satisfy cond
	return true
}

func b2d(side bool) int {
	if side {
		return dTrue
	}
	return dFalse
}

// afterPrefix is called after consuming a prefix decision; when the prefix is
// exhausted it fetches a model of the path condition.
func (c *Ctx) afterPrefix() {
	if c.pos == len(c.prefix) {
		if r := c.refreshModel(); r == sym.Unsat {
			panic(abortPath{"infeasible", "replayed prefix infeasible"})
		} else if r == sym.Unknown {
			c.UnknownFeas++
		}
	}
}

// BranchV branches on a bool-or-Sym value.
func (c *Ctx) BranchV(v value) bool {
	switch v := v.(type) {
	case bool:
		return v
	case *Sym:
		return c.Branch(v.T)
	}
	panic(fmt.Sprintf("BranchV: %T", v))
}

// Choose makes an n-ary decision. conds[i] is the condition under which
// alternative i applies (nil slice = free choice). Infeasible alternatives are skipped.
func (c *Ctx) Choose(n int, conds []*sym.Term) int {
	if n <= 0 {
		panic(abortPath{"infeasible", "Choose(0)"})
	}
	if c.pos < len(c.prefix) {
		d := c.prefix[c.pos]
		c.pos++
		if d < dChooseBase || d-dChooseBase >= n {
			panic(abortPath{"internal", fmt.Sprintf("replay mismatch: %d-ary choice met decision %d", n, d)})
		}
		c.decisions = append(c.decisions, d)
		c.model = nil
		i := d - dChooseBase
		if conds != nil {
			c.Solver.Assert(conds[i])
		}
		c.afterPrefix()
		return i
	}
	c.checkDeadline()
	first := -1
	base := append([]int(nil), c.decisions...)
	var firstModelOK bool
	for i := 0; i < n; i++ {
		if conds != nil {
			if conds[i] == sym.False {
				continue
			}
			if conds[i] != sym.True {
				c.symbolicP = true
				if side, have := c.evalModel(conds[i]); have && side && first < 0 {
					first = i
					firstModelOK = true
					continue
				}
				c.Queries++
				r := c.Solver.CheckWith(conds[i])
				if r == sym.Unsat {
					continue
				}
				if r == sym.Unknown {
					c.UnknownFeas++
				}
			}
		}
		if first < 0 {
			first = i
			continue
		}
		c.pending = append(c.pending, append(append([]int(nil), base...), dChooseBase+i))
		c.forks++
	}
	if first < 0 {
		panic(abortPath{"infeasible", "no feasible alternative"})
	}
	c.decisions = append(c.decisions, dChooseBase+first)
	if conds != nil && conds[first] != sym.True {
		c.Solver.Assert(conds[first])
		if !firstModelOK {
			c.model = nil
		}
	}
	return first
}

// Assume constrains the path; an infeasible assumption ends the path.
func (c *Ctx) Assume(v value) {
	switch v := v.(type) {
	case bool:
		if !v {
			panic(abortPath{"assume", "assumption false"})
		}
	case *Sym:
		if kv, ok := c.lookupKnown(v.T); ok {
			if !kv {
				panic(abortPath{"assume", "assumption contradicts the path condition"})
			}
			return
		}
		c.learn(v.T, true)
		if c.pos < len(c.prefix) {
			// replaying a prefix: the path that queued it has shown this point feasible; the model
			// is re-established once the prefix has been consumed (afterPrefix)
			c.Solver.Assert(v.T)
			c.model = nil
			return
		}
		if side, have := c.evalModel(v.T); have && side {
			c.Solver.Assert(v.T)
			return
		}
		c.Solver.Assert(v.T)
		if r := c.refreshModel(); r == sym.Unsat {
			panic(abortPath{"assume", "assumption infeasible"})
		} else if r == sym.Unknown {
			c.UnknownFeas++
		}
	}
}

// Lemma adds a fact that another harness of the same check proves for all inputs (assume-guarantee).
// It cannot make a feasible path infeasible, so no feasibility query is made; a lemma that is
// concretely false on this path is reported like a failed assertion.
func (c *Ctx) Lemma(label string, v value, site string) {
	switch v := v.(type) {
	case bool:
		if !v {
			c.Assert("lemma:"+label, false, site)
		}
	case *Sym:
		if _, ok := c.lookupKnown(v.T); ok {
			return
		}
		c.learn(v.T, true)
		c.Solver.Assert(v.T)
		if side, have := c.evalModel(v.T); !have || !side {
			c.model = nil
		}
	}
}

// Assignment renders a model as name#k -> decimal string.
func (c *Ctx) assignment(m *sym.Model) map[string]string {
	out := map[string]string{}
	for k, v := range c.choices {
		out[k] = v
	}
	for _, v := range c.vars {
		name := origName(v.Name)
		switch v.Sort {
		case sym.SInt:
			if x, ok := m.Ints[v.Name]; ok {
				out[name] = x.String()
			} else if v.Lo != nil {
				out[name] = v.Lo.String()
			} else {
				out[name] = "0"
			}
		case sym.SReal:
			if x, ok := m.Reals[v.Name]; ok {
				f, _ := x.Float64()
				out[name] = fmt.Sprintf("%v", f)
			} else {
				out[name] = "0"
			}
		case sym.SBool:
			if m.Bools[v.Name] {
				out[name] = "1"
			} else {
				out[name] = "0"
			}
		}
	}
	return out
}

// checkObligation decides pc ∧ ¬cond with the primary solver and, on unknown, the portfolio.
func (c *Ctx) checkObligation(neg *sym.Term) (sym.Result, *sym.Model) {
	c.Queries++
	r, m := c.Solver.CheckWithModel(neg, c.vars)
	if d := os.Getenv("VERIF_DUMP_CEX"); d != "" && r == sym.Sat {
		c.dumpStack(d, neg)
	}
	if r != sym.Unknown {
		return r, m
	}
	return c.portfolio(neg)
}

func (c *Ctx) dumpStack(d string, neg *sym.Term) {
	{
		c.dumpN++
		var sb strings.Builder
		sb.WriteString("(declare-fun rnd (Real) Real)\n")
		seen := map[string]bool{}
		all := append(c.Solver.Assertions(), neg)
		for _, a := range all {
			vs := map[*sym.Term]bool{}
			sym.Vars(a, vs, map[int]bool{})
			for v := range vs {
				if !seen[v.Name] {
					seen[v.Name] = true
					fmt.Fprintf(&sb, "(declare-const %s %s)\n", v.Name, v.Sort)
				}
			}
		}
		for _, a := range all {
			fmt.Fprintf(&sb, "(assert %s)\n", sym.Print(a))
		}
		sb.WriteString("(check-sat)\n(get-model)\n")
		os.WriteFile(fmt.Sprintf("%s/cex%d.smt2", d, c.dumpN), []byte(sb.String()), 0o644)
	}
}

func (c *Ctx) portfolio(neg *sym.Term) (sym.Result, *sym.Model) {
	// portfolio retry: replay the whole assertion stack on the other solvers
	for _, kind := range []string{"z3-new", "cvc5", "z3"} {
		if kind == c.Solver.Kind {
			continue
		}
		s, err := sym.NewSolver(kind, c.TimeoutMS)
		if err != nil {
			continue
		}
		for _, a := range c.Solver.Assertions() {
			s.Assert(a)
		}
		r2, m2 := s.CheckWithModel(neg, c.vars)
		c.Solver.Stats.Time += s.Stats.Time
		s.Close()
		if r2 != sym.Unknown {
			return r2, m2
		}
	}
	return sym.Unknown, nil
}

// Assert checks an obligation on the current path.
func (c *Ctx) Assert(label string, v value, site string) {
	c.Labels[label]++
	c.asserts++
	c.Obligations++
	switch v := v.(type) {
	case bool:
		c.TrivialObl++
		if v {
			c.Discharged++
			return
		}
		// concrete failure on a feasible path
		m := c.model
		if m == nil {
			r := c.refreshModel()
			if r == sym.Unsat {
				panic(abortPath{"infeasible", "path infeasible at failing assertion"})
			}
			if r == sym.Unknown {
				c.UnknownObl++
				c.inconclusive("assertion %q fails on a path whose feasibility the solver could not decide", label)
				panic(abortPath{"unknown", "feasibility of a failing path unknown"})
			}
			m = c.model
			if d := os.Getenv("VERIF_DUMP_CEX"); d != "" {
				c.dumpStack(d, sym.True)
			}
		}
		c.pathCex = append(c.pathCex, Cex{Label: label, Kind: "assert", Assignment: c.assignment(m), Decisions: append([]int(nil), c.decisions...), Site: site, Class: c.class})
	case *Sym:
		c.symbolicP = true
		if c.pos < len(c.prefix) {
			// replaying a prefix: the path that queued this prefix passed the same point under the
			// same path condition and has checked (and reported) this obligation; like it, go on
			// under the assumption that the assertion holds
			c.asserts--
			c.Obligations--
			c.Assume(v)
			return
		}
		neg := sym.Not(v.T)
		if side, have := c.evalModel(v.T); have && !side {
			// the current model already violates it
			c.pathCex = append(c.pathCex, Cex{Label: label, Kind: "assert", Assignment: c.assignment(c.model), Decisions: append([]int(nil), c.decisions...), Site: site, Class: c.class})
		} else {
			r, m := c.checkObligation(neg)
			switch r {
			case sym.Unsat:
				c.Discharged++
				// implied by the path condition: recording it keeps a replaying path (which does
				// not repeat the query) in step with this one
				if _, ok := c.lookupKnown(v.T); !ok {
					c.learn(v.T, true)
					c.Solver.Assert(v.T)
				}
				return
			case sym.Sat:
				c.pathCex = append(c.pathCex, Cex{Label: label, Kind: "assert", Assignment: c.assignment(m), Decisions: append([]int(nil), c.decisions...), Site: site, Class: c.class})
			default:
				c.UnknownObl++
				c.inconclusive("obligation %q: solver answered unknown", label)
				return
			}
		}
		// continue the path under the assumption that the assertion holds
		c.Assume(v)
	default:
		panic(fmt.Sprintf("Assert: %T", v))
	}
}

// witness returns an assignment satisfying the current path condition.
func (c *Ctx) witness() map[string]string {
	if c.model == nil {
		if r := c.refreshModel(); r != sym.Sat {
			return nil
		}
	}
	return c.assignment(c.model)
}

func sortedKeys[V any](m map[string]V) []string {
	ks := make([]string, 0, len(m))
	for k := range m {
		ks = append(ks, k)
	}
	sort.Strings(ks)
	return ks
}
