package interp

import (
	"gosym/sym"
	"regexp"
	"strconv"
	"strings"
	"unicode"
)

// Concrete-only models of pure stdlib functions: they call the real function when every
// argument is concrete and end the path as unsupported otherwise.

func needConc(name string, a []value) {
	for _, v := range a {
		switch v.(type) {
		case *Sym, symstr, lazyDec:
			Unsupported("%s on symbolic input", name)
		}
	}
}

func ss(name string, f func(string) string) {
	reg(name, func(fr *frame, a []value) value { needConc(name, a); return f(a[0].(string)) })
}

func sss(name string, f func(string, string) string) {
	reg(name, func(fr *frame, a []value) value { needConc(name, a); return f(a[0].(string), a[1].(string)) })
}

func ssb(name string, f func(string, string) bool) {
	reg(name, func(fr *frame, a []value) value { needConc(name, a); return f(a[0].(string), a[1].(string)) })
}

func ssi(name string, f func(string, string) int) {
	reg(name, func(fr *frame, a []value) value { needConc(name, a); return f(a[0].(string), a[1].(string)) })
}

func init() {
	ss("regexp.QuoteMeta", regexp.QuoteMeta)
	ss("strings.Title", strings.Title)
	ss("strings.ToTitle", strings.ToTitle)
	ss("strconv.Quote", strconv.Quote)
	reg("strings.TrimPrefix", func(fr *frame, a []value) value {
		if allConcStr(a[0], a[1]) {
			return strings.TrimPrefix(a[0].(string), a[1].(string))
		}
		bs, ss := strBytes(a[0]), strBytes(a[1])
		if len(ss) <= len(bs) && cx.BranchV(matchAt(bs, 0, ss)) {
			return mkStr(bs[len(ss):])
		}
		return normStr(a[0])
	})
	reg("strings.TrimSuffix", func(fr *frame, a []value) value {
		if allConcStr(a[0], a[1]) {
			return strings.TrimSuffix(a[0].(string), a[1].(string))
		}
		bs, ss := strBytes(a[0]), strBytes(a[1])
		if len(ss) <= len(bs) && cx.BranchV(matchAt(bs, len(bs)-len(ss), ss)) {
			return mkStr(bs[:len(bs)-len(ss)])
		}
		return normStr(a[0])
	})
	ssb("strings.EqualFold", strings.EqualFold)
	ssb("strings.ContainsAny", strings.ContainsAny)
	ssi("strings.Count", strings.Count)
	ssi("strings.LastIndex", strings.LastIndex)
	ssi("strings.IndexAny", strings.IndexAny)
	ssi("strings.Compare", strings.Compare)
	reg("strings.Fields", func(fr *frame, a []value) value {
		needConc("strings.Fields", a)
		return strSliceVal(strings.Fields(a[0].(string)))
	})
	reg("strings.SplitN", func(fr *frame, a []value) value {
		if allConcStr(a[0], a[1]) {
			return strSliceVal(strings.SplitN(a[0].(string), a[1].(string), int(asInt64(a[2]))))
		}
		return splitV(a[0], a[1], int(asInt64(a[2])))
	})
	reg("strings.IndexByte", func(fr *frame, a []value) value {
		if s, ok := a[0].(string); ok {
			if c, ok := a[1].(uint8); ok {
				return strings.IndexByte(s, c)
			}
		}
		return indexV(a[0], mkStr([]value{a[1]}))
	})
	reg("strings.ContainsRune", func(fr *frame, a []value) value {
		needConc("strings.ContainsRune", a)
		return strings.ContainsRune(a[0].(string), rune(asInt64(a[1])))
	})
	reg("strconv.FormatInt", func(fr *frame, a []value) value {
		if _, ok := a[0].(*Sym); ok && asInt64(a[1]) == 10 {
			return itoaV(a[0])
		}
		needConc("strconv.FormatInt", a)
		return strconv.FormatInt(asInt64(a[0]), int(asInt64(a[1])))
	})
	reg("strconv.ParseInt", func(fr *frame, a []value) value {
		needConc("strconv.ParseInt", a)
		n, err := strconv.ParseInt(a[0].(string), int(asInt64(a[1])), int(asInt64(a[2])))
		if err != nil {
			return tuple{n, mkError(err.Error())}
		}
		return tuple{n, nilError()}
	})
	reg("strconv.ParseBool", func(fr *frame, a []value) value {
		needConc("strconv.ParseBool", a)
		b, err := strconv.ParseBool(a[0].(string))
		if err != nil {
			return tuple{b, mkError(err.Error())}
		}
		return tuple{b, nilError()}
	})
	for name, f := range map[string]func(rune) bool{"unicode.IsLetter": unicode.IsLetter, "unicode.IsDigit": unicode.IsDigit, "unicode.IsLower": unicode.IsLower, "unicode.IsPunct": unicode.IsPunct, "unicode.IsNumber": unicode.IsNumber} {
		f := f
		name := name
		reg(name, func(fr *frame, a []value) value {
			if _, ok := a[0].(*Sym); ok {
				return f(rune(concretizeInt(a[0], name, 256)))
			}
			return f(rune(asInt64(a[0])))
		})
	}
}

// golang.org/x/text/message: only Printer.Sprintf("%d") with English thousands separators is used.
type xtextPrinter struct{}

func groupThousands(s string) string {
	neg := false
	if len(s) > 0 && s[0] == '-' {
		neg = true
		s = s[1:]
	}
	var out []byte
	for i := 0; i < len(s); i++ {
		if i > 0 && (len(s)-i)%3 == 0 {
			out = append(out, ',')
		}
		out = append(out, s[i])
	}
	if neg {
		return "-" + string(out)
	}
	return string(out)
}

func init() {
	extGlobals["golang.org/x/text/language.English"] = func(i *interpreter) value { return &opaqueObj{"language.English"} }
	reg("golang.org/x/text/message.NewPrinter", func(fr *frame, a []value) value {
		var v value = &xtextPrinter{}
		return &v
	})
	reg("(*golang.org/x/text/message.Printer).Sprintf", func(fr *frame, a []value) value {
		key := a[1]
		if ki, ok := key.(iface); ok {
			key = ki.v
		}
		format, _ := key.(string)
		args := a[2].([]value)
		if format != "%d" || len(args) != 1 {
			Unsupported("message.Printer.Sprintf(%q)", format)
		}
		arg := args[0].(iface)
		if _, ok := arg.v.(*Sym); ok {
			Unsupported("message.Printer.Sprintf of symbolic number")
		}
		return groupThousands(strconv.FormatInt(asInt64(arg.v), 10))
	})
}

// strings.Replacer: modelled for the common case used with text taken from files.
type replacerObj struct {
	olds, news []string
}

func init() {
	reg("strings.NewReplacer", func(fr *frame, a []value) value {
		args := a[0].([]value)
		if len(args)%2 == 1 {
			panic(targetPanic{v: mkError("strings.NewReplacer: odd argument count")})
		}
		r := &replacerObj{}
		for i := 0; i < len(args); i += 2 {
			o, ok1 := args[i].(string)
			n, ok2 := args[i+1].(string)
			if !ok1 || !ok2 {
				Unsupported("strings.NewReplacer with symbolic arguments")
			}
			r.olds = append(r.olds, o)
			r.news = append(r.news, n)
		}
		var v value = r
		return &v
	})
	reg("(*strings.Replacer).Replace", func(fr *frame, a []value) value {
		r := (*a[0].(*value)).(*replacerObj)
		if cs, ok := a[1].(string); ok {
			var on []string
			for i := range r.olds {
				on = append(on, r.olds[i], r.news[i])
			}
			return strings.NewReplacer(on...).Replace(cs)
		}
		for _, o := range r.olds {
			if len(o) != 1 {
				Unsupported("strings.Replacer with multi-byte patterns on symbolic input")
			}
		}
		var out []value
		for _, b := range strBytes(a[1]) {
			if c, ok := b.(uint8); ok {
				rep := false
				for i, o := range r.olds {
					if o[0] == c {
						out = append(out, strBytes(r.news[i])...)
						rep = true
						break
					}
				}
				if !rep {
					out = append(out, b)
				}
				continue
			}
			t := b.(*Sym).T
			conds := make([]*sym.Term, len(r.olds)+1)
			var none []*sym.Term
			for i, o := range r.olds {
				conds[i] = sym.And(append(append([]*sym.Term{}, none...), sym.Eq(t, sym.Int(int64(o[0]))))...)
				none = append(none, sym.Not(sym.Eq(t, sym.Int(int64(o[0])))))
			}
			conds[len(r.olds)] = sym.And(none...)
			k := cx.Choose(len(conds), conds)
			if k < len(r.olds) {
				out = append(out, strBytes(r.news[k])...)
			} else {
				out = append(out, b)
			}
		}
		return mkStr(out)
	})
}
