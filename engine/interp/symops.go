package interp

import (
	"fmt"
	"go/token"
	"go/types"
	"math"
	"math/big"

	"gosym/sym"
)

type runtimeError string

func (e runtimeError) Error() string { return "runtime error: " + string(e) }
func (e runtimeError) RuntimeError() {}

func mkSymBool(t *sym.Term) value {
	if t.IsConst() {
		return t.BV
	}
	return &Sym{T: t, K: types.Bool}
}

var (
	kindLo = map[types.BasicKind]*big.Int{}
	kindHi = map[types.BasicKind]*big.Int{}
	kindW  = map[types.BasicKind]uint{}
)

func init() {
	set := func(k types.BasicKind, w uint, signed bool) {
		kindW[k] = w
		if signed {
			kindLo[k] = new(big.Int).Neg(new(big.Int).Lsh(big.NewInt(1), w-1))
			kindHi[k] = new(big.Int).Sub(new(big.Int).Lsh(big.NewInt(1), w-1), big.NewInt(1))
		} else {
			kindLo[k] = big.NewInt(0)
			kindHi[k] = new(big.Int).Sub(new(big.Int).Lsh(big.NewInt(1), w), big.NewInt(1))
		}
	}
	set(types.Int, 64, true)
	set(types.Int8, 8, true)
	set(types.Int16, 16, true)
	set(types.Int32, 32, true)
	set(types.Int64, 64, true)
	set(types.Uint, 64, false)
	set(types.Uint8, 8, false)
	set(types.Uint16, 16, false)
	set(types.Uint32, 32, false)
	set(types.Uint64, 64, false)
	set(types.Uintptr, 64, false)
}

func isIntKind(k types.BasicKind) bool { _, ok := kindW[k]; return ok }

func isSignedKind(k types.BasicKind) bool {
	switch k {
	case types.Int, types.Int8, types.Int16, types.Int32, types.Int64:
		return true
	}
	return false
}

// kindOf returns the basic kind of a scalar value.
func kindOf(v value) types.BasicKind {
	switch v := v.(type) {
	case *Sym:
		return v.K
	case bool:
		return types.Bool
	case int:
		return types.Int
	case int8:
		return types.Int8
	case int16:
		return types.Int16
	case int32:
		return types.Int32
	case int64:
		return types.Int64
	case uint:
		return types.Uint
	case uint8:
		return types.Uint8
	case uint16:
		return types.Uint16
	case uint32:
		return types.Uint32
	case uint64:
		return types.Uint64
	case uintptr:
		return types.Uintptr
	case float32:
		return types.Float32
	case float64:
		return types.Float64
	}
	panic(fmt.Sprintf("kindOf: %T", v))
}

// termOf lifts a scalar value to a term.
func termOf(v value) *sym.Term {
	switch v := v.(type) {
	case *Sym:
		return v.T
	case bool:
		return sym.Bool(v)
	case int:
		return sym.Int(int64(v))
	case int8:
		return sym.Int(int64(v))
	case int16:
		return sym.Int(int64(v))
	case int32:
		return sym.Int(int64(v))
	case int64:
		return sym.Int(v)
	case uint:
		return sym.Uint(uint64(v))
	case uint8:
		return sym.Uint(uint64(v))
	case uint16:
		return sym.Uint(uint64(v))
	case uint32:
		return sym.Uint(uint64(v))
	case uint64:
		return sym.Uint(v)
	case uintptr:
		return sym.Uint(uint64(v))
	case float64:
		if math.IsNaN(v) || math.IsInf(v, 0) {
			Unsupported("non-finite float in symbolic expression")
		}
		return sym.RealF(v)
	case float32:
		return sym.RealF(float64(v))
	}
	panic(fmt.Sprintf("termOf: %T", v))
}

// concInt builds the concrete value of integer kind k from a big.Int already in range.
func concInt(k types.BasicKind, x *big.Int) value {
	switch k {
	case types.Int:
		return int(x.Int64())
	case types.Int8:
		return int8(x.Int64())
	case types.Int16:
		return int16(x.Int64())
	case types.Int32:
		return int32(x.Int64())
	case types.Int64:
		return x.Int64()
	case types.Uint:
		return uint(x.Uint64())
	case types.Uint8:
		return uint8(x.Uint64())
	case types.Uint16:
		return uint16(x.Uint64())
	case types.Uint32:
		return uint32(x.Uint64())
	case types.Uint64:
		return x.Uint64()
	case types.Uintptr:
		return uintptr(x.Uint64())
	}
	panic(fmt.Sprintf("concInt: kind %v", k))
}

// mkSymInt wraps a term as a value of integer kind k (folding constants).
func mkSymInt(t *sym.Term, k types.BasicKind) value {
	if t.IsConst() {
		return concInt(k, t.IV)
	}
	return &Sym{T: t, K: k}
}

func mkSymFloat(t *sym.Term) value {
	if t.IsConst() {
		f, _ := t.RV.Float64()
		return f
	}
	return &Sym{T: t, K: types.Float64}
}

func mkSym(t *sym.Term, k types.BasicKind) value {
	switch {
	case k == types.Bool:
		return mkSymBool(t)
	case k == types.Float64 || k == types.Float32:
		return mkSymFloat(t)
	}
	return mkSymInt(t, k)
}

// wrap reduces raw into the range of kind k with Go's wrap-around semantics.
func wrap(raw *sym.Term, k types.BasicKind) *sym.Term {
	lo, hi := kindLo[k], kindHi[k]
	if raw.Lo != nil && raw.Hi != nil && raw.Lo.Cmp(lo) >= 0 && raw.Hi.Cmp(hi) <= 0 {
		return raw
	}
	m := new(big.Int).Lsh(big.NewInt(1), kindW[k])
	// ((raw - lo) mod 2^w) + lo
	t := sym.Add(sym.ModFloor(sym.Sub(raw, sym.IntBig(lo)), sym.IntBig(m)), sym.IntBig(lo))
	return t
}

// bitsOf returns the term for bit i of non-negative x.
func bitOf(x *sym.Term, i uint) *sym.Term {
	p := new(big.Int).Lsh(big.NewInt(1), i)
	return sym.ModFloor(sym.DivFloor(x, sym.IntBig(p)), sym.Int(2))
}

func smallNonNeg(t *sym.Term) (uint, bool) {
	if t.Lo == nil || t.Hi == nil || t.Lo.Sign() < 0 || t.Hi.BitLen() > 16 {
		return 0, false
	}
	return uint(t.Hi.BitLen()), true
}

func isPow2Minus1(x *big.Int) (uint, bool) {
	if x.Sign() < 0 {
		return 0, false
	}
	y := new(big.Int).Add(x, big.NewInt(1))
	if y.BitLen() > 0 && new(big.Int).And(y, x).Sign() == 0 {
		return uint(y.BitLen() - 1), true
	}
	return 0, false
}

func symBitwise(op token.Token, a, b *sym.Term, k types.BasicKind) *sym.Term {
	// x & (2^n-1)
	if op == token.AND {
		if a.IsConst() {
			a, b = b, a
		}
		if b.IsConst() {
			if n, ok := isPow2Minus1(b.IV); ok {
				return sym.ModFloor(a, sym.IntBig(new(big.Int).Lsh(big.NewInt(1), n)))
			}
		}
	}
	na, oka := smallNonNeg(a)
	nb, okb := smallNonNeg(b)
	if !oka || !okb {
		Unsupported("bitwise %s on wide symbolic integers", op)
	}
	n := na
	if nb > n {
		n = nb
	}
	res := sym.Int(0)
	for i := uint(0); i < n; i++ {
		ba, bb := sym.Eq(bitOf(a, i), sym.Int(1)), sym.Eq(bitOf(b, i), sym.Int(1))
		var c *sym.Term
		switch op {
		case token.AND:
			c = sym.And(ba, bb)
		case token.OR:
			c = sym.Or(ba, bb)
		case token.XOR:
			c = sym.Not(sym.Eq(ba, bb))
		case token.AND_NOT:
			c = sym.And(ba, sym.Not(bb))
		}
		res = sym.Add(res, sym.Ite(c, sym.Int(1<<i), sym.Int(0)))
	}
	return res
}

// symBinop implements arithmetic on scalars when at least one operand is symbolic.
func symBinop(op token.Token, x, y value) value {
	k := kindOf(x)
	if _, ok := x.(*Sym); !ok && op != token.SHL && op != token.SHR {
		k = kindOf(y)
	}
	if op == token.SHL || op == token.SHR {
		k = kindOf(x)
	}
	switch op {
	case token.EQL:
		return symCompare("==", x, y)
	case token.NEQ:
		return notV(symCompare("==", x, y))
	case token.LSS:
		return symCompare("<", x, y)
	case token.LEQ:
		return symCompare("<=", x, y)
	case token.GTR:
		return symCompare("<", y, x)
	case token.GEQ:
		return symCompare("<=", y, x)
	}
	a, b := termOf(x), termOf(y)
	if k == types.Bool {
		switch op {
		case token.AND, token.LAND:
			return mkSymBool(sym.And(a, b))
		case token.OR, token.LOR:
			return mkSymBool(sym.Or(a, b))
		}
		panic(fmt.Sprintf("symBinop: bool %s", op))
	}
	if k == types.Float64 || k == types.Float32 {
		if k == types.Float32 {
			Unsupported("symbolic float32 arithmetic")
		}
		var r *sym.Term
		switch op {
		case token.ADD:
			r = sym.Add(a, b)
		case token.SUB:
			r = sym.Sub(a, b)
		case token.MUL:
			r = sym.Mul(a, b)
		case token.QUO:
			// IEEE division by zero gives Inf/NaN which the Real relaxation cannot express
			if cx.Branch(sym.Eq(b, sym.RealF(0))) {
				Unsupported("symbolic float division by zero")
			}
			r = sym.RDiv(a, b)
		default:
			panic(fmt.Sprintf("symBinop: float %s", op))
		}
		return mkSymFloat(sym.Rnd(r))
	}
	switch op {
	case token.ADD:
		return mkSymInt(wrap(sym.Add(a, b), k), k)
	case token.SUB:
		return mkSymInt(wrap(sym.Sub(a, b), k), k)
	case token.MUL:
		return mkSymInt(wrap(sym.Mul(a, b), k), k)
	case token.QUO, token.REM:
		if cx.Branch(sym.Eq(b, sym.Int(0))) {
			panic(runtimeError("integer divide by zero"))
		}
		if op == token.QUO {
			return mkSymInt(wrap(sym.Quo(a, b), k), k) // MinInt / -1 wraps
		}
		return mkSymInt(sym.Rem(a, b), k)
	case token.AND, token.OR, token.XOR, token.AND_NOT:
		return mkSymInt(symBitwise(op, a, b, k), k)
	case token.SHL, token.SHR:
		if !b.IsConst() {
			// small symbolic shift counts: fork over the values
			if b.Lo != nil && b.Hi != nil && b.Lo.Sign() >= 0 && b.Hi.Cmp(big.NewInt(64)) <= 0 {
				n := int(b.Hi.Int64()-b.Lo.Int64()) + 1
				conds := make([]*sym.Term, n)
				for i := range conds {
					conds[i] = sym.Eq(b, sym.Int(b.Lo.Int64()+int64(i)))
				}
				i := cx.Choose(n, conds)
				b = sym.Int(b.Lo.Int64() + int64(i))
			} else {
				Unsupported("shift by wide symbolic count")
			}
		}
		if b.IV.Sign() < 0 {
			panic(runtimeError("negative shift amount"))
		}
		n := uint(b.IV.Uint64())
		if b.IV.BitLen() > 16 || n >= kindW[k] {
			if op == token.SHL || !isSignedKind(k) {
				return concInt(k, big.NewInt(0))
			}
			n = kindW[k] - 1
		}
		p := sym.IntBig(new(big.Int).Lsh(big.NewInt(1), n))
		if op == token.SHL {
			return mkSymInt(wrap(sym.Mul(a, p), k), k)
		}
		return mkSymInt(sym.DivFloor(a, p), k)
	}
	panic(fmt.Sprintf("symBinop: unexpected op %s", op))
}

// symCompare returns x op y (op in "==", "<", "<=") as a bool-or-Sym value.
func symCompare(op string, x, y value) value {
	a, b := termOf(x), termOf(y)
	switch op {
	case "==":
		return mkSymBool(sym.Eq(a, b))
	case "<":
		return mkSymBool(sym.Lt(a, b))
	case "<=":
		return mkSymBool(sym.Le(a, b))
	}
	panic("symCompare: " + op)
}

func symUnop(op token.Token, x *Sym) value {
	switch op {
	case token.NOT:
		return mkSymBool(sym.Not(x.T))
	case token.SUB:
		if x.K == types.Float64 {
			return mkSymFloat(sym.Neg(x.T))
		}
		return mkSymInt(wrap(sym.Neg(x.T), x.K), x.K)
	case token.XOR:
		// ^x = -x-1 (signed) ; max-x (unsigned)
		if isSignedKind(x.K) {
			return mkSymInt(sym.Sub(sym.Neg(x.T), sym.Int(1)), x.K)
		}
		return mkSymInt(sym.Sub(sym.IntBig(kindHi[x.K]), x.T), x.K)
	}
	panic(fmt.Sprintf("symUnop: %s", op))
}

// symConv converts symbolic scalar x to basic kind dst.
func symConv(dst types.BasicKind, x *Sym) value {
	switch {
	case isIntKind(dst) && isIntKind(x.K):
		return mkSymInt(wrap(x.T, dst), dst)
	case (dst == types.Float64) && isIntKind(x.K):
		return mkSymFloat(sym.Rnd(sym.ToReal(x.T)))
	case dst == types.Float64 && x.K == types.Float64:
		return x
	case isIntKind(dst) && x.K == types.Float64:
		// truncation toward zero; out-of-range is implementation-defined in Go: require in range
		fl := sym.ToIntFloor(x.T)
		neg := sym.Lt(x.T, sym.RealF(0))
		tr := sym.Ite(neg, sym.Neg(sym.ToIntFloor(sym.Neg(x.T))), fl)
		lo, hi := kindLo[dst], kindHi[dst]
		// trunc(x) in [lo, hi]  <=>  lo-1 < x < hi+1 (stated on the real so that the query has no to_int)
		inRange := sym.And(sym.Lt(sym.ToReal(sym.IntBig(new(big.Int).Sub(lo, big.NewInt(1)))), x.T),
			sym.Lt(x.T, sym.ToReal(sym.IntBig(new(big.Int).Add(hi, big.NewInt(1))))))
		if !cx.Branch(inRange) {
			// implementation-defined in Go; amd64 (CVTTSD2SQ), the platform the replay runs on, gives
			// the "integer indefinite" value 0x8000000000000000 for every out-of-range int64 conversion
			if dst == types.Int64 || dst == types.Int {
				return mkSymInt(sym.IntBig(kindLo[types.Int64]), dst)
			}
			Unsupported("float to int conversion out of range")
		}
		return mkSymInt(tr, dst)
	case dst == types.Bool && x.K == types.Bool:
		return x
	}
	Unsupported("conversion of symbolic %v to %v", x.K, dst)
	return nil
}

// concretizeInt forks over the feasible values of a symbolic integer (range must be small).
func concretizeInt(v value, what string, limit int) int64 {
	s, ok := v.(*Sym)
	if !ok {
		return asInt64(v)
	}
	t := s.T
	if t.Lo == nil || t.Hi == nil {
		Unsupported("%s: unbounded symbolic integer", what)
	}
	span := new(big.Int).Sub(t.Hi, t.Lo)
	if !span.IsInt64() || span.Int64() >= int64(limit) {
		Unsupported("%s: symbolic integer range too wide (%v..%v)", what, t.Lo, t.Hi)
	}
	n := int(span.Int64()) + 1
	conds := make([]*sym.Term, n)
	for i := range conds {
		conds[i] = sym.Eq(t, sym.Int(t.Lo.Int64()+int64(i)))
	}
	i := cx.Choose(n, conds)
	return t.Lo.Int64() + int64(i)
}

// concretizeBound forks over the feasible values of a symbolic slice bound: outside 0..limit the
// target panics (one path), inside the values are enumerated.
func concretizeBound(v value, capacity, length int) int64 {
	s, ok := v.(*Sym)
	if !ok {
		return asInt64(v)
	}
	limit := capacity
	if length > limit {
		limit = length
	}
	if s.T.Lo != nil && s.T.Hi != nil {
		if span := new(big.Int).Sub(s.T.Hi, s.T.Lo); span.IsInt64() && span.Int64() < 4096 {
			return concretizeInt(v, "slice bound", 4096)
		}
	}
	if limit >= 4096 {
		Unsupported("slice bound: symbolic bound into %d elements", limit)
	}
	out := sym.Or(sym.Lt(s.T, sym.Int(0)), sym.Lt(sym.Int(int64(limit)), s.T))
	if cx.Branch(out) {
		panic(runtimeError("slice bounds out of range [symbolic] with capacity " + fmt.Sprint(limit)))
	}
	conds := make([]*sym.Term, limit+1)
	for i := range conds {
		conds[i] = sym.Eq(s.T, sym.Int(int64(i)))
	}
	return int64(cx.Choose(limit+1, conds))
}
