package interp

import (
	"fmt"
	"go/types"
	"strings"

	"golang.org/x/tools/go/ssa"
)

// modelFn implements an external function on engine values.
type modelFn func(fr *frame, args []value) value

// models maps ssa.Function.String() to its model.
var models = map[string]modelFn{}

func reg(name string, f modelFn) {
	if _, dup := models[name]; dup {
		panic("duplicate model " + name)
	}
	models[name] = f
}

// ModelNames lists the registered models.
func ModelNames() []string {
	return sortedKeys(models)
}

func concStr(v value) (string, bool) {
	s, ok := v.(string)
	return s, ok
}

func allConcStr(vs ...value) bool {
	for _, v := range vs {
		if _, ok := v.(string); !ok {
			return false
		}
	}
	return true
}

func isConcScalar(v value) bool {
	switch v.(type) {
	case bool, int, int8, int16, int32, int64, uint, uint8, uint16, uint32, uint64, uintptr, float32, float64, string:
		return true
	}
	return false
}

// strSliceVal converts a Go []string to an engine slice.
func strSliceVal(ss []string) value {
	out := make([]value, len(ss))
	for i, s := range ss {
		out[i] = s
	}
	return out
}

// model-owned named types: zero values are engine objects.
func zeroModel(t *types.Named) (value, bool) {
	obj := t.Obj()
	if obj.Pkg() == nil {
		return nil, false
	}
	switch obj.Pkg().Path() + "." + obj.Name() {
	case "time.Time":
		return timeVal{}, true
	case "sync.Map":
		return &syncMap{m: makeMap(types.NewInterfaceType(nil, nil))}, true
	case "sync.Mutex", "sync.RWMutex":
		return &syncMutex{}, true
	case "sync.WaitGroup":
		return &syncWaitGroup{}, true
	case "sync.Once":
		return &syncOnce{}, true
	case "bytes.Buffer":
		return &bytesBuffer{}, true
	case "strings.Builder":
		return &bytesBuffer{}, true
	case "reflect.Value":
		return reflectValue{}, true
	}
	return nil, false
}

func isModelObject(v value) bool {
	switch v.(type) {
	case timeVal, *syncMap, *syncMutex, *syncWaitGroup, *syncOnce, *bytesBuffer, *regexpObj, *bufioReader, *stringsReader, reflectValue, *opaqueObj, *xtextPrinter, *replacerObj, *osFile:
		return true
	}
	return false
}

// opaqueObj stands for an external object the engine does not model (os.Stdout etc.).
type opaqueObj struct{ name string }

var extGlobals = map[string]func(i *interpreter) value{}

// externalGlobal returns the address of a package-level variable of an external, non-interpreted package.
func (i *interpreter) externalGlobal(g *ssa.Global) *value {
	name := g.Pkg.Pkg.Path() + "." + g.Name()
	mk, ok := extGlobals[name]
	if !ok {
		if strings.HasPrefix(g.Name(), "init$guard") {
			v := value(true)
			i.globals[g] = &v
			return &v
		}
		if i.lenient {
			v := zero(mustDeref(g.Type()))
			return &v
		}
		Unsupported("external global %s", name)
	}
	v := mk(i)
	i.globals[g] = &v
	return &v
}

// orderForRange returns the entries in the order a `range` will visit them.
// With map-order exploration one iteration-order policy is chosen per path (an n-ary decision at
// the first map range) and applied to every map range of that path: insertion order, reversed,
// rotated by one, adjacent pairs swapped. (Exploring an independent order at every range multiplies
// paths by n! per range; a global policy still exposes any dependence on iteration order that shows
// under one of these four orders.)
func orderForRange(es []*mapEntry) []*mapEntry {
	if !cx.MapOrder || len(es) < 2 {
		return es
	}
	if cx.mapPolicy < 0 {
		cx.mapPolicy = cx.Choose(4, nil)
		if cx.choices == nil {
			cx.choices = map[string]string{}
		}
		cx.choices["map-order-policy#0"] = fmt.Sprint(cx.mapPolicy)
	}
	n := len(es)
	out := make([]*mapEntry, n)
	switch cx.mapPolicy {
	case 0:
		return es
	case 1:
		for i := range es {
			out[i] = es[n-1-i]
		}
	case 2:
		for i := range es {
			out[i] = es[(i+1)%n]
		}
	default:
		copy(out, es)
		for i := 0; i+1 < n; i += 2 {
			out[i], out[i+1] = out[i+1], out[i]
		}
	}
	return out
}

func permutations(n int) [][]int {
	var res [][]int
	var rec func(cur []int, used []bool)
	rec = func(cur []int, used []bool) {
		if len(cur) == n {
			res = append(res, append([]int(nil), cur...))
			return
		}
		for i := 0; i < n; i++ {
			if !used[i] {
				used[i] = true
				rec(append(cur, i), used)
				used[i] = false
			}
		}
	}
	rec(nil, make([]bool, n))
	return res
}

// errVal builds a Go error value with the given message.
func errVal(format string, args ...interface{}) value {
	return mkError(fmt.Sprintf(format, args...))
}

func nilError() value { return iface{} }

// ifaceOf wraps v of static type t.
func ifaceOf(t types.Type, v value) iface { return iface{t: t, v: v} }

func init() {
	// package initialisers of external packages are no-ops (handled in callSSA)
	reg("runtime/debug.Stack", func(fr *frame, args []value) value {
		return strBytes("goroutine 1 [running]:\n(stack elided by gosym)\n")
	})
	reg("(runtime.errorString).Error", func(fr *frame, args []value) value {
		return strConcat("runtime error: ", args[0])
	})
}
