package interp

import (
	"go/types"
	"regexp"
	"regexp/syntax"
	"strings"
	"unicode/utf8"

	"gosym/sym"
)

// regexpObj is a compiled pattern: the real regexp for concrete subjects and
// the real regexp/syntax program for the ported backtracker on symbolic ones.
type regexpObj struct {
	expr   string
	re     *regexp.Regexp
	prog   *syntax.Prog
	ncap   int
	ascii  map[*syntax.Inst]*[128]bool
	onepos bool // anchored at start of text
	// longest: leftmost-longest matching (Regexp.Longest). As in regexp/backtrack.go a match is
	// recorded when it is the first or ends later than the recorded one, and the search goes on
	// unless the match used the entire text.
	longest bool
}

var regexpCache = map[string]*regexpObj{}

func compileRegexp(expr string) (*regexpObj, error) {
	if r, ok := regexpCache[expr]; ok {
		return r, nil
	}
	re, err := regexp.Compile(expr)
	if err != nil {
		return nil, err
	}
	rs, err := syntax.Parse(expr, syntax.Perl)
	if err != nil {
		return nil, err
	}
	ncap := rs.MaxCap()
	rs = rs.Simplify()
	prog, err := syntax.Compile(rs)
	if err != nil {
		return nil, err
	}
	r := &regexpObj{expr: expr, re: re, prog: prog, ncap: ncap, ascii: map[*syntax.Inst]*[128]bool{}}
	r.onepos = prog.StartCond()&syntax.EmptyBeginText != 0
	regexpCache[expr] = r
	return r, nil
}

func (r *regexpObj) asciiSet(in *syntax.Inst) *[128]bool {
	if s, ok := r.ascii[in]; ok {
		return s
	}
	var s [128]bool
	for c := 0; c < 128; c++ {
		s[c] = in.MatchRune(rune(c))
	}
	r.ascii[in] = &s
	return &s
}

func setTerm(t *sym.Term, s *[128]bool) *sym.Term {
	var ds []*sym.Term
	for a := 0; a < 128; {
		if !s[a] {
			a++
			continue
		}
		b := a
		for b+1 < 128 && s[b+1] {
			b++
		}
		if a == b {
			ds = append(ds, sym.Eq(t, sym.Int(int64(a))))
		} else {
			ds = append(ds, inRange(t, int64(a), int64(b)))
		}
		a = b + 1
	}
	return sym.Or(ds...)
}

type reMatcher struct {
	r       *regexpObj
	bs      []value
	visited map[[2]int]bool
	cap     []int
	matched bool
	mcap    []int
}

// runeAt returns the rune at pos: either concrete (r, w) or a symbolic ASCII byte term.
func (m *reMatcher) runeAt(pos int) (r rune, t *sym.Term, w int) {
	if pos >= len(m.bs) {
		return -1, nil, 0
	}
	b := m.bs[pos]
	if c, ok := b.(uint8); ok && c < utf8.RuneSelf {
		return rune(c), nil, 1
	}
	if s, ok := b.(*Sym); ok {
		if cx.Branch(sym.Lt(s.T, sym.Int(utf8.RuneSelf))) {
			return 0, s.T, 1
		}
	}
	rv, w := decodeRuneAt(m.bs, pos)
	rc, ok := rv.(int32)
	if !ok {
		Unsupported("regexp: symbolic multi-byte rune")
	}
	return rune(rc), nil, w
}

// runeBefore returns the rune ending at pos (for \b, ^ in multi-line mode).
func (m *reMatcher) runeBefore(pos int) (r rune, t *sym.Term) {
	if pos <= 0 {
		return -1, nil
	}
	b := m.bs[pos-1]
	if c, ok := b.(uint8); ok && c < utf8.RuneSelf {
		return rune(c), nil
	}
	if s, ok := b.(*Sym); ok {
		if cx.Branch(sym.Lt(s.T, sym.Int(utf8.RuneSelf))) {
			return 0, s.T
		}
		Unsupported("regexp: symbolic non-ASCII byte before an empty-width assertion")
	}
	// concrete non-ASCII: find rune start
	start := pos - 1
	for start > 0 && pos-start < 4 {
		if c, ok := m.bs[start].(uint8); ok && utf8.RuneStart(c) {
			break
		}
		start--
	}
	buf := make([]byte, 0, 4)
	for j := start; j < pos; j++ {
		c, ok := m.bs[j].(uint8)
		if !ok {
			Unsupported("regexp: symbolic byte inside multi-byte sequence")
		}
		buf = append(buf, c)
	}
	rr, _ := utf8.DecodeLastRune(buf)
	return rr, nil
}

func isWordRune(r rune) bool {
	return 'A' <= r && r <= 'Z' || 'a' <= r && r <= 'z' || '0' <= r && r <= '9' || r == '_'
}

func wordTerm(t *sym.Term) *sym.Term {
	return sym.Or(inRange(t, 'A', 'Z'), inRange(t, 'a', 'z'), inRange(t, '0', '9'), sym.Eq(t, sym.Int('_')))
}

// emptyOK decides the empty-width condition op at pos.
func (m *reMatcher) emptyOK(op syntax.EmptyOp, pos int) bool {
	if op&syntax.EmptyBeginText != 0 && pos != 0 {
		return false
	}
	if op&syntax.EmptyEndText != 0 && pos != len(m.bs) {
		return false
	}
	if op&syntax.EmptyBeginLine != 0 && pos != 0 {
		r, t := m.runeBefore(pos)
		if t != nil {
			if !cx.Branch(sym.Eq(t, sym.Int('\n'))) {
				return false
			}
		} else if r != '\n' {
			return false
		}
	}
	if op&syntax.EmptyEndLine != 0 && pos != len(m.bs) {
		r, t, _ := m.runeAt(pos)
		if t != nil {
			if !cx.Branch(sym.Eq(t, sym.Int('\n'))) {
				return false
			}
		} else if r != '\n' {
			return false
		}
	}
	if op&(syntax.EmptyWordBoundary|syntax.EmptyNoWordBoundary) != 0 {
		w1 := false
		if pos > 0 {
			r, t := m.runeBefore(pos)
			if t != nil {
				w1 = cx.Branch(wordTerm(t))
			} else {
				w1 = isWordRune(r)
			}
		}
		w2 := false
		if pos < len(m.bs) {
			r, t, _ := m.runeAt(pos)
			if t != nil {
				w2 = cx.Branch(wordTerm(t))
			} else {
				w2 = isWordRune(r)
			}
		}
		boundary := w1 != w2
		if op&syntax.EmptyWordBoundary != 0 && !boundary {
			return false
		}
		if op&syntax.EmptyNoWordBoundary != 0 && boundary {
			return false
		}
	}
	return true
}

// try runs the program from pc at pos (leftmost-first); returns true at the first match.
func (m *reMatcher) try(pc uint32, pos int) bool {
	for {
		key := [2]int{int(pc), pos}
		in := &m.r.prog.Inst[pc]
		switch in.Op {
		case syntax.InstFail:
			return false
		case syntax.InstAlt, syntax.InstAltMatch:
			if m.visited[key] {
				return false
			}
			m.visited[key] = true
			saved := append([]int(nil), m.cap...)
			if m.try(in.Out, pos) {
				return true
			}
			copy(m.cap, saved)
			pc = in.Arg
			continue
		case syntax.InstCapture:
			if int(in.Arg) < len(m.cap) {
				old := m.cap[in.Arg]
				m.cap[in.Arg] = pos
				if m.try(in.Out, pos) {
					return true
				}
				m.cap[in.Arg] = old
				return false
			}
			pc = in.Out
			continue
		case syntax.InstEmptyWidth:
			if !m.emptyOK(syntax.EmptyOp(in.Arg), pos) {
				return false
			}
			pc = in.Out
			continue
		case syntax.InstNop:
			pc = in.Out
			continue
		case syntax.InstMatch:
			if !m.matched || (m.r.longest && pos > m.mcap[1]) {
				m.mcap = append([]int(nil), m.cap...)
				m.mcap[1] = pos
			}
			m.matched = true
			if !m.r.longest || pos == len(m.bs) {
				return true
			}
			return false // keep looking for a longer match
		case syntax.InstRune, syntax.InstRune1, syntax.InstRuneAny, syntax.InstRuneAnyNotNL:
			if m.visited[key] {
				return false
			}
			m.visited[key] = true
			r, t, w := m.runeAt(pos)
			if w == 0 {
				return false
			}
			if t != nil {
				set := m.r.asciiSet(in)
				if !cx.Branch(setTerm(t, set)) {
					return false
				}
			} else if !in.MatchRune(r) {
				return false
			}
			pos += w
			pc = in.Out
			continue
		}
		panic("regexp: unexpected instruction")
	}
}

// exec finds the leftmost-first match starting at or after from; returns capture positions or nil.
func (r *regexpObj) exec(bs []value, from int) []int {
	m := &reMatcher{r: r, bs: bs}
	for pos := from; pos <= len(bs); pos++ {
		if r.onepos && pos != 0 {
			break
		}
		m.visited = map[[2]int]bool{}
		m.cap = make([]int, 2*(r.ncap+1))
		for i := range m.cap {
			m.cap[i] = -1
		}
		m.cap[0] = pos
		m.matched = false
		if m.try(uint32(r.prog.Start), pos) || m.matched {
			m.mcap[0] = pos
			return m.mcap
		}
		// advance by one rune
		if pos < len(bs) {
			if c, ok := bs[pos].(uint8); ok && c >= utf8.RuneSelf {
				_, _, w := m.runeAt(pos)
				if w > 1 {
					pos += w - 1
				}
			}
		}
	}
	return nil
}

func regexpArg(v value) *regexpObj {
	p := v.(*value)
	if p == nil {
		panic(runtimeError("invalid memory address or nil pointer dereference"))
	}
	return (*p).(*regexpObj)
}

func init() {
	compile := func(must bool) modelFn {
		return func(fr *frame, a []value) value {
			expr, ok := a[0].(string)
			if !ok {
				Unsupported("regexp compile of symbolic pattern")
			}
			r, err := compileRegexp(expr)
			if err != nil {
				if must {
					panic(targetPanic{v: mkError("regexp: Compile(" + expr + "): " + err.Error())})
				}
				return tuple{(*value)(nil), mkError(err.Error())}
			}
			var v value = r
			if must {
				return &v
			}
			return tuple{&v, nilError()}
		}
	}
	reg("(*regexp.Regexp).Longest", func(fr *frame, a []value) value {
		p := a[0].(*value)
		if p == nil {
			panic(runtimeError("invalid memory address or nil pointer dereference"))
		}
		clone := *(*p).(*regexpObj) // compiled patterns are cached by expression: do not change the shared one
		clone.longest = true
		*p = &clone
		return nil
	})
	reg("regexp.MustCompile", compile(true))
	reg("regexp.Compile", compile(false))
	reg("(*regexp.Regexp).String", func(fr *frame, a []value) value { return regexpArg(a[0]).expr })
	reg("(*regexp.Regexp).MatchString", func(fr *frame, a []value) value {
		r := regexpArg(a[0])
		if cs, ok := a[1].(string); ok {
			return r.re.MatchString(cs)
		}
		return r.exec(strBytes(a[1]), 0) != nil
	})
	reg("(*regexp.Regexp).Match", func(fr *frame, a []value) value {
		r := regexpArg(a[0])
		s := mkStr(a[1].([]value))
		if cs, ok := s.(string); ok {
			return r.re.MatchString(cs)
		}
		return r.exec(strBytes(s), 0) != nil
	})
	reg("(*regexp.Regexp).FindStringSubmatch", func(fr *frame, a []value) value {
		r := regexpArg(a[0])
		if cs, ok := a[1].(string); ok {
			res := r.re.FindStringSubmatch(cs)
			if res == nil {
				return []value(nil)
			}
			return strSliceVal(res)
		}
		bs := strBytes(a[1])
		caps := r.exec(bs, 0)
		if caps == nil {
			return []value(nil)
		}
		out := make([]value, r.ncap+1)
		for i := range out {
			if caps[2*i] >= 0 && caps[2*i+1] >= 0 {
				out[i] = mkStr(bs[caps[2*i]:caps[2*i+1]])
			} else {
				out[i] = ""
			}
		}
		return out
	})
	reg("(*regexp.Regexp).FindString", func(fr *frame, a []value) value {
		r := regexpArg(a[0])
		if cs, ok := a[1].(string); ok {
			return r.re.FindString(cs)
		}
		bs := strBytes(a[1])
		caps := r.exec(bs, 0)
		if caps == nil {
			return ""
		}
		return mkStr(bs[caps[0]:caps[1]])
	})
	reg("(*regexp.Regexp).ReplaceAllString", func(fr *frame, a []value) value {
		r := regexpArg(a[0])
		if allConcStr(a[1], a[2]) {
			return r.re.ReplaceAllString(a[1].(string), a[2].(string))
		}
		repl, ok := a[2].(string)
		if !ok || strings.Contains(repl, "$") {
			Unsupported("ReplaceAllString with symbolic or templated replacement")
		}
		src := strBytes(a[1])
		var out []value
		lastMatchEnd := 0
		searchPos := 0
		for searchPos <= len(src) {
			caps := r.exec(src, searchPos)
			if caps == nil {
				break
			}
			out = append(out, src[lastMatchEnd:caps[0]]...)
			if caps[1] > lastMatchEnd || caps[0] == 0 {
				out = append(out, strBytes(repl)...)
			}
			lastMatchEnd = caps[1]
			width := 0
			if searchPos < len(src) {
				width = 1
				if c, ok := src[searchPos].(uint8); ok && c >= utf8.RuneSelf {
					_, width = decodeRuneAt(src, searchPos)
				} else if s, ok := src[searchPos].(*Sym); ok {
					if !cx.Branch(sym.Lt(s.T, sym.Int(utf8.RuneSelf))) {
						_, width = decodeRuneAt(src, searchPos)
					}
				}
			}
			if searchPos+width > caps[1] {
				searchPos += width
			} else if searchPos+1 > caps[1] {
				searchPos++
			} else {
				searchPos = caps[1]
			}
		}
		out = append(out, src[lastMatchEnd:]...)
		return mkStr(out)
	})
	_ = types.Typ
}
