package interp

import (
	"fmt"
	"go/types"
	"sort"
	"strings"

	"golang.org/x/tools/go/ssa"
)

// Happens-before data race monitor (vector clocks, FastTrack-style shadow state per heap cell).
//
// It is switched on per harness (Options.Race). Goroutines carry vector clocks; the synchronising
// operations of the Go memory model that the engine models add the edges: go statement, channel
// send/receive (including the capacity edge of buffered channels and close), Mutex, WaitGroup,
// sync.Map (per map, which adds more order than the real per-key rule: races can be missed, not
// invented), sync.Once. Every load and store that the *interpreted* code makes through a pointer
// (struct fields, slice and array elements, globals, captured variables) and every map operation is
// checked against the last write and the reads since. Accesses made inside engine models (append
// into spare capacity, sort swaps, copy) are not seen.
//
// A race is a property of the execution under the memory model, not of the explored interleaving:
// two conflicting accesses that are unordered are reported even when the cooperative scheduler ran
// them far apart. It cannot be replayed natively in a deterministic way; race reports therefore
// have their own kind ("race") and are not subject to the replay rule.

type vclock []int

func (v vclock) get(g int) int {
	if g < len(v) {
		return v[g]
	}
	return 0
}

func (v *vclock) set(g, c int) {
	for len(*v) <= g {
		*v = append(*v, 0)
	}
	(*v)[g] = c
}

func (v *vclock) join(o vclock) {
	for g, c := range o {
		if c > v.get(g) {
			v.set(g, c)
		}
	}
}

func (v vclock) copy() vclock { return append(vclock(nil), v...) }

type raceAccess struct {
	g, clk int
	where  string // function that made the access
}

type raceShadow struct {
	w     *raceAccess
	reads map[int]raceAccess
}

type raceState struct {
	on     bool
	cells  map[*value]*raceShadow
	maps   map[*Map]*raceShadow
	found  map[string]string // location -> description of the first race found there
	order  []string
	ignore func(loc string) bool
}

var race raceState

func raceReset(on bool) {
	race = raceState{on: on}
	if on {
		race.cells = map[*value]*raceShadow{}
		race.maps = map[*Map]*raceShadow{}
		race.found = map[string]string{}
	}
}

// ---- clocks of goroutines ----

func (g *G) tick() {
	g.vc.set(g.id, g.vc.get(g.id)+1)
}

func raceGo(parent, child *G) {
	if !race.on {
		return
	}
	child.vc = parent.vc.copy()
	child.vc.set(child.id, 1)
	parent.tick()
}

func raceCur() *G {
	if sched == nil {
		return nil
	}
	return sched.cur
}

// raceRelease stores the current goroutine's clock into *into (joined with what is there).
func raceRelease(into *vclock) {
	if !race.on {
		return
	}
	g := raceCur()
	into.join(g.vc)
	g.tick()
}

// raceAcquire joins from into the current goroutine's clock.
func raceAcquire(from vclock) {
	if !race.on || from == nil {
		return
	}
	raceCur().vc.join(from)
}

// ---- memory accesses ----

func describeAddr(v ssa.Value) string {
	switch x := v.(type) {
	case *ssa.FieldAddr:
		st := mustDeref(x.X.Type()).Underlying().(*types.Struct)
		return typeShort(mustDeref(x.X.Type())) + "." + st.Field(x.Field).Name()
	case *ssa.IndexAddr:
		return "element of " + typeShort(x.X.Type())
	case *ssa.Global:
		return "global " + x.Name()
	case *ssa.FreeVar:
		return "captured variable " + x.Name()
	case *ssa.Alloc:
		if x.Comment != "" {
			return "variable " + x.Comment
		}
	}
	return "*" + typeShort(mustDeref(v.Type()))
}

func typeShort(t types.Type) string {
	s := types.TypeString(t, func(p *types.Package) string { return "" })
	return strings.TrimPrefix(s, "*")
}

func raceFuncName(fr *frame) string {
	if fr == nil || fr.fn == nil {
		return "?"
	}
	name := fr.fn.String()
	// "(*github.com/x/y/v39.T).M$1" -> "(*T).M$1", "github.com/x/y/v39/util.F" -> "util.F"
	for {
		i := strings.Index(name, "/")
		if i < 0 {
			break
		}
		j := i
		for j > 0 && (name[j-1] == '.' || name[j-1] == '-' || name[j-1] == '_' || name[j-1] >= '0' && name[j-1] <= '9' || name[j-1] >= 'a' && name[j-1] <= 'z' || name[j-1] >= 'A' && name[j-1] <= 'Z') {
			j--
		}
		name = name[:j] + name[i+1:]
	}
	if i := strings.Index(name, "v39."); i >= 0 {
		name = name[:i] + name[i+4:]
	}
	return name
}

func raceReport(loc, kind string, prev raceAccess, cur raceAccess) {
	if race.ignore != nil && race.ignore(loc) {
		return
	}
	if _, dup := race.found[loc]; dup {
		return
	}
	race.found[loc] = fmt.Sprintf("%s: goroutine %d in %s and goroutine %d in %s are not ordered by any synchronisation", kind, prev.g, prev.where, cur.g, cur.where)
	race.order = append(race.order, loc)
}

func (sh *raceShadow) read(g *G, loc, where string) {
	if w := sh.w; w != nil && w.g != g.id && w.clk > g.vc.get(w.g) {
		raceReport(loc, "write then read", *w, raceAccess{g.id, 0, where})
	}
	if sh.reads == nil {
		sh.reads = map[int]raceAccess{}
	}
	sh.reads[g.id] = raceAccess{g.id, g.vc.get(g.id), where}
}

func (sh *raceShadow) write(g *G, loc, where string) {
	if w := sh.w; w != nil && w.g != g.id && w.clk > g.vc.get(w.g) {
		raceReport(loc, "write then write", *w, raceAccess{g.id, 0, where})
	}
	for rg, r := range sh.reads {
		if rg != g.id && r.clk > g.vc.get(rg) {
			raceReport(loc, "read then write", r, raceAccess{g.id, 0, where})
		}
	}
	sh.w = &raceAccess{g.id, g.vc.get(g.id), where}
	sh.reads = nil
}

func raceOnRepo(fr *frame) bool {
	return race.on && fr != nil && fr.info != nil && fr.info.isRepo && !strings.Contains(fr.fn.String(), "Verif") && !strings.Contains(fr.fn.String(), ".v")
}

func raceLoad(fr *frame, addrV ssa.Value, addr *value) {
	if !raceOnRepo(fr) || addr == nil || raceLocal(addrV) {
		return
	}
	sh := race.cells[addr]
	if sh == nil {
		sh = &raceShadow{}
		race.cells[addr] = sh
	}
	sh.read(raceCur(), describeAddr(addrV), raceFuncName(fr))
}

func raceStore(fr *frame, addrV ssa.Value, addr *value) {
	if !raceOnRepo(fr) || addr == nil || raceLocal(addrV) {
		return
	}
	sh := race.cells[addr]
	if sh == nil {
		sh = &raceShadow{}
		race.cells[addr] = sh
	}
	sh.write(raceCur(), describeAddr(addrV), raceFuncName(fr))
}

// raceLocal: a non-escaping local (an Alloc that is not on the heap) cannot be shared.
func raceLocal(v ssa.Value) bool {
	a, ok := v.(*ssa.Alloc)
	return ok && !a.Heap
}

func raceMap(fr *frame, m *Map, mapV ssa.Value, write bool) {
	if !raceOnRepo(fr) || m == nil {
		return
	}
	sh := race.maps[m]
	if sh == nil {
		sh = &raceShadow{}
		race.maps[m] = sh
	}
	loc := "map " + describeMapValue(mapV)
	if write {
		sh.write(raceCur(), loc, raceFuncName(fr))
	} else {
		sh.read(raceCur(), loc, raceFuncName(fr))
	}
}

func describeMapValue(v ssa.Value) string {
	if v == nil {
		return "(deleted from)"
	}
	if u, ok := v.(*ssa.UnOp); ok {
		return describeAddr(u.X)
	}
	return typeShort(v.Type())
}

// raceFindings returns the races of this path as "location: description", sorted.
func raceFindings() []string {
	var out []string
	for _, loc := range race.order {
		out = append(out, loc+" :: "+race.found[loc])
	}
	sort.Strings(out)
	return out
}
