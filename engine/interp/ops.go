// Adapted from golang.org/x/tools/go/ssa/interp (BSD-3-Clause, see
// ../third_party/LICENSE.x-tools). Copyright 2013 The Go Authors.
// Changes: symbolic scalars and strings, engine maps and channels, model-owned types.

package interp

import (
	"bytes"
	"fmt"
	"go/constant"
	"go/token"
	"go/types"
	"os"
	"unsafe"

	"golang.org/x/tools/go/ssa"
)

// constValue returns the value of the constant with the
// dynamic type tag appropriate for c.Type().
func constValue(c *ssa.Const) value {
	if c.Value == nil {
		return zero(c.Type()) // typed zero
	}
	// c is not a type parameter so it's underlying type is basic.

	if t, ok := c.Type().Underlying().(*types.Basic); ok {
		// TODO(adonovan): eliminate untyped constants from SSA form.
		switch t.Kind() {
		case types.Bool, types.UntypedBool:
			return constant.BoolVal(c.Value)
		case types.Int, types.UntypedInt:
			// Assume sizeof(int) is same on host and target.
			return int(c.Int64())
		case types.Int8:
			return int8(c.Int64())
		case types.Int16:
			return int16(c.Int64())
		case types.Int32, types.UntypedRune:
			return int32(c.Int64())
		case types.Int64:
			return c.Int64()
		case types.Uint:
			// Assume sizeof(uint) is same on host and target.
			return uint(c.Uint64())
		case types.Uint8:
			return uint8(c.Uint64())
		case types.Uint16:
			return uint16(c.Uint64())
		case types.Uint32:
			return uint32(c.Uint64())
		case types.Uint64:
			return c.Uint64()
		case types.Uintptr:
			// Assume sizeof(uintptr) is same on host and target.
			return uintptr(c.Uint64())
		case types.Float32:
			return float32(c.Float64())
		case types.Float64, types.UntypedFloat:
			return c.Float64()
		case types.Complex64:
			return complex64(c.Complex128())
		case types.Complex128, types.UntypedComplex:
			return c.Complex128()
		case types.String, types.UntypedString:
			if c.Value.Kind() == constant.String {
				return constant.StringVal(c.Value)
			}
			return string(rune(c.Int64()))
		}
	}

	panic(fmt.Sprintf("constValue: %s", c))
}

// fitsInt returns true if x fits in type int according to sizes.
func fitsInt(x int64, sizes types.Sizes) bool {
	intSize := sizes.Sizeof(types.Typ[types.Int])
	if intSize < sizes.Sizeof(types.Typ[types.Int64]) {
		maxInt := int64(1)<<((intSize*8)-1) - 1
		minInt := -int64(1) << ((intSize * 8) - 1)
		return minInt <= x && x <= maxInt
	}
	return true
}

// asInt64 converts x, which must be an integer, to an int64.
//
// Callers that need a value directly usable as an int should combine this with fitsInt().
func asInt64(x value) int64 {
	switch x := x.(type) {
	case int:
		return int64(x)
	case int8:
		return int64(x)
	case int16:
		return int64(x)
	case int32:
		return int64(x)
	case int64:
		return x
	case uint:
		return int64(x)
	case uint8:
		return int64(x)
	case uint16:
		return int64(x)
	case uint32:
		return int64(x)
	case uint64:
		return int64(x)
	case uintptr:
		return int64(x)
	case *Sym:
		return concretizeInt(x, "integer operand", 4096)
	}
	panic(fmt.Sprintf("cannot convert %T to int64", x))
}

// asUint64 converts x, which must be an unsigned integer, to a uint64
// suitable for use as a bitwise shift count.
func asUint64(x value) uint64 {
	switch x := x.(type) {
	case uint:
		return uint64(x)
	case uint8:
		return uint64(x)
	case uint16:
		return uint64(x)
	case uint32:
		return uint64(x)
	case uint64:
		return x
	case uintptr:
		return uint64(x)
	}
	panic(fmt.Sprintf("cannot convert %T to uint64", x))
}

// asUnsigned returns the value of x, which must be an integer type, as its equivalent unsigned type,
// and returns true if x is non-negative.
func asUnsigned(x value) (value, bool) {
	switch x := x.(type) {
	case int:
		return uint(x), x >= 0
	case int8:
		return uint8(x), x >= 0
	case int16:
		return uint16(x), x >= 0
	case int32:
		return uint32(x), x >= 0
	case int64:
		return uint64(x), x >= 0
	case uint, uint8, uint32, uint64, uintptr:
		return x, true
	}
	panic(fmt.Sprintf("cannot convert %T to unsigned", x))
}

// zero returns a new "zero" value of the specified type.
func zero(t types.Type) value {
	switch t := t.(type) {
	case *types.Basic:
		if t.Kind() == types.UntypedNil {
			panic("untyped nil has no zero value")
		}
		if t.Info()&types.IsUntyped != 0 {
			// TODO(adonovan): make it an invariant that
			// this is unreachable.  Currently some
			// constants have 'untyped' types when they
			// should be defaulted by the typechecker.
			t = types.Default(t).(*types.Basic)
		}
		switch t.Kind() {
		case types.Bool:
			return false
		case types.Int:
			return int(0)
		case types.Int8:
			return int8(0)
		case types.Int16:
			return int16(0)
		case types.Int32:
			return int32(0)
		case types.Int64:
			return int64(0)
		case types.Uint:
			return uint(0)
		case types.Uint8:
			return uint8(0)
		case types.Uint16:
			return uint16(0)
		case types.Uint32:
			return uint32(0)
		case types.Uint64:
			return uint64(0)
		case types.Uintptr:
			return uintptr(0)
		case types.Float32:
			return float32(0)
		case types.Float64:
			return float64(0)
		case types.Complex64:
			return complex64(0)
		case types.Complex128:
			return complex128(0)
		case types.String:
			return ""
		case types.UnsafePointer:
			return unsafe.Pointer(nil)
		default:
			panic(fmt.Sprint("zero for unexpected type:", t))
		}
	case *types.Pointer:
		return (*value)(nil)
	case *types.Array:
		a := make(array, t.Len())
		for i := range a {
			a[i] = zero(t.Elem())
		}
		return a
	case *types.Named:
		if z, ok := zeroModel(t); ok {
			return z
		}
		return zero(t.Underlying())
	case *types.Alias:
		return zero(types.Unalias(t))
	case *types.Interface:
		return iface{} // nil type, methodset and value
	case *types.Slice:
		return []value(nil)
	case *types.Struct:
		s := make(structure, t.NumFields())
		for i := range s {
			s[i] = zero(t.Field(i).Type())
		}
		return s
	case *types.Tuple:
		if t.Len() == 0 {
			return nil
		}
		if t.Len() == 1 {
			return zero(t.At(0).Type())
		}
		s := make(tuple, t.Len())
		for i := range s {
			s[i] = zero(t.At(i).Type())
		}
		return s
	case *types.Chan:
		return (*Chan)(nil)
	case *types.Map:
		return (*Map)(nil)
	case *types.Signature:
		return (*ssa.Function)(nil)
	}
	panic(fmt.Sprint("zero: unexpected ", t))
}

// slice returns x[lo:hi:max].  Any of lo, hi and max may be nil.
func slice(x, lo, hi, max value) value {
	x = normStr(x)
	var Len, Cap int
	switch x := x.(type) {
	case string:
		Len = len(x)
	case symstr:
		Len = len(x)
	case []value:
		Len = len(x)
		Cap = cap(x)
	case *value: // *array
		a := (*x).(array)
		Len = len(a)
		Cap = cap(a)
	}

	l := int64(0)
	if lo != nil {
		l = concretizeBound(lo, Cap, Len)
	}

	h := int64(Len)
	if hi != nil {
		h = concretizeBound(hi, Cap, Len)
	}

	m := int64(Cap)
	if max != nil {
		m = concretizeBound(max, Cap, Len)
	}

	switch x := x.(type) {
	case string:
		if l < 0 || h > int64(len(x)) || l > h {
			panic(runtimeError(fmt.Sprintf("slice bounds out of range [%d:%d] with length %d", l, h, len(x))))
		}
		return x[l:h]
	case symstr:
		if l < 0 || h > int64(len(x)) || l > h {
			panic(runtimeError(fmt.Sprintf("slice bounds out of range [%d:%d] with length %d", l, h, len(x))))
		}
		return strSlice(x, int(l), int(h))
	case []value:
		if l < 0 || h > m || l > h || m > int64(cap(x)) {
			panic(runtimeError(fmt.Sprintf("slice bounds out of range [%d:%d:%d] with capacity %d", l, h, m, cap(x))))
		}
		return x[l:h:m]
	case *value: // *array
		a := (*x).(array)
		if l < 0 || h > m || l > h || m > int64(cap(a)) {
			panic(runtimeError(fmt.Sprintf("slice bounds out of range [%d:%d:%d] with capacity %d", l, h, m, cap(a))))
		}
		return []value(a)[l:h:m]
	}
	panic(fmt.Sprintf("slice: unexpected X type: %T", x))
}

// lookup returns x[idx] where x is a map.
func lookup(instr *ssa.Lookup, x, idx value) value {
	switch x := x.(type) {
	case *Map:
		v, ok := x.lookup(idx)
		if !ok {
			v = zero(instr.X.Type().Underlying().(*types.Map).Elem())
		}
		if instr.CommaOk {
			v = tuple{copyVal(v), ok}
		} else {
			v = copyVal(v)
		}
		return v
	}
	panic(fmt.Sprintf("unexpected x type in Lookup: %T", x))
}

// binop implements all arithmetic and logical binary operators for
// numeric datatypes and strings.  Both operands must have identical
// dynamic type.
func binop(op token.Token, t types.Type, x, y value) value {
	x, y = normStr(x), normStr(y)
	_, sx := x.(*Sym)
	_, sy := y.(*Sym)
	if sx || sy {
		return symBinop(op, x, y)
	}
	_, tx := x.(symstr)
	_, ty := y.(symstr)
	if tx || ty {
		switch op {
		case token.ADD:
			return strConcat(x, y)
		case token.EQL:
			return strEq(x, y)
		case token.NEQ:
			return notV(strEq(x, y))
		case token.LSS:
			return strLess(x, y)
		case token.GTR:
			return strLess(y, x)
		case token.LEQ:
			return notV(strLess(y, x))
		case token.GEQ:
			return notV(strLess(x, y))
		}
		panic(fmt.Sprintf("invalid binary op on strings: %s", op))
	}
	switch op {
	case token.ADD:
		switch x.(type) {
		case int:
			return x.(int) + y.(int)
		case int8:
			return x.(int8) + y.(int8)
		case int16:
			return x.(int16) + y.(int16)
		case int32:
			return x.(int32) + y.(int32)
		case int64:
			return x.(int64) + y.(int64)
		case uint:
			return x.(uint) + y.(uint)
		case uint8:
			return x.(uint8) + y.(uint8)
		case uint16:
			return x.(uint16) + y.(uint16)
		case uint32:
			return x.(uint32) + y.(uint32)
		case uint64:
			return x.(uint64) + y.(uint64)
		case uintptr:
			return x.(uintptr) + y.(uintptr)
		case float32:
			return x.(float32) + y.(float32)
		case float64:
			return x.(float64) + y.(float64)
		case complex64:
			return x.(complex64) + y.(complex64)
		case complex128:
			return x.(complex128) + y.(complex128)
		case string:
			return x.(string) + y.(string)
		}

	case token.SUB:
		switch x.(type) {
		case int:
			return x.(int) - y.(int)
		case int8:
			return x.(int8) - y.(int8)
		case int16:
			return x.(int16) - y.(int16)
		case int32:
			return x.(int32) - y.(int32)
		case int64:
			return x.(int64) - y.(int64)
		case uint:
			return x.(uint) - y.(uint)
		case uint8:
			return x.(uint8) - y.(uint8)
		case uint16:
			return x.(uint16) - y.(uint16)
		case uint32:
			return x.(uint32) - y.(uint32)
		case uint64:
			return x.(uint64) - y.(uint64)
		case uintptr:
			return x.(uintptr) - y.(uintptr)
		case float32:
			return x.(float32) - y.(float32)
		case float64:
			return x.(float64) - y.(float64)
		case complex64:
			return x.(complex64) - y.(complex64)
		case complex128:
			return x.(complex128) - y.(complex128)
		}

	case token.MUL:
		switch x.(type) {
		case int:
			return x.(int) * y.(int)
		case int8:
			return x.(int8) * y.(int8)
		case int16:
			return x.(int16) * y.(int16)
		case int32:
			return x.(int32) * y.(int32)
		case int64:
			return x.(int64) * y.(int64)
		case uint:
			return x.(uint) * y.(uint)
		case uint8:
			return x.(uint8) * y.(uint8)
		case uint16:
			return x.(uint16) * y.(uint16)
		case uint32:
			return x.(uint32) * y.(uint32)
		case uint64:
			return x.(uint64) * y.(uint64)
		case uintptr:
			return x.(uintptr) * y.(uintptr)
		case float32:
			return x.(float32) * y.(float32)
		case float64:
			return x.(float64) * y.(float64)
		case complex64:
			return x.(complex64) * y.(complex64)
		case complex128:
			return x.(complex128) * y.(complex128)
		}

	case token.QUO:
		switch x.(type) {
		case int:
			return x.(int) / y.(int)
		case int8:
			return x.(int8) / y.(int8)
		case int16:
			return x.(int16) / y.(int16)
		case int32:
			return x.(int32) / y.(int32)
		case int64:
			return x.(int64) / y.(int64)
		case uint:
			return x.(uint) / y.(uint)
		case uint8:
			return x.(uint8) / y.(uint8)
		case uint16:
			return x.(uint16) / y.(uint16)
		case uint32:
			return x.(uint32) / y.(uint32)
		case uint64:
			return x.(uint64) / y.(uint64)
		case uintptr:
			return x.(uintptr) / y.(uintptr)
		case float32:
			return x.(float32) / y.(float32)
		case float64:
			return x.(float64) / y.(float64)
		case complex64:
			return x.(complex64) / y.(complex64)
		case complex128:
			return x.(complex128) / y.(complex128)
		}

	case token.REM:
		switch x.(type) {
		case int:
			return x.(int) % y.(int)
		case int8:
			return x.(int8) % y.(int8)
		case int16:
			return x.(int16) % y.(int16)
		case int32:
			return x.(int32) % y.(int32)
		case int64:
			return x.(int64) % y.(int64)
		case uint:
			return x.(uint) % y.(uint)
		case uint8:
			return x.(uint8) % y.(uint8)
		case uint16:
			return x.(uint16) % y.(uint16)
		case uint32:
			return x.(uint32) % y.(uint32)
		case uint64:
			return x.(uint64) % y.(uint64)
		case uintptr:
			return x.(uintptr) % y.(uintptr)
		}

	case token.AND:
		switch x.(type) {
		case int:
			return x.(int) & y.(int)
		case int8:
			return x.(int8) & y.(int8)
		case int16:
			return x.(int16) & y.(int16)
		case int32:
			return x.(int32) & y.(int32)
		case int64:
			return x.(int64) & y.(int64)
		case uint:
			return x.(uint) & y.(uint)
		case uint8:
			return x.(uint8) & y.(uint8)
		case uint16:
			return x.(uint16) & y.(uint16)
		case uint32:
			return x.(uint32) & y.(uint32)
		case uint64:
			return x.(uint64) & y.(uint64)
		case uintptr:
			return x.(uintptr) & y.(uintptr)
		}

	case token.OR:
		switch x.(type) {
		case int:
			return x.(int) | y.(int)
		case int8:
			return x.(int8) | y.(int8)
		case int16:
			return x.(int16) | y.(int16)
		case int32:
			return x.(int32) | y.(int32)
		case int64:
			return x.(int64) | y.(int64)
		case uint:
			return x.(uint) | y.(uint)
		case uint8:
			return x.(uint8) | y.(uint8)
		case uint16:
			return x.(uint16) | y.(uint16)
		case uint32:
			return x.(uint32) | y.(uint32)
		case uint64:
			return x.(uint64) | y.(uint64)
		case uintptr:
			return x.(uintptr) | y.(uintptr)
		}

	case token.XOR:
		switch x.(type) {
		case int:
			return x.(int) ^ y.(int)
		case int8:
			return x.(int8) ^ y.(int8)
		case int16:
			return x.(int16) ^ y.(int16)
		case int32:
			return x.(int32) ^ y.(int32)
		case int64:
			return x.(int64) ^ y.(int64)
		case uint:
			return x.(uint) ^ y.(uint)
		case uint8:
			return x.(uint8) ^ y.(uint8)
		case uint16:
			return x.(uint16) ^ y.(uint16)
		case uint32:
			return x.(uint32) ^ y.(uint32)
		case uint64:
			return x.(uint64) ^ y.(uint64)
		case uintptr:
			return x.(uintptr) ^ y.(uintptr)
		}

	case token.AND_NOT:
		switch x.(type) {
		case int:
			return x.(int) &^ y.(int)
		case int8:
			return x.(int8) &^ y.(int8)
		case int16:
			return x.(int16) &^ y.(int16)
		case int32:
			return x.(int32) &^ y.(int32)
		case int64:
			return x.(int64) &^ y.(int64)
		case uint:
			return x.(uint) &^ y.(uint)
		case uint8:
			return x.(uint8) &^ y.(uint8)
		case uint16:
			return x.(uint16) &^ y.(uint16)
		case uint32:
			return x.(uint32) &^ y.(uint32)
		case uint64:
			return x.(uint64) &^ y.(uint64)
		case uintptr:
			return x.(uintptr) &^ y.(uintptr)
		}

	case token.SHL:
		u, ok := asUnsigned(y)
		if !ok {
			panic("negative shift amount")
		}
		y := asUint64(u)
		switch x.(type) {
		case int:
			return x.(int) << y
		case int8:
			return x.(int8) << y
		case int16:
			return x.(int16) << y
		case int32:
			return x.(int32) << y
		case int64:
			return x.(int64) << y
		case uint:
			return x.(uint) << y
		case uint8:
			return x.(uint8) << y
		case uint16:
			return x.(uint16) << y
		case uint32:
			return x.(uint32) << y
		case uint64:
			return x.(uint64) << y
		case uintptr:
			return x.(uintptr) << y
		}

	case token.SHR:
		u, ok := asUnsigned(y)
		if !ok {
			panic("negative shift amount")
		}
		y := asUint64(u)
		switch x.(type) {
		case int:
			return x.(int) >> y
		case int8:
			return x.(int8) >> y
		case int16:
			return x.(int16) >> y
		case int32:
			return x.(int32) >> y
		case int64:
			return x.(int64) >> y
		case uint:
			return x.(uint) >> y
		case uint8:
			return x.(uint8) >> y
		case uint16:
			return x.(uint16) >> y
		case uint32:
			return x.(uint32) >> y
		case uint64:
			return x.(uint64) >> y
		case uintptr:
			return x.(uintptr) >> y
		}

	case token.LSS:
		switch x.(type) {
		case int:
			return x.(int) < y.(int)
		case int8:
			return x.(int8) < y.(int8)
		case int16:
			return x.(int16) < y.(int16)
		case int32:
			return x.(int32) < y.(int32)
		case int64:
			return x.(int64) < y.(int64)
		case uint:
			return x.(uint) < y.(uint)
		case uint8:
			return x.(uint8) < y.(uint8)
		case uint16:
			return x.(uint16) < y.(uint16)
		case uint32:
			return x.(uint32) < y.(uint32)
		case uint64:
			return x.(uint64) < y.(uint64)
		case uintptr:
			return x.(uintptr) < y.(uintptr)
		case float32:
			return x.(float32) < y.(float32)
		case float64:
			return x.(float64) < y.(float64)
		case string:
			return x.(string) < y.(string)
		}

	case token.LEQ:
		switch x.(type) {
		case int:
			return x.(int) <= y.(int)
		case int8:
			return x.(int8) <= y.(int8)
		case int16:
			return x.(int16) <= y.(int16)
		case int32:
			return x.(int32) <= y.(int32)
		case int64:
			return x.(int64) <= y.(int64)
		case uint:
			return x.(uint) <= y.(uint)
		case uint8:
			return x.(uint8) <= y.(uint8)
		case uint16:
			return x.(uint16) <= y.(uint16)
		case uint32:
			return x.(uint32) <= y.(uint32)
		case uint64:
			return x.(uint64) <= y.(uint64)
		case uintptr:
			return x.(uintptr) <= y.(uintptr)
		case float32:
			return x.(float32) <= y.(float32)
		case float64:
			return x.(float64) <= y.(float64)
		case string:
			return x.(string) <= y.(string)
		}

	case token.EQL:
		return eqnil(t, x, y)

	case token.NEQ:
		return notV(eqnil(t, x, y))

	case token.GTR:
		switch x.(type) {
		case int:
			return x.(int) > y.(int)
		case int8:
			return x.(int8) > y.(int8)
		case int16:
			return x.(int16) > y.(int16)
		case int32:
			return x.(int32) > y.(int32)
		case int64:
			return x.(int64) > y.(int64)
		case uint:
			return x.(uint) > y.(uint)
		case uint8:
			return x.(uint8) > y.(uint8)
		case uint16:
			return x.(uint16) > y.(uint16)
		case uint32:
			return x.(uint32) > y.(uint32)
		case uint64:
			return x.(uint64) > y.(uint64)
		case uintptr:
			return x.(uintptr) > y.(uintptr)
		case float32:
			return x.(float32) > y.(float32)
		case float64:
			return x.(float64) > y.(float64)
		case string:
			return x.(string) > y.(string)
		}

	case token.GEQ:
		switch x.(type) {
		case int:
			return x.(int) >= y.(int)
		case int8:
			return x.(int8) >= y.(int8)
		case int16:
			return x.(int16) >= y.(int16)
		case int32:
			return x.(int32) >= y.(int32)
		case int64:
			return x.(int64) >= y.(int64)
		case uint:
			return x.(uint) >= y.(uint)
		case uint8:
			return x.(uint8) >= y.(uint8)
		case uint16:
			return x.(uint16) >= y.(uint16)
		case uint32:
			return x.(uint32) >= y.(uint32)
		case uint64:
			return x.(uint64) >= y.(uint64)
		case uintptr:
			return x.(uintptr) >= y.(uintptr)
		case float32:
			return x.(float32) >= y.(float32)
		case float64:
			return x.(float64) >= y.(float64)
		case string:
			return x.(string) >= y.(string)
		}
	}
	panic(fmt.Sprintf("invalid binary op: %T %s %T", x, op, y))
}

// eqnil returns the comparison x == y using the equivalence relation
// appropriate for type t, as bool or *Sym.
func eqnil(t types.Type, x, y value) value {
	switch t.Underlying().(type) {
	case *types.Map, *types.Signature, *types.Slice:
		// Since these types don't support comparison,
		// one of the operands must be a literal nil.
		return isNilRef(x) == isNilRef(y) && (isNilRef(x) || isNilRef(y))
	}
	return equalsV(t, x, y)
}

func isNilRef(x value) bool {
	switch x := x.(type) {
	case *Map:
		return x == nil
	case *ssa.Function:
		return x == nil
	case *closure:
		return x == nil
	case *nativeFn:
		return x == nil
	case []value:
		return x == nil
	}
	panic(fmt.Sprintf("isNilRef: illegal dynamic type: %T", x))
}

func unop(instr *ssa.UnOp, x value) value {
	switch instr.Op {
	case token.ARROW: // receive
		v, ok := chanRecv(x.(*Chan))
		if !ok {
			v = zero(instr.X.Type().Underlying().(*types.Chan).Elem())
		}
		if instr.CommaOk {
			v = tuple{v, ok}
		}
		return v
	case token.SUB:
		switch x := x.(type) {
		case *Sym:
			return symUnop(token.SUB, x)
		case int:
			return -x
		case int8:
			return -x
		case int16:
			return -x
		case int32:
			return -x
		case int64:
			return -x
		case uint:
			return -x
		case uint8:
			return -x
		case uint16:
			return -x
		case uint32:
			return -x
		case uint64:
			return -x
		case uintptr:
			return -x
		case float32:
			return -x
		case float64:
			return -x
		case complex64:
			return -x
		case complex128:
			return -x
		}
	case token.MUL:
		p := x.(*value)
		if p == nil {
			panic(runtimeError("invalid memory address or nil pointer dereference"))
		}
		return load(mustDeref(instr.X.Type()), p)
	case token.NOT:
		if s, ok := x.(*Sym); ok {
			return symUnop(token.NOT, s)
		}
		return !x.(bool)
	case token.XOR:
		switch x := x.(type) {
		case *Sym:
			return symUnop(token.XOR, x)
		case int:
			return ^x
		case int8:
			return ^x
		case int16:
			return ^x
		case int32:
			return ^x
		case int64:
			return ^x
		case uint:
			return ^x
		case uint8:
			return ^x
		case uint16:
			return ^x
		case uint32:
			return ^x
		case uint64:
			return ^x
		case uintptr:
			return ^x
		}
	}
	panic(fmt.Sprintf("invalid unary op %s %T", instr.Op, x))
}

// callBuiltin interprets a call to builtin fn with arguments args,
// returning its result.
func callBuiltin(caller *frame, callpos token.Pos, fn *ssa.Builtin, args []value) value {
	switch fn.Name() {
	case "append":
		if len(args) == 1 {
			return args[0]
		}
		elemSize := int64(8)
		if sig, ok := fn.Type().(*types.Signature); ok && sig.Params().Len() > 0 {
			if st, ok := sig.Params().At(0).Type().Underlying().(*types.Slice); ok {
				elemSize = sizeofType(st.Elem())
			}
		}
		if isStr(args[1]) {
			// append([]byte, ...string) []byte
			return appendLikeGo(args[0].([]value), strBytes(args[1]), 1, false)
		}
		// append([]T, ...[]T) []T
		return appendLikeGo(args[0].([]value), args[1].([]value), elemSize, true)

	case "copy": // copy([]T, []T) int or copy([]byte, string) int
		src := args[1]
		if isStr(src) {
			src = strBytes(src)
		}
		srcs := src.([]value)
		tmp := make([]value, len(srcs))
		for i, e := range srcs {
			tmp[i] = copyVal(e)
		}
		return copy(args[0].([]value), tmp)

	case "close": // close(chan T)
		chanClose(args[0].(*Chan))
		return nil

	case "delete": // delete(map[K]value, K)
		switch m := args[0].(type) {
		case *Map:
			raceMap(caller, m, nil, true)
			m.delete(args[1])
		default:
			panic(fmt.Sprintf("illegal map type: %T", m))
		}
		return nil

	case "print", "println": // print(any, ...)
		ln := fn.Name() == "println"
		var buf bytes.Buffer
		for i, arg := range args {
			if i > 0 && ln {
				buf.WriteRune(' ')
			}
			buf.WriteString(toString(arg))
		}
		if ln {
			buf.WriteRune('\n')
		}
		os.Stderr.Write(buf.Bytes())
		return nil

	case "len":
		switch x := args[0].(type) {
		case string:
			return len(x)
		case array:
			return len(x)
		case *value:
			return len((*x).(array))
		case []value:
			return len(x)
		case symstr:
			return len(x)
		case *Map:
			return x.len()
		case *Chan:
			if x == nil {
				return 0
			}
			return len(x.buf)
		default:
			panic(fmt.Sprintf("len: illegal operand: %T", x))
		}

	case "cap":
		switch x := args[0].(type) {
		case array:
			return cap(x)
		case *value:
			return cap((*x).(array))
		case []value:
			return cap(x)
		case *Chan:
			if x == nil {
				return 0
			}
			return x.cap
		default:
			panic(fmt.Sprintf("cap: illegal operand: %T", x))
		}

	case "min":
		return foldLeft(min, args)
	case "max":
		return foldLeft(max, args)

	case "real":
		switch c := args[0].(type) {
		case complex64:
			return real(c)
		case complex128:
			return real(c)
		default:
			panic(fmt.Sprintf("real: illegal operand: %T", c))
		}

	case "imag":
		switch c := args[0].(type) {
		case complex64:
			return imag(c)
		case complex128:
			return imag(c)
		default:
			panic(fmt.Sprintf("imag: illegal operand: %T", c))
		}

	case "complex":
		switch f := args[0].(type) {
		case float32:
			return complex(f, args[1].(float32))
		case float64:
			return complex(f, args[1].(float64))
		default:
			panic(fmt.Sprintf("complex: illegal operand: %T", f))
		}

	case "panic":
		// ssa.Panic handles most cases; this is only for "go
		// panic" or "defer panic".
		panic(targetPanic{v: args[0]})

	case "recover":
		return doRecover(caller)

	case "ssa:wrapnilchk":
		recv := args[0]
		if recv.(*value) == nil {
			recvType := args[1]
			methodName := args[2]
			panic(fmt.Sprintf("value method (%s).%s called using nil *%s pointer",
				recvType, methodName, recvType))
		}
		return recv

	case "ssa:deferstack":
		return &caller.defers
	}

	panic("unknown built-in: " + fn.Name())
}

func rangeIter(x value, t types.Type) iter {
	x = normStr(x)
	switch x := x.(type) {
	case *Map:
		return &mapIter{es: orderForRange(x.live())}
	case string:
		return &symStringIter{bs: strBytes(x)}
	case symstr:
		return &symStringIter{bs: []value(x)}
	}
	panic(fmt.Sprintf("cannot range over %T", x))
}

// widen widens a basic typed value x to the widest type of its
// category, one of:
//
//	bool, int64, uint64, float64, complex128, string.
//
// This is inefficient but reduces the size of the cross-product of
// cases we have to consider.
func widen(x value) value {
	switch y := x.(type) {
	case bool, int64, uint64, float64, complex128, string, unsafe.Pointer:
		return x
	case int:
		return int64(y)
	case int8:
		return int64(y)
	case int16:
		return int64(y)
	case int32:
		return int64(y)
	case uint:
		return uint64(y)
	case uint8:
		return uint64(y)
	case uint16:
		return uint64(y)
	case uint32:
		return uint64(y)
	case uintptr:
		return uint64(y)
	case float32:
		return float64(y)
	case complex64:
		return complex128(y)
	}
	panic(fmt.Sprintf("cannot widen %T", x))
}

// conv converts the value x of type t_src to type t_dst and returns
// the result.
// Possible cases are described with the ssa.Convert operator.
func conv(t_dst, t_src types.Type, x value) value {
	x = normStr(x)
	ut_src := t_src.Underlying()
	ut_dst := t_dst.Underlying()

	// Destination type is not an "untyped" type.
	if b, ok := ut_dst.(*types.Basic); ok && b.Info()&types.IsUntyped != 0 {
		panic("oops: conversion to 'untyped' type: " + b.String())
	}

	// Nor is it an interface type.
	if _, ok := ut_dst.(*types.Interface); ok {
		if _, ok := ut_src.(*types.Interface); ok {
			panic("oops: Convert should be ChangeInterface")
		} else {
			panic("oops: Convert should be MakeInterface")
		}
	}

	// Remaining conversions:
	//    + untyped string/number/bool constant to a specific
	//      representation.
	//    + conversions between non-complex numeric types.
	//    + conversions between complex numeric types.
	//    + integer/[]byte/[]rune -> string.
	//    + string -> []byte/[]rune.
	//
	// All are treated the same: first we extract the value to the
	// widest representation (int64, uint64, float64, complex128,
	// or string), then we convert it to the desired type.

	switch ut_src := ut_src.(type) {
	case *types.Pointer:
		switch ut_dst := ut_dst.(type) {
		case *types.Basic:
			// *value to unsafe.Pointer?
			if ut_dst.Kind() == types.UnsafePointer {
				return unsafe.Pointer(x.(*value))
			}
		}

	case *types.Slice:
		// []byte or []rune -> string
		switch ut_src.Elem().Underlying().(*types.Basic).Kind() {
		case types.Byte:
			x := x.([]value)
			return mkStr(append([]value(nil), x...))

		case types.Rune:
			return runesToStr(x.([]value))
		}

	case *types.Basic:
		if sx, ok := x.(*Sym); ok {
			if b, ok := ut_dst.(*types.Basic); ok {
				if b.Kind() == types.String {
					return runeToStr(x)
				}
				return symConv(b.Kind(), sx)
			}
		}
		if ss, ok := x.(symstr); ok {
			switch ut_dst := ut_dst.(type) {
			case *types.Slice:
				switch ut_dst.Elem().Underlying().(*types.Basic).Kind() {
				case types.Rune:
					return strRunes(ss)
				case types.Byte:
					return append([]value(nil), []value(ss)...)
				}
			case *types.Basic:
				if ut_dst.Kind() == types.String {
					return ss
				}
			}
		}
		x = widen(x)

		// integer -> string?
		if ut_src.Info()&types.IsInteger != 0 {
			if ut_dst, ok := ut_dst.(*types.Basic); ok && ut_dst.Kind() == types.String {
				return string(rune(asInt64(x)))
			}
		}

		// string -> []rune, []byte or string?
		if s, ok := x.(string); ok {
			switch ut_dst := ut_dst.(type) {
			case *types.Slice:
				var res []value
				switch ut_dst.Elem().Underlying().(*types.Basic).Kind() {
				case types.Rune:
					for _, r := range []rune(s) {
						res = append(res, r)
					}
					return res
				case types.Byte:
					for _, b := range []byte(s) {
						res = append(res, b)
					}
					return res
				}
			case *types.Basic:
				if ut_dst.Kind() == types.String {
					return x.(string)
				}
			}
			break // fail: no other conversions for string
		}

		// unsafe.Pointer -> *value
		if ut_src.Kind() == types.UnsafePointer {
			// TODO(adonovan): this is wrong and cannot
			// really be fixed with the current design.
			//
			// return (*value)(x.(unsafe.Pointer))
			// creates a new pointer of a different
			// type but the underlying interface value
			// knows its "true" type and so cannot be
			// meaningfully used through the new pointer.
			//
			// To make this work, the interpreter needs to
			// simulate the memory layout of a real
			// compiled implementation.
			//
			// To at least preserve type-safety, we'll
			// just return the zero value of the
			// destination type.
			return zero(t_dst)
		}

		// Conversions between complex numeric types?
		if ut_src.Info()&types.IsComplex != 0 {
			switch ut_dst.(*types.Basic).Kind() {
			case types.Complex64:
				return complex64(x.(complex128))
			case types.Complex128:
				return x.(complex128)
			}
			break // fail: no other conversions for complex
		}

		// Conversions between non-complex numeric types?
		if ut_src.Info()&types.IsNumeric != 0 {
			kind := ut_dst.(*types.Basic).Kind()
			switch x := x.(type) {
			case int64: // signed integer -> numeric?
				switch kind {
				case types.Int:
					return int(x)
				case types.Int8:
					return int8(x)
				case types.Int16:
					return int16(x)
				case types.Int32:
					return int32(x)
				case types.Int64:
					return int64(x)
				case types.Uint:
					return uint(x)
				case types.Uint8:
					return uint8(x)
				case types.Uint16:
					return uint16(x)
				case types.Uint32:
					return uint32(x)
				case types.Uint64:
					return uint64(x)
				case types.Uintptr:
					return uintptr(x)
				case types.Float32:
					return float32(x)
				case types.Float64:
					return float64(x)
				}

			case uint64: // unsigned integer -> numeric?
				switch kind {
				case types.Int:
					return int(x)
				case types.Int8:
					return int8(x)
				case types.Int16:
					return int16(x)
				case types.Int32:
					return int32(x)
				case types.Int64:
					return int64(x)
				case types.Uint:
					return uint(x)
				case types.Uint8:
					return uint8(x)
				case types.Uint16:
					return uint16(x)
				case types.Uint32:
					return uint32(x)
				case types.Uint64:
					return uint64(x)
				case types.Uintptr:
					return uintptr(x)
				case types.Float32:
					return float32(x)
				case types.Float64:
					return float64(x)
				}

			case float64: // floating point -> numeric?
				switch kind {
				case types.Int:
					return int(x)
				case types.Int8:
					return int8(x)
				case types.Int16:
					return int16(x)
				case types.Int32:
					return int32(x)
				case types.Int64:
					return int64(x)
				case types.Uint:
					return uint(x)
				case types.Uint8:
					return uint8(x)
				case types.Uint16:
					return uint16(x)
				case types.Uint32:
					return uint32(x)
				case types.Uint64:
					return uint64(x)
				case types.Uintptr:
					return uintptr(x)
				case types.Float32:
					return float32(x)
				case types.Float64:
					return float64(x)
				}
			}
		}
	}

	panic(fmt.Sprintf("unsupported conversion: %s  -> %s, dynamic type %T", t_src, t_dst, x))
}

// sliceToArrayPointer converts the value x of type slice to type t_dst
// a pointer to array and returns the result.
func sliceToArrayPointer(t_dst, t_src types.Type, x value) value {
	if _, ok := t_src.Underlying().(*types.Slice); ok {
		if ptr, ok := t_dst.Underlying().(*types.Pointer); ok {
			if arr, ok := ptr.Elem().Underlying().(*types.Array); ok {
				x := x.([]value)
				if arr.Len() > int64(len(x)) {
					panic("array length is greater than slice length")
				}
				if x == nil {
					return zero(t_dst)
				}
				v := value(array(x[:arr.Len()]))
				return &v
			}
		}
	}

	panic(fmt.Sprintf("unsupported conversion: %s  -> %s, dynamic type %T", t_src, t_dst, x))
}

// checkInterface checks that the method set of x implements the
// interface itype.
// On success it returns "", on failure, an error message.
func checkInterface(i *interpreter, itype *types.Interface, x iface) string {
	if meth, _ := types.MissingMethod(x.t, itype, true); meth != nil {
		return fmt.Sprintf("interface conversion: %v is not %v: missing method %s",
			x.t, itype, meth.Name())
	}
	return "" // ok
}

func foldLeft(op func(value, value) value, args []value) value {
	x := args[0]
	for _, arg := range args[1:] {
		x = op(x, arg)
	}
	return x
}

func min(x, y value) value {
	switch x := x.(type) {
	case float32:
		return fmin(x, y.(float32))
	case float64:
		return fmin(x, y.(float64))
	}

	// return (y < x) ? y : x
	if cx.BranchV(binop(token.LSS, nil, y, x)) {
		return y
	}
	return x
}

func max(x, y value) value {
	switch x := x.(type) {
	case float32:
		return fmax(x, y.(float32))
	case float64:
		return fmax(x, y.(float64))
	}

	// return (y > x) ? y : x
	if cx.BranchV(binop(token.GTR, nil, y, x)) {
		return y
	}
	return x
}

// copied from $GOROOT/src/runtime/minmax.go

type floaty interface{ ~float32 | ~float64 }

func fmin[F floaty](x, y F) F {
	if y != y || y < x {
		return y
	}
	if x != x || x < y || x != 0 {
		return x
	}
	// x and y are both ±0
	// if either is -0, return -0; else return +0
	return forbits(x, y)
}

func fmax[F floaty](x, y F) F {
	if y != y || y > x {
		return y
	}
	if x != x || x > y || x != 0 {
		return x
	}
	// x and y are both ±0
	// if both are -0, return -0; else return +0
	return fandbits(x, y)
}

func forbits[F floaty](x, y F) F {
	switch unsafe.Sizeof(x) {
	case 4:
		*(*uint32)(unsafe.Pointer(&x)) |= *(*uint32)(unsafe.Pointer(&y))
	case 8:
		*(*uint64)(unsafe.Pointer(&x)) |= *(*uint64)(unsafe.Pointer(&y))
	}
	return x
}

func fandbits[F floaty](x, y F) F {
	switch unsafe.Sizeof(x) {
	case 4:
		*(*uint32)(unsafe.Pointer(&x)) &= *(*uint32)(unsafe.Pointer(&y))
	case 8:
		*(*uint64)(unsafe.Pointer(&x)) &= *(*uint64)(unsafe.Pointer(&y))
	}
	return x
}

// ---------- slice growth like the gc runtime ----------

var gcSizes = types.SizesFor("gc", "amd64")

func sizeofType(t types.Type) (n int64) {
	defer func() {
		if recover() != nil {
			n = 8
		}
	}()
	return gcSizes.Sizeof(t)
}

// size classes of the gc allocator (runtime/sizeclasses.go), up to 32 KiB
var gcSizeClasses = []int64{0, 8, 16, 24, 32, 48, 64, 80, 96, 112, 128, 144, 160, 176, 192, 208, 224, 240, 256, 288, 320, 352, 384, 416, 448, 480, 512,
	576, 640, 704, 768, 896, 1024, 1152, 1280, 1408, 1536, 1792, 2048, 2304, 2688, 3072, 3200, 3456, 4096, 4864, 5376, 6144, 6528, 6784, 6912, 8192, 9472,
	9728, 10240, 10880, 12288, 13568, 14336, 16384, 18432, 19072, 20480, 21760, 24576, 27264, 28672, 32768}

func gcRoundUpSize(n int64) int64 {
	for _, c := range gcSizeClasses {
		if c >= n {
			return c
		}
	}
	const page = 8192
	return (n + page - 1) / page * page
}

// gcGrowCap is runtime.growslice's capacity computation (go1.20+): the capacity is not specified by
// the language, but code that aliases a slice's spare capacity behaves as the runtime decides, and a
// counterexample has to replay on the real runtime.
func gcGrowCap(oldCap, newLen int, elemSize int64) int {
	newcap := oldCap
	doublecap := newcap + newcap
	switch {
	case newLen > doublecap:
		newcap = newLen
	case oldCap < 256:
		newcap = doublecap
	default:
		for newcap < newLen {
			newcap += (newcap + 3*256) >> 2
		}
	}
	if elemSize <= 0 {
		return newcap
	}
	return int(gcRoundUpSize(int64(newcap)*elemSize) / elemSize)
}

// appendLikeGo appends src to dst in place when the capacity allows, otherwise into a new backing
// array of the capacity the gc runtime would choose for elements of elemSize bytes.
func appendLikeGo(dst, src []value, elemSize int64, copyElems bool) []value {
	need := len(dst) + len(src)
	out := dst
	if need > cap(dst) {
		out = make([]value, len(dst), gcGrowCap(cap(dst), need, elemSize))
		copy(out, dst)
	}
	for _, e := range src {
		if copyElems {
			e = copyVal(e)
		}
		out = append(out, e)
	}
	return out
}
