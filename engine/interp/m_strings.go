package interp

import (
	"go/types"
	"html"
	"math/big"
	"strconv"
	"strings"
	"unicode"
	"unicode/utf8"

	"gosym/sym"
)

// ---------- helpers on byte terms ----------

func inRange(t *sym.Term, lo, hi int64) *sym.Term {
	return sym.And(sym.Le(sym.Int(lo), t), sym.Le(t, sym.Int(hi)))
}

func asciiSpaceTerm(t *sym.Term) *sym.Term {
	return sym.Or(inRange(t, 9, 13), sym.Eq(t, sym.Int(32)))
}

// byteIs branches on pred for a byte value; concrete bytes are decided natively.
func byteIs(b value, conc func(c byte) bool, symb func(t *sym.Term) *sym.Term) bool {
	if c, ok := b.(uint8); ok {
		return conc(c)
	}
	return cx.Branch(symb(b.(*Sym).T))
}

// requireASCII forks on b < 0x80 and aborts the non-ASCII side as unsupported.
func requireASCII(b value, what string) {
	if s, ok := b.(*Sym); ok {
		if !cx.Branch(sym.Lt(s.T, sym.Int(0x80))) {
			Unsupported("%s: symbolic non-ASCII byte", what)
		}
	}
}

func isSpaceByteOrRune(bs []value, i int, fromRight bool) (isSpace bool, width int) {
	b := bs[i]
	if c, ok := b.(uint8); ok {
		if c < utf8.RuneSelf {
			return c == ' ' || (c >= 9 && c <= 13), 1
		}
		// concrete non-ASCII: decode natively over the concrete neighbourhood
		if fromRight {
			start := i
			for start > 0 && i-start < 3 {
				if pc, ok := bs[start].(uint8); ok && utf8.RuneStart(pc) {
					break
				}
				start--
			}
			buf := make([]byte, 0, 4)
			for j := start; j <= i; j++ {
				c, ok := bs[j].(uint8)
				if !ok {
					Unsupported("TrimSpace: symbolic byte inside a multi-byte sequence")
				}
				buf = append(buf, c)
			}
			r, w := utf8.DecodeLastRune(buf)
			return unicode.IsSpace(r), w
		}
		r, w := decodeRuneAt(bs, i)
		if rc, ok := r.(int32); ok {
			return unicode.IsSpace(rune(rc)), w
		}
		Unsupported("TrimSpace: symbolic multi-byte rune")
	}
	requireASCII(b, "TrimSpace")
	return cx.Branch(asciiSpaceTerm(b.(*Sym).T)), 1
}

func trimSpaceV(s value) value {
	if cs, ok := s.(string); ok {
		return strings.TrimSpace(cs)
	}
	bs := strBytes(s)
	start, stop := 0, len(bs)
	for start < stop {
		sp, w := isSpaceByteOrRune(bs, start, false)
		if !sp {
			break
		}
		start += w
	}
	for stop > start {
		sp, w := isSpaceByteOrRune(bs, stop-1, true)
		if !sp {
			break
		}
		stop -= w
	}
	return mkStr(bs[start:stop])
}

func inCutset(b value, cutset string) bool {
	if c, ok := b.(uint8); ok {
		return strings.IndexByte(cutset, c) >= 0
	}
	t := b.(*Sym).T
	var ds []*sym.Term
	for i := 0; i < len(cutset); i++ {
		ds = append(ds, sym.Eq(t, sym.Int(int64(cutset[i]))))
	}
	return cx.Branch(sym.Or(ds...))
}

func trimCutset(s value, cutset value, left, right bool) value {
	cs, ok := cutset.(string)
	if !ok {
		Unsupported("strings.Trim with symbolic cutset")
	}
	for i := 0; i < len(cs); i++ {
		if cs[i] >= utf8.RuneSelf {
			if _, allc := s.(string); !allc {
				Unsupported("strings.Trim with non-ASCII cutset on symbolic string")
			}
		}
	}
	bs := strBytes(s)
	start, stop := 0, len(bs)
	if left {
		for start < stop && inCutset(bs[start], cs) {
			start++
		}
	}
	if right {
		for stop > start && inCutset(bs[stop-1], cs) {
			stop--
		}
	}
	return mkStr(bs[start:stop])
}

// matchAt branches on whether sub occurs in bs at offset i.
func matchAt(bs []value, i int, sub []value) bool {
	if i+len(sub) > len(bs) {
		return false
	}
	var conj []*sym.Term
	for j := range sub {
		a, b := bs[i+j], sub[j]
		ac, oka := a.(uint8)
		bc, okb := b.(uint8)
		if oka && okb {
			if ac != bc {
				return false
			}
			continue
		}
		e := sym.Eq(byteTerm(a), byteTerm(b))
		if e == sym.False {
			return false
		}
		conj = append(conj, e)
	}
	return cx.Branch(sym.And(conj...))
}

func indexV(s, sub value) int {
	bs, ss := strBytes(s), strBytes(sub)
	for i := 0; i+len(ss) <= len(bs); i++ {
		if matchAt(bs, i, ss) {
			return i
		}
	}
	return -1
}

func replaceV(s, old, new value, n int) value {
	bs, os_, ns := strBytes(s), strBytes(old), strBytes(new)
	if n == 0 {
		return s
	}
	var out []value
	if len(os_) == 0 {
		// insert new before every rune (ASCII only when symbolic)
		if _, ok := s.(string); !ok {
			Unsupported("strings.Replace with empty old on symbolic string")
		}
	}
	i := 0
	count := 0
	for i < len(bs) {
		if (n < 0 || count < n) && len(os_) > 0 && matchAt(bs, i, os_) {
			out = append(out, ns...)
			i += len(os_)
			count++
			continue
		}
		out = append(out, bs[i])
		i++
	}
	return mkStr(out)
}

func splitV(s, sep value, n int) value {
	bs, ss := strBytes(s), strBytes(sep)
	if len(ss) == 0 {
		if cs, ok := s.(string); ok {
			if sp, ok := sep.(string); ok {
				return strSliceVal(strings.SplitN(cs, sp, n))
			}
		}
		Unsupported("strings.Split with empty separator on symbolic string")
	}
	if n == 0 {
		return []value(nil)
	}
	var parts []value
	start := 0
	i := 0
	for i+len(ss) <= len(bs) {
		if n > 0 && len(parts) == n-1 {
			break
		}
		if matchAt(bs, i, ss) {
			parts = append(parts, mkStr(bs[start:i]))
			i += len(ss)
			start = i
			continue
		}
		i++
	}
	parts = append(parts, mkStr(bs[start:]))
	return parts
}

// mapASCII applies a per-byte term transformer to symbolic ASCII bytes and a native rune function elsewhere.
func caseMap(s value, upper bool) value {
	if cs, ok := s.(string); ok {
		if upper {
			return strings.ToUpper(cs)
		}
		return strings.ToLower(cs)
	}
	bs := strBytes(s)
	var out []value
	for i := 0; i < len(bs); {
		switch b := bs[i].(type) {
		case uint8:
			if b < utf8.RuneSelf {
				if upper {
					out = append(out, uint8(unicode.ToUpper(rune(b))))
				} else {
					out = append(out, uint8(unicode.ToLower(rune(b))))
				}
				i++
				continue
			}
			r, w := decodeRuneAt(bs, i)
			rc, ok := r.(int32)
			if !ok {
				Unsupported("case mapping of symbolic multi-byte rune")
			}
			var m rune
			if upper {
				m = unicode.ToUpper(rune(rc))
			} else {
				m = unicode.ToLower(rune(rc))
			}
			if rc == utf8.RuneError && w == 1 {
				// invalid byte: strings.Map writes RuneError (3 bytes)
				m = utf8.RuneError
			}
			for _, c := range []byte(string(m)) {
				out = append(out, c)
			}
			i += w
		case *Sym:
			requireASCII(b, "ToLower/ToUpper")
			var t *sym.Term
			if upper {
				t = sym.Ite(inRange(b.T, 'a', 'z'), sym.Sub(b.T, sym.Int(32)), b.T)
			} else {
				t = sym.Ite(inRange(b.T, 'A', 'Z'), sym.Add(b.T, sym.Int(32)), b.T)
			}
			out = append(out, mkSymInt(t, types.Uint8))
			i++
		}
	}
	return mkStr(out)
}

// atoiV ports strconv.Atoi; returns (int value, ok).
func atoiV(s value) (value, bool) {
	if l, ok := s.(lazyDec); ok && len(l.segs) == 1 && l.segs[0].num != nil {
		t := l.segs[0].num
		if t.Lo != nil && t.Hi != nil && t.Lo.IsInt64() && t.Hi.IsInt64() {
			return mkSymInt(t, types.Int), true
		}
	}
	if cs, ok := s.(string); ok {
		n, err := strconv.Atoi(cs)
		return n, err == nil
	}
	bs := strBytes(s)
	if len(bs) == 0 {
		return 0, false
	}
	i := 0
	neg := false
	// sign
	if byteIs(bs[0], func(c byte) bool { return c == '-' }, func(t *sym.Term) *sym.Term { return sym.Eq(t, sym.Int('-')) }) {
		neg = true
		i = 1
	} else if byteIs(bs[0], func(c byte) bool { return c == '+' }, func(t *sym.Term) *sym.Term { return sym.Eq(t, sym.Int('+')) }) {
		i = 1
	}
	if i == len(bs) {
		return 0, false
	}
	if len(bs)-i > 60 {
		Unsupported("Atoi of long symbolic string")
	}
	// decimal shortcut: the digits are a registered rendering of a term
	for j := i; j < len(bs); j++ {
		if !byteIs(bs[j], func(c byte) bool { return c >= '0' && c <= '9' }, func(t *sym.Term) *sym.Term { return inRange(t, '0', '9') }) {
			return 0, false
		}
	}
	var acc *sym.Term
	if t, ok := cx.decimals[digitsKey(bs[i:])]; ok {
		acc = t
	} else {
		acc = sym.Int(0)
		for j := i; j < len(bs); j++ {
			acc = sym.Add(sym.Mul(acc, sym.Int(10)), sym.Sub(byteTerm(bs[j]), sym.Int('0')))
		}
	}
	if neg {
		acc = sym.Neg(acc)
	}
	if len(bs)-i > 18 {
		// may not fit: strconv saturates and reports a range error (the caller sees atoiRange)
		if cx.Branch(sym.Gt(acc, sym.IntBig(kindHi[types.Int64]))) {
			atoiRange = true
			return concInt(types.Int, kindHi[types.Int64]), true
		}
		if cx.Branch(sym.Lt(acc, sym.IntBig(kindLo[types.Int64]))) {
			atoiRange = true
			return concInt(types.Int, kindLo[types.Int64]), true
		}
	}
	return mkSymInt(acc, types.Int), true
}

// atoiRange is set by atoiV when the digits do not fit into an int64 (value saturated).
var atoiRange bool

// itoaV renders an integer value in decimal.
func itoaV(x value) value {
	s, ok := x.(*Sym)
	if !ok {
		return strconv.FormatInt(asInt64(x), 10)
	}
	t := s.T
	neg := false
	if !t.NonNeg() {
		if cx.Branch(sym.Lt(t, sym.Int(0))) {
			neg = true
			t = sym.Neg(t)
		}
	}
	// number of digits: fork over the feasible counts
	maxDigits := 19
	if t.Hi != nil {
		maxDigits = len(t.Hi.String())
		if t.Lo != nil && t.Lo.Sign() < 0 {
			if l := len(new(big.Int).Neg(t.Lo).String()); l > maxDigits {
				maxDigits = l
			}
		}
	}
	n := 1
	p := big.NewInt(10)
	for n < maxDigits {
		if cx.Branch(sym.Lt(t, sym.IntBig(new(big.Int).Set(p)))) {
			break
		}
		n++
		p.Mul(p, big.NewInt(10))
	}
	d := decimalDigits(&Sym{T: t, K: types.Int}, n)
	if neg {
		return strConcat("-", d)
	}
	return d
}

func init() {
	reg("strings.TrimSpace", func(fr *frame, a []value) value { return trimSpaceV(a[0]) })
	reg("strings.ToLower", func(fr *frame, a []value) value { return caseMap(a[0], false) })
	reg("strings.ToUpper", func(fr *frame, a []value) value { return caseMap(a[0], true) })
	reg("strings.Trim", func(fr *frame, a []value) value { return trimCutset(a[0], a[1], true, true) })
	reg("strings.TrimLeft", func(fr *frame, a []value) value { return trimCutset(a[0], a[1], true, false) })
	reg("strings.TrimRight", func(fr *frame, a []value) value { return trimCutset(a[0], a[1], false, true) })
	reg("strings.TrimRightFunc", func(fr *frame, a []value) value {
		bs := strBytes(a[0])
		stop := len(bs)
		for stop > 0 {
			b := bs[stop-1]
			var r value
			w := 1
			if c, ok := b.(uint8); ok && c >= utf8.RuneSelf {
				cs, ok := mkStr(bs[:stop]).(string)
				if !ok {
					Unsupported("TrimRightFunc: non-ASCII in symbolic string")
				}
				rr, ww := utf8.DecodeLastRuneInString(cs)
				r, w = int32(rr), ww
			} else if c, ok := b.(uint8); ok {
				r = int32(c)
			} else {
				requireASCII(b, "TrimRightFunc")
				r = mkSymInt(b.(*Sym).T, types.Int32)
			}
			if !cx.BranchV(call(fr.i, fr, fr.callpos, a[1], []value{r})) {
				break
			}
			stop -= w
		}
		return mkStr(bs[:stop])
	})
	reg("strings.Replace", func(fr *frame, a []value) value {
		if allConcStr(a[0], a[1], a[2]) {
			return strings.Replace(a[0].(string), a[1].(string), a[2].(string), int(asInt64(a[3])))
		}
		return replaceV(a[0], a[1], a[2], int(asInt64(a[3])))
	})
	reg("strings.ReplaceAll", func(fr *frame, a []value) value {
		if allConcStr(a[0], a[1], a[2]) {
			return strings.ReplaceAll(a[0].(string), a[1].(string), a[2].(string))
		}
		return replaceV(a[0], a[1], a[2], -1)
	})
	reg("strings.Split", func(fr *frame, a []value) value {
		if allConcStr(a[0], a[1]) {
			return strSliceVal(strings.Split(a[0].(string), a[1].(string)))
		}
		return splitV(a[0], a[1], -1)
	})
	reg("strings.Join", func(fr *frame, a []value) value {
		elems := a[0].([]value)
		var out []value
		for i, e := range elems {
			if i > 0 {
				out = append(out, strBytes(a[1])...)
			}
			out = append(out, strBytes(e)...)
		}
		return mkStr(out)
	})
	reg("strings.Index", func(fr *frame, a []value) value {
		if allConcStr(a[0], a[1]) {
			return strings.Index(a[0].(string), a[1].(string))
		}
		return indexV(a[0], a[1])
	})
	reg("strings.Contains", func(fr *frame, a []value) value {
		if allConcStr(a[0], a[1]) {
			return strings.Contains(a[0].(string), a[1].(string))
		}
		return indexV(a[0], a[1]) >= 0
	})
	reg("strings.HasSuffix", func(fr *frame, a []value) value {
		bs, ss := strBytes(a[0]), strBytes(a[1])
		if len(ss) > len(bs) {
			return false
		}
		return matchAt(bs, len(bs)-len(ss), ss)
	})
	reg("strings.HasPrefix", func(fr *frame, a []value) value {
		bs, ss := strBytes(a[0]), strBytes(a[1])
		if len(ss) > len(bs) {
			return false
		}
		return matchAt(bs, 0, ss)
	})
	reg("strings.Repeat", func(fr *frame, a []value) value {
		n := int(concretizeInt(a[1], "strings.Repeat count", 256))
		if n < 0 {
			panic(targetPanic{v: mkError("strings: negative Repeat count")})
		}
		bs := strBytes(a[0])
		if n*len(bs) > 1<<24 {
			Unsupported("strings.Repeat result too large")
		}
		var out []value
		for i := 0; i < n; i++ {
			out = append(out, bs...)
		}
		return mkStr(out)
	})
	reg("strings.NewReader", func(fr *frame, a []value) value {
		var v value = &stringsReader{bs: strBytes(a[0])}
		return &v
	})
	reg("strconv.Atoi", func(fr *frame, a []value) value {
		atoiRange = false
		n, ok := atoiV(a[0])
		if !ok {
			return tuple{0, mkError(strConcat(strConcat("strconv.Atoi: parsing \"", a[0]), "\": invalid syntax"))}
		}
		if atoiRange {
			atoiRange = false
			return tuple{n, mkError(strConcat(strConcat("strconv.Atoi: parsing \"", a[0]), "\": value out of range"))}
		}
		return tuple{n, nilError()}
	})
	reg("strconv.Itoa", func(fr *frame, a []value) value { return itoaV(a[0]) })
	reg("strconv.ParseFloat", func(fr *frame, a []value) value {
		if cs, ok := a[0].(string); ok {
			f, err := strconv.ParseFloat(cs, int(asInt64(a[1])))
			if err != nil {
				return tuple{f, mkError(err.Error())}
			}
			return tuple{f, nilError()}
		}
		return parseFloatV(a[0])
	})
	reg("unicode.IsUpper", func(fr *frame, a []value) value {
		if s, ok := a[0].(*Sym); ok {
			if cx.Branch(sym.And(sym.Le(sym.Int(0), s.T), sym.Lt(s.T, sym.Int(0x80)))) {
				return mkSymBool(inRange(s.T, 'A', 'Z'))
			}
			return unicode.IsUpper(rune(concretizeInt(s, "unicode.IsUpper", 1<<16)))
		}
		return unicode.IsUpper(rune(asInt64(a[0])))
	})
	reg("unicode.IsSpace", func(fr *frame, a []value) value {
		if s, ok := a[0].(*Sym); ok {
			if cx.Branch(sym.And(sym.Le(sym.Int(0), s.T), sym.Lt(s.T, sym.Int(0x80)))) {
				return mkSymBool(asciiSpaceTerm(s.T))
			}
			return unicode.IsSpace(rune(concretizeInt(s, "unicode.IsSpace", 1<<16)))
		}
		return unicode.IsSpace(rune(asInt64(a[0])))
	})
	runeCase := func(upper bool) modelFn {
		return func(fr *frame, a []value) value {
			f := unicode.ToLower
			if upper {
				f = unicode.ToUpper
			}
			if s, ok := a[0].(*Sym); ok {
				if cx.Branch(sym.And(sym.Le(sym.Int(0), s.T), sym.Lt(s.T, sym.Int(0x80)))) {
					if upper {
						return mkSymInt(sym.Ite(inRange(s.T, 'a', 'z'), sym.Sub(s.T, sym.Int(32)), s.T), types.Int32)
					}
					return mkSymInt(sym.Ite(inRange(s.T, 'A', 'Z'), sym.Add(s.T, sym.Int(32)), s.T), types.Int32)
				}
				return int32(f(rune(concretizeInt(s, "unicode.ToLower/ToUpper", 1<<16))))
			}
			return int32(f(rune(asInt64(a[0]))))
		}
	}
	reg("unicode.ToLower", runeCase(false))
	reg("unicode.ToUpper", runeCase(true))
	reg("html.EscapeString", func(fr *frame, a []value) value {
		if cs, ok := a[0].(string); ok {
			return html.EscapeString(cs)
		}
		var out []value
		for _, b := range strBytes(a[0]) {
			if c, ok := b.(uint8); ok {
				out = append(out, strBytes(html.EscapeString(string([]byte{c})))...)
				continue
			}
			t := b.(*Sym).T
			specials := []byte{'&', '\'', '<', '>', '"'}
			conds := make([]*sym.Term, len(specials)+1)
			var neq []*sym.Term
			for i, sp := range specials {
				conds[i] = sym.Eq(t, sym.Int(int64(sp)))
				neq = append(neq, sym.Not(conds[i]))
			}
			conds[len(specials)] = sym.And(neq...)
			k := cx.Choose(len(conds), conds)
			if k < len(specials) {
				out = append(out, strBytes(html.EscapeString(string([]byte{specials[k]})))...)
			} else {
				out = append(out, b)
			}
		}
		return mkStr(out)
	})
	reg("bytes.Compare", func(fr *frame, a []value) value {
		x, y := mkStr(a[0].([]value)), mkStr(a[1].([]value))
		if cx.BranchV(strEq(x, y)) {
			return 0
		}
		if cx.BranchV(strLess(x, y)) {
			return -1
		}
		return 1
	})

	// bytes.Buffer / strings.Builder
	reg("bytes.NewBuffer", func(fr *frame, a []value) value {
		var v value = &bytesBuffer{bs: append([]value(nil), a[0].([]value)...)}
		return &v
	})
	reg("bytes.NewBufferString", func(fr *frame, a []value) value {
		var v value = &bytesBuffer{bs: append([]value(nil), strBytes(a[0])...)}
		return &v
	})
	buf := func(v value) *bytesBuffer { return (*v.(*value)).(*bytesBuffer) }
	for _, T := range []string{"(*bytes.Buffer)", "(*strings.Builder)"} {
		reg(T+".WriteString", func(fr *frame, a []value) value {
			b := buf(a[0])
			b.bs = append(b.bs, strBytes(a[1])...)
			return tuple{strLen(a[1]), nilError()}
		})
		reg(T+".WriteByte", func(fr *frame, a []value) value {
			b := buf(a[0])
			b.bs = append(b.bs, a[1])
			return nilError()
		})
		reg(T+".Write", func(fr *frame, a []value) value {
			b := buf(a[0])
			b.bs = append(b.bs, a[1].([]value)...)
			return tuple{len(a[1].([]value)), nilError()}
		})
		reg(T+".String", func(fr *frame, a []value) value {
			p := a[0].(*value)
			if p == nil {
				return "<nil>"
			}
			b := buf(a[0])
			return mkStr(b.bs[b.off:])
		})
		reg(T+".Len", func(fr *frame, a []value) value { b := buf(a[0]); return len(b.bs) - b.off })
	}
	for _, T := range []string{"(*bytes.Buffer)", "(*strings.Builder)"} {
		reg(T+".Grow", func(fr *frame, a []value) value { return nil })
		reg(T+".Cap", func(fr *frame, a []value) value { b := buf(a[0]); return len(b.bs) - b.off })
		reg(T+".Reset", func(fr *frame, a []value) value { b := buf(a[0]); b.bs, b.off = nil, 0; return nil })
		reg(T+".WriteRune", func(fr *frame, a []value) value {
			b := buf(a[0])
			s := strBytes(runeToStr(a[1]))
			b.bs = append(b.bs, s...)
			return tuple{len(s), nilError()}
		})
	}
	reg("(*strings.Builder).copyCheck", func(fr *frame, a []value) value { return nil })
	reg("(*bytes.Buffer).Bytes", func(fr *frame, a []value) value {
		b := buf(a[0])
		return append([]value(nil), b.bs[b.off:]...)
	})

	// bufio.Reader over strings.Reader / bytes.Buffer
	reg("bufio.NewReader", func(fr *frame, a []value) value {
		src := a[0].(iface)
		r := &bufioReader{}
		switch s := src.v.(type) {
		case *value:
			switch o := (*s).(type) {
			case *stringsReader:
				r.src = o
			case *bytesBuffer:
				r.src = &stringsReader{bs: o.bs[o.off:]}
				o.off = len(o.bs)
			case *bufioReader:
				return s
			default:
				r.generic = &src
			}
		default:
			r.generic = &src
		}
		if r.generic != nil {
			// an interpreted io.Reader: read it to the end eagerly through its Read method
			r.src = &stringsReader{bs: readAllFrom(fr, *r.generic)}
			r.generic = nil
		}
		var v value = r
		return &v
	})
	br := func(v value) *bufioReader { return (*v.(*value)).(*bufioReader) }
	reg("(*bufio.Reader).ReadByte", func(fr *frame, a []value) value {
		r := br(a[0]).src
		if r.pos >= len(r.bs) {
			return tuple{uint8(0), ioEOF()}
		}
		b := r.bs[r.pos]
		r.pos++
		return tuple{b, nilError()}
	})
	reg("(*bufio.Reader).Peek", func(fr *frame, a []value) value {
		r := br(a[0]).src
		n := int(asInt64(a[1]))
		if n < 0 {
			return tuple{[]value(nil), mkError("bufio: negative count")}
		}
		if r.pos+n > len(r.bs) {
			return tuple{append([]value(nil), r.bs[r.pos:]...), ioEOF()}
		}
		return tuple{append([]value(nil), r.bs[r.pos:r.pos+n]...), nilError()}
	})
	reg("(*bufio.Reader).Discard", func(fr *frame, a []value) value {
		r := br(a[0]).src
		n := int(asInt64(a[1]))
		if r.pos+n > len(r.bs) {
			d := len(r.bs) - r.pos
			r.pos = len(r.bs)
			return tuple{d, ioEOF()}
		}
		r.pos += n
		return tuple{n, nilError()}
	})
	reg("(*strings.Reader).Read", func(fr *frame, a []value) value {
		r := (*a[0].(*value)).(*stringsReader)
		dst := a[1].([]value)
		if r.pos >= len(r.bs) {
			return tuple{0, ioEOF()}
		}
		n := copy(dst, r.bs[r.pos:])
		r.pos += n
		return tuple{n, nilError()}
	})
	extGlobals["io.EOF"] = func(i *interpreter) value { return ioEOF() }
}

type bytesBuffer struct {
	bs  []value
	off int
}

type stringsReader struct {
	bs  []value
	pos int
}

type bufioReader struct {
	src     *stringsReader
	generic *iface
}

var ioEOFVal value

func ioEOF() value {
	if ioEOFVal == nil {
		ioEOFVal = mkError("EOF")
	}
	return ioEOFVal
}

// readAllFrom drains an interpreted io.Reader.
func readAllFrom(fr *frame, r iface) []value {
	m := findMethod(fr.i, r.t, "Read")
	if m == nil {
		Unsupported("bufio.NewReader over %s", r.t)
	}
	var out []value
	for iter := 0; iter < 1<<16; iter++ {
		buf := make([]value, 512)
		for i := range buf {
			buf[i] = uint8(0)
		}
		res := call(fr.i, fr, fr.callpos, m, []value{r.v, buf}).(tuple)
		n := int(asInt64(res[0]))
		out = append(out, buf[:n]...)
		if e := res[1].(iface); e.t != nil {
			break
		}
		if n == 0 {
			Unsupported("reader returned 0, nil")
		}
	}
	return out
}

// parseFloatV parses a symbolic decimal string: [+-]?digits[.digits] | [+-]?.digits
func parseFloatV(s value) value {
	bs := strBytes(s)
	bad := func() value {
		return tuple{float64(0), mkError(strConcat(strConcat("strconv.ParseFloat: parsing \"", s), "\": invalid syntax"))}
	}
	i := 0
	neg := false
	if len(bs) == 0 {
		return bad()
	}
	// a concrete byte that occurs in no float syntax (decimal, exponent, hex, inf, infinity, nan,
	// underscores) makes the string invalid whatever the symbolic bytes are
	for _, b := range bs {
		if c, ok := b.(uint8); ok && strings.IndexByte("0123456789+-._eEpPxXaAbBcCdDfFiInNtTyY", c) < 0 {
			return bad()
		}
	}
	isB := func(b value, c byte) bool {
		return byteIs(b, func(x byte) bool { return x == c }, func(t *sym.Term) *sym.Term { return sym.Eq(t, sym.Int(int64(c))) })
	}
	isDigit := func(b value) bool {
		return byteIs(b, func(c byte) bool { return c >= '0' && c <= '9' }, func(t *sym.Term) *sym.Term { return inRange(t, '0', '9') })
	}
	if isB(bs[0], '-') {
		neg = true
		i++
	} else if isB(bs[0], '+') {
		i++
	}
	num := sym.Int(0)
	scale := int64(1)
	digits := 0
	sawDot := false
	for ; i < len(bs); i++ {
		b := bs[i]
		if isDigit(b) {
			num = sym.Add(sym.Mul(num, sym.Int(10)), sym.Sub(byteTerm(b), sym.Int('0')))
			digits++
			if sawDot {
				scale *= 10
			}
			continue
		}
		if !sawDot && isB(b, '.') {
			sawDot = true
			continue
		}
		// any other byte: exponent / inf / nan / hex / underscore forms are not modelled symbolically.
		// None of them fits in fewer than 3 bytes ("1e5", "inf", "nan", "0x1p0"), so a shorter string
		// with such a byte is simply invalid.
		if len(bs) >= 3 && byteIs(b, func(c byte) bool { return strings.IndexByte("eEpPxXiInN_aAfFtTyY", c) >= 0 }, func(t *sym.Term) *sym.Term {
			var ds []*sym.Term
			for _, c := range []byte("eEpPxXiInN_aAfFtTyY") {
				ds = append(ds, sym.Eq(t, sym.Int(int64(c))))
			}
			return sym.Or(ds...)
		}) {
			Unsupported("ParseFloat: exponent/inf/nan/hex syntax on symbolic input")
		}
		return bad()
	}
	if digits == 0 {
		return bad()
	}
	if digits > 15 {
		Unsupported("ParseFloat: more than 15 symbolic digits")
	}
	var r *sym.Term = sym.ToReal(num)
	if scale > 1 {
		// correctly rounded decimal conversion; a decimal that denotes an integer ("2.0") is that
		// integer exactly (at most 15 digits, so it is representable)
		whole := sym.Eq(sym.ModFloor(num, sym.Int(scale)), sym.Int(0))
		r = sym.Ite(whole, sym.ToReal(sym.DivFloor(num, sym.Int(scale))), sym.Rnd(sym.RDiv(r, sym.RealF(float64(scale)))))
	}
	if neg {
		r = sym.Neg(r)
	}
	return tuple{mkSymFloat(r), nilError()}
}
