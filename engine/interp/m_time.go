package interp

import (
	"go/types"
	"math/big"
	"time"

	"gosym/sym"
)

// timeVal models time.Time in UTC as (days since 0001-01-01, nanoseconds within
// the day), both Int terms (constants when concrete). Keeping the day number
// separate keeps 86400e9-sized constants out of date comparisons.
// civ caches the civil date when known.
type timeVal struct {
	days *sym.Term // nil = 0
	ns   *sym.Term // nil = 0; invariant 0 <= ns < nsPerDay
	civ  *civil
}

type civil struct{ Y, M, D *sym.Term }

var (
	nsPerSec   = big.NewInt(1_000_000_000)
	nsPerDay   = new(big.Int).Mul(big.NewInt(86400), nsPerSec)
	nsPerDayT  = sym.IntBig(nsPerDay)
	unixToAbsS = int64(62135596800) // seconds from year 1 to 1970
)

func (t timeVal) daysT() *sym.Term {
	if t.days == nil {
		return sym.Int(0)
	}
	return t.days
}

func (t timeVal) nsT() *sym.Term {
	if t.ns == nil {
		return sym.Int(0)
	}
	return t.ns
}

// absT is nanoseconds since the zero time (big constants: avoid in comparisons).
func (t timeVal) absT() *sym.Term {
	return sym.Add(sym.Mul(t.daysT(), nsPerDayT), t.nsT())
}

func timeEqT(x, y timeVal) *sym.Term {
	return sym.And(sym.Eq(x.daysT(), y.daysT()), sym.Eq(x.nsT(), y.nsT()))
}

func timeLtT(x, y timeVal) *sym.Term {
	return sym.Or(sym.Lt(x.daysT(), y.daysT()), sym.And(sym.Eq(x.daysT(), y.daysT()), sym.Lt(x.nsT(), y.nsT())))
}

func timeStructEq(x, y timeVal) bool {
	return cx.Branch(timeEqT(x, y))
}

// mkTime normalises (days, ns) with arbitrary ns into the invariant form.
func mkTime(days, ns *sym.Term, civ *civil) timeVal {
	if ns.Lo != nil && ns.Hi != nil && ns.Lo.Sign() >= 0 && ns.Hi.Cmp(nsPerDay) < 0 {
		return timeVal{days: days, ns: ns, civ: civ}
	}
	return timeVal{days: sym.Add(days, sym.DivFloor(ns, nsPerDayT)), ns: sym.ModFloor(ns, nsPerDayT)}
}

func fromHostTime(t time.Time) timeVal {
	t = t.UTC()
	abs := new(big.Int).Add(big.NewInt(t.Unix()), big.NewInt(unixToAbsS))
	abs.Mul(abs, nsPerSec)
	abs.Add(abs, big.NewInt(int64(t.Nanosecond())))
	y, m, d := t.Date()
	days, ns := new(big.Int).DivMod(abs, nsPerDay, new(big.Int))
	return timeVal{days: sym.IntBig(days), ns: sym.IntBig(ns), civ: &civil{sym.Int(int64(y)), sym.Int(int64(m)), sym.Int(int64(d))}}
}

// toHostTime converts a concrete timeVal back (only when in range).
func toHostTime(t timeVal) (time.Time, bool) {
	a := t.absT()
	if !a.IsConst() {
		return time.Time{}, false
	}
	sec, ns := new(big.Int).DivMod(a.IV, nsPerSec, new(big.Int))
	sec.Sub(sec, big.NewInt(unixToAbsS))
	if !sec.IsInt64() {
		return time.Time{}, false
	}
	return time.Unix(sec.Int64(), ns.Int64()).UTC(), true
}

func leapT(y *sym.Term) *sym.Term {
	m4 := sym.Eq(sym.ModFloor(y, sym.Int(4)), sym.Int(0))
	m100 := sym.Eq(sym.ModFloor(y, sym.Int(100)), sym.Int(0))
	m400 := sym.Eq(sym.ModFloor(y, sym.Int(400)), sym.Int(0))
	return sym.Or(sym.And(m4, sym.Not(m100)), m400)
}

var cumDays = [13]int64{0, 31, 59, 90, 120, 151, 181, 212, 243, 273, 304, 334, 365}
var monthLen = [12]int64{31, 28, 31, 30, 31, 30, 31, 31, 30, 31, 30, 31}

func selectByMonth(m *sym.Term, tab []int64) *sym.Term {
	if m.IsConst() {
		i := m.IV.Int64()
		if i < 1 || i > int64(len(tab)) {
			i = int64(len(tab))
		}
		return sym.Int(tab[i-1])
	}
	res := sym.Int(tab[len(tab)-1])
	for i := len(tab) - 2; i >= 0; i-- {
		res = sym.Ite(sym.Eq(m, sym.Int(int64(i+1))), sym.Int(tab[i]), res)
	}
	return res
}

func daysInT(m, y *sym.Term) *sym.Term {
	base := selectByMonth(m, monthLen[:])
	return sym.Add(base, sym.Ite(sym.And(sym.Eq(m, sym.Int(2)), leapT(y)), sym.Int(1), sym.Int(0)))
}

// daysFromCivilT: days since 0001-01-01 for civil (y, m in 1..12, d any integer).
func daysFromCivilT(y, m, d *sym.Term) *sym.Term {
	y1 := sym.Sub(y, sym.Int(1))
	days := sym.Mul(sym.Int(365), y1)
	days = sym.Add(days, sym.DivFloor(y1, sym.Int(4)))
	days = sym.Sub(days, sym.DivFloor(y1, sym.Int(100)))
	days = sym.Add(days, sym.DivFloor(y1, sym.Int(400)))
	days = sym.Add(days, selectByMonth(m, cumDays[:12]))
	days = sym.Add(days, sym.Ite(sym.And(sym.Le(sym.Int(3), m), leapT(y)), sym.Int(1), sym.Int(0)))
	days = sym.Add(days, sym.Sub(d, sym.Int(1)))
	return days
}

// civilOf returns the civil date of t, introducing fresh variables when it is not known.
func civilOf(t timeVal) *civil {
	if t.civ != nil {
		return t.civ
	}
	days := t.daysT()
	if days.IsConst() {
		if ht, ok := toHostTime(timeVal{days: days}); ok {
			y, m, d := ht.Date()
			return &civil{sym.Int(int64(y)), sym.Int(int64(m)), sym.Int(int64(d))}
		}
		Unsupported("civil date of far-out-of-range time")
	}
	// supported window: years -9999..99999
	lo := daysFromCivilT(sym.Int(-9999), sym.Int(1), sym.Int(1))
	hi := daysFromCivilT(sym.Int(99999), sym.Int(12), sym.Int(31))
	if !cx.Branch(sym.And(sym.Le(lo, days), sym.Le(days, hi))) {
		Unsupported("civil date of time outside years -9999..99999")
	}
	Y := cx.newVar("civY", sym.SInt, big.NewInt(-9999), big.NewInt(99999))
	M := cx.newVar("civM", sym.SInt, big.NewInt(1), big.NewInt(12))
	D := cx.newVar("civD", sym.SInt, big.NewInt(1), big.NewInt(31))
	def := sym.And(sym.Eq(daysFromCivilT(Y, M, D), days), sym.Le(D, daysInT(M, Y)))
	cx.Assume(mkSymBool(def))
	registerCivil(Y, M, D, days)
	return &civil{Y, M, D}
}

// civSucc / civPred: closed forms of the calendar successor / predecessor of a valid civil date
// (facts of the Gregorian calendar, validated exhaustively by the self-test).
func civSucc(c *civil) *civil {
	lastOfMonth := sym.Eq(c.D, daysInT(c.M, c.Y))
	dec := sym.Eq(c.M, sym.Int(12))
	return &civil{
		Y: sym.Ite(sym.And(lastOfMonth, dec), sym.Add(c.Y, sym.Int(1)), c.Y),
		M: sym.Ite(lastOfMonth, sym.Ite(dec, sym.Int(1), sym.Add(c.M, sym.Int(1))), c.M),
		D: sym.Ite(lastOfMonth, sym.Int(1), sym.Add(c.D, sym.Int(1))),
	}
}

func civPred(c *civil) *civil {
	first := sym.Eq(c.D, sym.Int(1))
	jan := sym.Eq(c.M, sym.Int(1))
	pm := sym.Ite(jan, sym.Int(12), sym.Sub(c.M, sym.Int(1)))
	py := sym.Ite(sym.And(first, jan), sym.Sub(c.Y, sym.Int(1)), c.Y)
	return &civil{
		Y: py,
		M: sym.Ite(first, pm, c.M),
		D: sym.Ite(first, daysInT(pm, py), sym.Sub(c.D, sym.Int(1))),
	}
}

// dateT implements time.Date normalisation.
func dateT(y, m, d, h, mi, s, ns *sym.Term) timeVal {
	m0 := sym.Sub(m, sym.Int(1))
	var Y, M *sym.Term
	if m0.Lo != nil && m0.Hi != nil && m0.Lo.Sign() >= 0 && m0.Hi.Cmp(big.NewInt(11)) <= 0 {
		Y, M = y, m
	} else {
		Y = sym.Add(y, sym.DivFloor(m0, sym.Int(12)))
		M = sym.Add(sym.ModFloor(m0, sym.Int(12)), sym.Int(1))
	}
	days := daysFromCivilT(Y, M, d)
	if d.IsConst() && d.IV.Int64() >= 1 && d.IV.Int64() <= 28 {
		registerCivil(Y, M, d, days) // (Y, M) are normalised: a valid date
	}
	tod := sym.Add(sym.Add(sym.Mul(h, sym.Int(3600)), sym.Mul(mi, sym.Int(60))), s)
	tv := mkTime(days, sym.Add(sym.Mul(tod, sym.IntBig(nsPerSec)), ns), nil)
	// civil cache only when the day is certainly valid as written
	if d.IsConst() && d.IV.Int64() >= 1 && d.IV.Int64() <= 28 && tod.IsConst() && tod.IV.Sign() >= 0 && tod.IV.Int64() < 86400 && ns.IsConst() && ns.IV.Sign() >= 0 && ns.IV.Cmp(nsPerSec) < 0 {
		tv.civ = &civil{Y, M, d}
	}
	return tv
}

// civTriple is a validated civil date whose day number occurs on the current path.
type civTriple struct {
	Y, M, D, days *sym.Term
}

// registerCivil injects the calendar lemma "day numbers of valid dates are ordered like
// their (year, month, day) triples" for the new triple against every earlier one.
// The lemma is a fact of Gregorian arithmetic inside the window years 0..9999
// (validated exhaustively by the self-test); it is guarded by that window, so
// asserting it never changes the set of models. It only spares the solver from
// re-deriving injectivity of the day-number formula through div/mod for every
// comparison between two independent symbolic dates.
func registerCivil(Y, M, D, days *sym.Term) {
	if days.IsConst() {
		return
	}
	for _, o := range cx.civils {
		if o.days == days {
			return
		}
	}
	n := civTriple{Y, M, D, days}
	inWin := func(c civTriple) *sym.Term { return sym.And(sym.Le(sym.Int(0), c.Y), sym.Le(c.Y, sym.Int(9999))) }
	for _, o := range cx.civils {
		lexLt := sym.Or(sym.Lt(n.Y, o.Y),
			sym.And(sym.Eq(n.Y, o.Y), sym.Lt(n.M, o.M)),
			sym.And(sym.Eq(n.Y, o.Y), sym.Eq(n.M, o.M), sym.Lt(n.D, o.D)))
		lexEq := sym.And(sym.Eq(n.Y, o.Y), sym.Eq(n.M, o.M), sym.Eq(n.D, o.D))
		lemma := sym.Implies(sym.And(inWin(n), inWin(o)),
			sym.And(sym.Eq(sym.Lt(n.days, o.days), lexLt), sym.Eq(sym.Eq(n.days, o.days), lexEq)))
		cx.Solver.Assert(lemma)
		cx.Lemmas++
	}
	cx.civils = append(cx.civils, n)
}

func isDigitB(b value) bool {
	return byteIs(b, func(c byte) bool { return c >= '0' && c <= '9' }, func(t *sym.Term) *sym.Term { return inRange(t, '0', '9') })
}

func isSpaceB(b value) bool {
	return byteIs(b, func(c byte) bool { return c == ' ' }, func(t *sym.Term) *sym.Term { return sym.Eq(t, sym.Int(' ')) })
}

func digitsValue(bs []value) *sym.Term {
	if t, ok := cx.decimals[digitsKey(bs)]; ok {
		return t
	}
	acc := sym.Int(0)
	for _, b := range bs {
		acc = sym.Add(sym.Mul(acc, sym.Int(10)), sym.Sub(byteTerm(b), sym.Int('0')))
	}
	return acc
}

// getnum ports time.getnum(s, fixed=false).
func getnumV(bs []value) (*sym.Term, []value, bool) {
	if len(bs) == 0 || !isDigitB(bs[0]) {
		return nil, bs, false
	}
	if len(bs) < 2 || !isDigitB(bs[1]) {
		return digitsValue(bs[:1]), bs[1:], true
	}
	return digitsValue(bs[:2]), bs[2:], true
}

// skipSpaceV ports time.skip(value, " ").
func skipSpaceV(bs []value) ([]value, bool) {
	if len(bs) > 0 && !isSpaceB(bs[0]) {
		return bs, false
	}
	for len(bs) > 0 && isSpaceB(bs[0]) {
		bs = bs[1:]
	}
	return bs, true
}

// parseDMY ports time.Parse for the layout "_2 1 2006" on a symbolic string.
func parseDMY(s value) (timeVal, value) {
	bad := func(msg string) (timeVal, value) {
		return timeVal{}, mkError(strConcat(strConcat("parsing time \"", s), "\""+msg))
	}
	bs := strBytes(s)
	if len(bs) > 0 && isSpaceB(bs[0]) {
		bs = bs[1:]
	}
	day, rest, ok := getnumV(bs)
	if !ok {
		return bad(" as \"_2 1 2006\": cannot parse as \"_2\"")
	}
	rest, ok = skipSpaceV(rest)
	if !ok {
		return bad(" as \"_2 1 2006\": cannot parse as \" \"")
	}
	month, rest, ok := getnumV(rest)
	if !ok {
		return bad(" as \"_2 1 2006\": cannot parse as \"1\"")
	}
	monthBad := cx.Branch(sym.Or(sym.Le(month, sym.Int(0)), sym.Lt(sym.Int(12), month)))
	if monthBad {
		return bad(": month out of range")
	}
	rest, ok = skipSpaceV(rest)
	if !ok {
		return bad(" as \"_2 1 2006\": cannot parse as \" \"")
	}
	if len(rest) < 4 || !isDigitB(rest[0]) {
		return bad(" as \"_2 1 2006\": cannot parse as \"2006\"")
	}
	for _, b := range rest[1:4] {
		if !isDigitB(b) {
			return bad(" as \"_2 1 2006\": cannot parse as \"2006\"")
		}
	}
	year := digitsValue(rest[:4])
	rest = rest[4:]
	if len(rest) > 0 {
		return bad(": extra text")
	}
	if cx.Branch(sym.Or(sym.Lt(day, sym.Int(1)), sym.Lt(daysInT(month, year), day))) {
		return bad(": day out of range")
	}
	days := daysFromCivilT(year, month, day)
	registerCivil(year, month, day, days)
	return timeVal{days: days, ns: sym.Int(0), civ: &civil{year, month, day}}, nilError()
}

// ---------- time.Parse("_2 1 2006") on a lazy decimal string ----------

type lazyCur struct {
	segs []lazySeg
	si   int
	off  int
}

func newLazyCur(l lazyDec) (*lazyCur, bool) {
	var segs []lazySeg
	for _, sg := range l.segs {
		if sg.num == nil {
			if len(sg.lit) == 0 {
				continue
			}
			for _, b := range sg.lit {
				if _, ok := b.(uint8); !ok {
					return nil, false
				}
			}
			if n := len(segs); n > 0 && segs[n-1].num == nil {
				segs[n-1].lit = append(append([]value(nil), segs[n-1].lit...), sg.lit...)
				continue
			}
		}
		segs = append(segs, sg)
	}
	return &lazyCur{segs: segs}, true
}

func (c *lazyCur) atEnd() bool { return c.si >= len(c.segs) }
func (c *lazyCur) atNum() bool { return !c.atEnd() && c.segs[c.si].num != nil }

// peek returns the concrete byte at the cursor (only when in a literal).
func (c *lazyCur) peek(k int) (byte, bool) {
	if c.atEnd() || c.atNum() {
		return 0, false
	}
	lit := c.segs[c.si].lit
	if c.off+k < len(lit) {
		return lit[c.off+k].(uint8), true
	}
	return 0, false
}

func (c *lazyCur) advance(n int) {
	c.off += n
	if !c.atEnd() && !c.atNum() && c.off >= len(c.segs[c.si].lit) {
		c.si++
		c.off = 0
	}
}

// litRemaining is the number of literal bytes left in the current segment.
func (c *lazyCur) litRemaining() int {
	if c.atEnd() || c.atNum() {
		return 0
	}
	return len(c.segs[c.si].lit) - c.off
}

// nextIsNonDigit: after the current num segment comes the end or a literal non-digit.
func (c *lazyCur) numFollowedByNonDigit() bool {
	if c.si+1 >= len(c.segs) {
		return true
	}
	n := c.segs[c.si+1]
	if n.num != nil {
		return false
	}
	b := n.lit[0].(uint8)
	return b < '0' || b > '9'
}

// getnum: (value, ok, supported)
func (c *lazyCur) getnum() (*sym.Term, bool, bool) {
	if c.atEnd() {
		return nil, false, true
	}
	if c.atNum() {
		sg := c.segs[c.si]
		if sg.width != 0 || !c.numFollowedByNonDigit() {
			return nil, false, false
		}
		c.si++
		c.off = 0
		if cx.Branch(sym.Or(sym.Lt(sg.num, sym.Int(0)), sym.Lt(sym.Int(99), sg.num))) {
			return nil, false, true // "-5": not a digit; "123": two digits then a digit where a space is expected
		}
		return sg.num, true, true
	}
	b0, _ := c.peek(0)
	if b0 < '0' || b0 > '9' {
		return nil, false, true
	}
	n := 1
	v := int64(b0 - '0')
	if b1, ok := c.peek(1); ok && b1 >= '0' && b1 <= '9' {
		v = v*10 + int64(b1-'0')
		n = 2
	}
	if c.litRemaining() == n && c.si+1 < len(c.segs) {
		return nil, false, false // digits continue into a numeric segment
	}
	c.advance(n)
	return sym.Int(v), true, true
}

func (c *lazyCur) skipSpace() (bool, bool) {
	if c.atEnd() {
		return true, true
	}
	if c.atNum() {
		// a number where a space is expected: error unless the number is... always an error
		return false, true
	}
	if b, _ := c.peek(0); b != ' ' {
		return false, true
	}
	for {
		b, ok := c.peek(0)
		if !ok || b != ' ' {
			break
		}
		c.advance(1)
	}
	return true, true
}

// parseDMYLazy: (time, err, supported)
func parseDMYLazy(l lazyDec) (timeVal, value, bool) {
	c, ok := newLazyCur(l)
	if !ok {
		return timeVal{}, nil, false
	}
	bad := func(msg string) (timeVal, value, bool) {
		return timeVal{}, mkError("parsing time (symbolic decimal string)" + msg), true
	}
	if b, ok := c.peek(0); ok && b == ' ' {
		c.advance(1)
	}
	day, ok, sup := c.getnum()
	if !sup {
		return timeVal{}, nil, false
	}
	if !ok {
		return bad(": cannot parse day")
	}
	if ok, _ := c.skipSpace(); !ok {
		return bad(": cannot parse space")
	}
	month, ok, sup := c.getnum()
	if !sup {
		return timeVal{}, nil, false
	}
	if !ok {
		return bad(": cannot parse month")
	}
	if cx.Branch(sym.Or(sym.Le(month, sym.Int(0)), sym.Lt(sym.Int(12), month))) {
		return bad(": month out of range")
	}
	if ok, _ := c.skipSpace(); !ok {
		return bad(": cannot parse space")
	}
	// year: exactly four digits, then nothing
	var year *sym.Term
	if c.atEnd() {
		return bad(": cannot parse year")
	}
	if c.atNum() {
		sg := c.segs[c.si]
		if sg.width != 4 {
			return timeVal{}, nil, false
		}
		c.si++
		if cx.Branch(sym.Lt(sg.num, sym.Int(0))) {
			return bad(": cannot parse year")
		}
		if cx.Branch(sym.Lt(sym.Int(9999), sg.num)) {
			return bad(": extra text")
		}
		year = sg.num
	} else {
		if c.litRemaining() < 4 {
			if c.si+1 < len(c.segs) {
				return timeVal{}, nil, false
			}
			return bad(": cannot parse year")
		}
		v := int64(0)
		for k := 0; k < 4; k++ {
			b, _ := c.peek(k)
			if b < '0' || b > '9' {
				return bad(": cannot parse year")
			}
			v = v*10 + int64(b-'0')
		}
		c.advance(4)
		year = sym.Int(v)
	}
	if !c.atEnd() {
		return bad(": extra text")
	}
	if cx.Branch(sym.Or(sym.Lt(day, sym.Int(1)), sym.Lt(daysInT(month, year), day))) {
		return bad(": day out of range")
	}
	days := daysFromCivilT(year, month, day)
	registerCivil(year, month, day, days)
	return timeVal{days: days, ns: sym.Int(0), civ: &civil{year, month, day}}, nilError(), true
}

func intTermArg(v value) *sym.Term { return termOf(v) }

func timeArg(v value) timeVal {
	if t, ok := v.(timeVal); ok {
		return t
	}
	if p, ok := v.(*value); ok {
		return (*p).(timeVal)
	}
	panic("timeArg")
}

var minI64, maxI64 = sym.IntBig(kindLoInt64()), sym.IntBig(kindHiInt64())

func kindLoInt64() *big.Int { return new(big.Int).Neg(new(big.Int).Lsh(big.NewInt(1), 63)) }
func kindHiInt64() *big.Int {
	return new(big.Int).Sub(new(big.Int).Lsh(big.NewInt(1), 63), big.NewInt(1))
}

var processStart = time.Now().UTC()

func init() {
	reg("time.Parse", func(fr *frame, a []value) value {
		layout, ok := a[0].(string)
		if !ok {
			Unsupported("time.Parse with symbolic layout")
		}
		if cs, ok := a[1].(string); ok {
			t, err := time.Parse(layout, cs)
			if err != nil {
				return tuple{timeVal{}, mkError(err.Error())}
			}
			return tuple{fromHostTime(t), nilError()}
		}
		if layout != "_2 1 2006" {
			Unsupported("time.Parse of symbolic value with layout %q", layout)
		}
		if l, ok := a[1].(lazyDec); ok {
			if t, err, sup := parseDMYLazy(l); sup {
				return tuple{t, err}
			}
		}
		t, err := parseDMY(a[1])
		return tuple{t, err}
	})
	reg("time.Date", func(fr *frame, a []value) value {
		return dateT(intTermArg(a[0]), intTermArg(a[1]), intTermArg(a[2]), intTermArg(a[3]), intTermArg(a[4]), intTermArg(a[5]), intTermArg(a[6]))
	})
	reg("time.Now", func(fr *frame, a []value) value { return fromHostTime(processStart) })
	reg("time.Sleep", func(fr *frame, a []value) value { sched.yield(); return nil })
	reg("(time.Time).IsZero", func(fr *frame, a []value) value {
		t := timeArg(a[0])
		return mkSymBool(sym.And(sym.Eq(t.daysT(), sym.Int(0)), sym.Eq(t.nsT(), sym.Int(0))))
	})
	reg("(time.Time).Equal", func(fr *frame, a []value) value {
		return mkSymBool(timeEqT(timeArg(a[0]), timeArg(a[1])))
	})
	reg("(time.Time).Before", func(fr *frame, a []value) value {
		return mkSymBool(timeLtT(timeArg(a[0]), timeArg(a[1])))
	})
	reg("(time.Time).After", func(fr *frame, a []value) value {
		return mkSymBool(timeLtT(timeArg(a[1]), timeArg(a[0])))
	})
	reg("(time.Time).Add", func(fr *frame, a []value) value {
		t := timeArg(a[0])
		d := intTermArg(a[1])
		total := sym.Add(t.nsT(), d)
		if t.civ != nil && total.IsConst() {
			q, r := new(big.Int).DivMod(total.IV, nsPerDay, new(big.Int))
			switch {
			case q.Sign() == 0:
				return timeVal{days: t.daysT(), ns: sym.IntBig(r), civ: t.civ}
			case q.IsInt64() && q.Int64() == 1:
				return timeVal{days: sym.Add(t.daysT(), sym.Int(1)), ns: sym.IntBig(r), civ: civSucc(t.civ)}
			case q.IsInt64() && q.Int64() == -1:
				return timeVal{days: sym.Sub(t.daysT(), sym.Int(1)), ns: sym.IntBig(r), civ: civPred(t.civ)}
			}
		}
		return mkTime(t.daysT(), total, nil)
	})
	reg("(time.Time).Sub", func(fr *frame, a []value) value {
		t, u := timeArg(a[0]), timeArg(a[1])
		d := sym.Add(sym.Mul(sym.Sub(t.daysT(), u.daysT()), nsPerDayT), sym.Sub(t.nsT(), u.nsT()))
		// saturates at the int64 range
		sat := sym.Ite(sym.Lt(d, minI64), minI64, sym.Ite(sym.Lt(maxI64, d), maxI64, d))
		return mkSymInt(sat, types.Int64)
	})
	reg("(time.Time).Truncate", func(fr *frame, a []value) value {
		t := timeArg(a[0])
		d := intTermArg(a[1])
		if !d.IsConst() {
			Unsupported("Truncate by symbolic duration")
		}
		if d.IV.Sign() <= 0 {
			return t
		}
		if new(big.Int).Mod(nsPerDay, d.IV).Sign() != 0 {
			Unsupported("Truncate by a duration that does not divide a day")
		}
		ns := t.nsT()
		return timeVal{days: t.daysT(), ns: sym.Sub(ns, sym.ModFloor(ns, d)), civ: t.civ}
	})
	reg("(time.Time).AddDate", func(fr *frame, a []value) value {
		t := timeArg(a[0])
		c := civilOf(t)
		dy, dm, dd := intTermArg(a[1]), intTermArg(a[2]), intTermArg(a[3])
		if dy.IsConst() && dm.IsConst() && dd.IsConst() && dy.IV.Sign() == 0 && dm.IV.Sign() == 0 && !c.D.IsConst() {
			// +-1 day on a valid civil date: closed forms of the calendar successor / predecessor
			// (facts of the Gregorian calendar, validated exhaustively by the self-test)
			switch dd.IV.Int64() {
			case 0:
				return t
			case 1:
				return timeVal{days: sym.Add(t.daysT(), sym.Int(1)), ns: t.nsT(), civ: civSucc(c)}
			case -1:
				return timeVal{days: sym.Sub(t.daysT(), sym.Int(1)), ns: t.nsT(), civ: civPred(c)}
			}
		}
		if dy.IsConst() && dm.IsConst() && dd.IsConst() && dy.IV.Sign() == 0 && dm.IV.Sign() == 0 && c.D.IsConst() && c.D.IV.Int64() == 1 && dd.IV.Int64() == -1 {
			// the day before the first of a month
			return timeVal{days: sym.Sub(t.daysT(), sym.Int(1)), ns: t.nsT(), civ: civPred(c)}
		}
		r := dateT(sym.Add(c.Y, dy), sym.Add(c.M, dm), sym.Add(c.D, dd), sym.Int(0), sym.Int(0), sym.Int(0), sym.Int(0))
		return timeVal{days: r.daysT(), ns: t.nsT(), civ: r.civ}
	})
	reg("(time.Time).Year", func(fr *frame, a []value) value { return mkSymInt(civilOf(timeArg(a[0])).Y, types.Int) })
	reg("(time.Time).Month", func(fr *frame, a []value) value { return mkSymInt(civilOf(timeArg(a[0])).M, types.Int) })
	reg("(time.Time).Day", func(fr *frame, a []value) value { return mkSymInt(civilOf(timeArg(a[0])).D, types.Int) })
	reg("(time.Time).YearDay", func(fr *frame, a []value) value {
		c := civilOf(timeArg(a[0]))
		yd := sym.Add(sym.Add(selectByMonth(c.M, cumDays[:12]), sym.Ite(sym.And(sym.Le(sym.Int(3), c.M), leapT(c.Y)), sym.Int(1), sym.Int(0))), c.D)
		return mkSymInt(yd, types.Int)
	})
	reg("(time.Time).Unix", func(fr *frame, a []value) value {
		t := timeArg(a[0])
		s := sym.Sub(sym.Add(sym.Mul(t.daysT(), sym.Int(86400)), sym.DivFloor(t.nsT(), sym.IntBig(nsPerSec))), sym.Int(unixToAbsS))
		return mkSymInt(s, types.Int64)
	})
	reg("(time.Time).String", func(fr *frame, a []value) value {
		if ht, ok := toHostTime(timeArg(a[0])); ok {
			return ht.String()
		}
		Unsupported("String of symbolic time")
		return nil
	})
	reg("(time.Month).String", func(fr *frame, a []value) value {
		if s, ok := a[0].(*Sym); ok {
			if cx.Branch(inRange(s.T, 1, 12)) {
				m := concretizeInt(mkSymInt(s.T, types.Int), "Month.String", 64)
				return time.Month(m).String()
			}
			Unsupported("Month.String of out-of-range symbolic month")
		}
		return time.Month(asInt64(a[0])).String()
	})
	durF := func(unit float64) modelFn {
		return func(fr *frame, a []value) value {
			if s, ok := a[0].(*Sym); ok {
				// Duration.Hours etc: integer part + fractional part, each exact-ish; use one rounding of the quotient
				// Go: float64(d / unit) + float64(d % unit) / unit
				u := sym.Int(int64(unit))
				whole := sym.Rnd(sym.ToReal(sym.Quo(s.T, u)))
				frac := sym.Rnd(sym.RDiv(sym.Rnd(sym.ToReal(sym.Rem(s.T, u))), sym.RealF(unit)))
				return mkSymFloat(sym.Rnd(sym.Add(whole, frac)))
			}
			d := time.Duration(asInt64(a[0]))
			switch unit {
			case float64(time.Hour):
				return d.Hours()
			case float64(time.Minute):
				return d.Minutes()
			case float64(time.Second):
				return d.Seconds()
			}
			panic("durF")
		}
	}
	reg("(time.Duration).Hours", durF(float64(time.Hour)))
	reg("(time.Duration).Minutes", durF(float64(time.Minute)))
	reg("(time.Duration).Seconds", durF(float64(time.Second)))
	reg("(time.Duration).String", func(fr *frame, a []value) value {
		if _, ok := a[0].(*Sym); ok {
			Unsupported("Duration.String of symbolic duration")
		}
		return time.Duration(asInt64(a[0])).String()
	})
	extGlobals["time.UTC"] = func(i *interpreter) value { var v value = &opaqueObj{"time.UTC"}; return &v }
	extGlobals["time.Local"] = func(i *interpreter) value { var v value = &opaqueObj{"time.Local"}; return &v }
}
