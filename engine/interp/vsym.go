package interp

import (
	"fmt"
	"go/types"
	"math/big"
	"strings"

	"golang.org/x/tools/go/ssa"

	"gosym/sym"
)

// The harness API: calls into the virtual package .../internal/vsym are intercepted here.

const vsymSuffix = "/internal/vsym"

func isVsym(fn *ssa.Function) bool {
	return fn.Pkg != nil && strings.HasSuffix(fn.Pkg.Pkg.Path(), vsymSuffix) && fn.Parent() == nil && strings.HasPrefix(fn.Name(), "Vs")
}

func argStr(v value) string {
	s, ok := v.(string)
	if !ok {
		panic(abortPath{"internal", "vsym: name/label arguments must be concrete strings"})
	}
	return s
}

func argInt(v value) int64 {
	if _, ok := v.(*Sym); ok {
		panic(abortPath{"internal", "vsym: bound arguments must be concrete"})
	}
	return asInt64(v)
}

func boolTerm(v value) *sym.Term {
	switch v := v.(type) {
	case bool:
		return sym.Bool(v)
	case *Sym:
		return v.T
	}
	panic(fmt.Sprintf("boolTerm: %T", v))
}

type obsEntry struct {
	v value
}

func callVsym(fr *frame, fn *ssa.Function, args []value) value {
	c := cx
	switch fn.Name() {
	case "VsInt": // (name string, lo, hi int) int
		lo, hi := argInt(args[1]), argInt(args[2])
		if lo == hi {
			return int(lo)
		}
		return &Sym{T: c.newVar(argStr(args[0]), sym.SInt, big.NewInt(lo), big.NewInt(hi)), K: types.Int}
	case "VsInt64":
		lo, hi := argInt(args[1]), argInt(args[2])
		if lo == hi {
			return lo
		}
		return &Sym{T: c.newVar(argStr(args[0]), sym.SInt, big.NewInt(lo), big.NewInt(hi)), K: types.Int64}
	case "VsByte": // (name string, lo, hi byte) byte
		lo, hi := argInt(args[1]), argInt(args[2])
		if lo == hi {
			return uint8(lo)
		}
		return &Sym{T: c.newVar(argStr(args[0]), sym.SInt, big.NewInt(lo), big.NewInt(hi)), K: types.Uint8}
	case "VsBool":
		return &Sym{T: c.newVar(argStr(args[0]), sym.SBool, nil, nil), K: types.Bool}
	case "VsBytes": // (name string, n int, lo, hi byte) string
		n := int(argInt(args[1]))
		lo, hi := argInt(args[2]), argInt(args[3])
		bs := make([]value, n)
		for i := range bs {
			if lo == hi {
				bs[i] = uint8(lo)
			} else {
				bs[i] = &Sym{T: c.newVar(argStr(args[0]), sym.SInt, big.NewInt(lo), big.NewInt(hi)), K: types.Uint8}
			}
		}
		return mkStr(bs)
	case "VsBytesIn": // (name string, n int, alphabet string) string
		n := int(argInt(args[1]))
		alpha := argStr(args[2])
		if len(alpha) == 0 {
			panic(abortPath{"internal", "VsBytesIn: empty alphabet"})
		}
		lo, hi := alpha[0], alpha[0]
		for i := 0; i < len(alpha); i++ {
			if alpha[i] < lo {
				lo = alpha[i]
			}
			if alpha[i] > hi {
				hi = alpha[i]
			}
		}
		bs := make([]value, n)
		for i := range bs {
			if len(alpha) == 1 {
				bs[i] = alpha[0]
				continue
			}
			t := c.newVar(argStr(args[0]), sym.SInt, big.NewInt(int64(lo)), big.NewInt(int64(hi)))
			// membership as a disjunction of ranges
			var ds []*sym.Term
			present := [256]bool{}
			for j := 0; j < len(alpha); j++ {
				present[alpha[j]] = true
			}
			for a := int(lo); a <= int(hi); {
				if !present[a] {
					a++
					continue
				}
				b := a
				for b+1 <= int(hi) && present[b+1] {
					b++
				}
				if a == b {
					ds = append(ds, sym.Eq(t, sym.Int(int64(a))))
				} else {
					ds = append(ds, sym.And(sym.Le(sym.Int(int64(a)), t), sym.Le(t, sym.Int(int64(b)))))
				}
				a = b + 1
			}
			c.Assume(mkSymBool(sym.Or(ds...)))
			bs[i] = &Sym{T: t, K: types.Uint8}
		}
		return mkStr(bs)
	case "VsFloat": // (name string, lo, hi float64) float64
		lo, hi := args[1].(float64), args[2].(float64)
		t := c.newVar(argStr(args[0]), sym.SReal, nil, nil)
		c.Assume(mkSymBool(sym.And(sym.Le(sym.RealF(lo), t), sym.Le(t, sym.RealF(hi)))))
		return &Sym{T: t, K: types.Float64}
	case "VsChoose": // (name string, n int) int
		n := int(argInt(args[1]))
		name := argStr(args[0])
		k := c.varCount["choose:"+name]
		c.varCount["choose:"+name] = k + 1
		i := c.Choose(n, nil)
		if c.choices == nil {
			c.choices = map[string]string{}
		}
		c.choices[fmt.Sprintf("%s#%d", name, k)] = fmt.Sprint(i)
		return i
	case "VsAssume":
		c.Assume(args[0])
		return nil
	case "VsLemma": // (label string, cond bool): a fact proved by another harness of the same check
		c.Lemma(argStr(args[0]), args[1], callerSite(fr))
		return nil
	case "VsAssert": // (label string, cond bool)
		c.Assert(argStr(args[0]), args[1], callerSite(fr))
		return nil
	case "VsReach":
		c.Reached[argStr(args[0])]++
		return nil
	case "VsAnd":
		return mkSymBool(sym.And(boolTerm(args[0]), boolTerm(args[1])))
	case "VsOr":
		return mkSymBool(sym.Or(boolTerm(args[0]), boolTerm(args[1])))
	case "VsNot":
		return mkSymBool(sym.Not(boolTerm(args[0])))
	case "VsImplies":
		return mkSymBool(sym.Implies(boolTerm(args[0]), boolTerm(args[1])))
	case "VsIff":
		return mkSymBool(sym.Eq(boolTerm(args[0]), boolTerm(args[1])))
	case "VsAll": // (conds ...bool) bool
		var ts []*sym.Term
		for _, a := range args[0].([]value) {
			ts = append(ts, boolTerm(a))
		}
		return mkSymBool(sym.And(ts...))
	case "VsAny":
		var ts []*sym.Term
		for _, a := range args[0].([]value) {
			ts = append(ts, boolTerm(a))
		}
		return mkSymBool(sym.Or(ts...))
	case "VsIte": // (c, a, b bool) bool
		return mkSymBool(sym.Ite(boolTerm(args[0]), boolTerm(args[1]), boolTerm(args[2])))
	case "VsIteInt": // (c bool, a, b int) int
		cb, isC := args[0].(bool)
		if isC {
			if cb {
				return args[1]
			}
			return args[2]
		}
		return mkSymInt(sym.Ite(boolTerm(args[0]), termOf(args[1]), termOf(args[2])), types.Int)
	case "VsIteFloat":
		cb, isC := args[0].(bool)
		if isC {
			if cb {
				return args[1]
			}
			return args[2]
		}
		return mkSymFloat(sym.Ite(boolTerm(args[0]), termOf(args[1]), termOf(args[2])))
	case "VsSelectInt": // (i int, table []int) int : table[i] without forking; out of range -> last
		tab := args[1].([]value)
		if len(tab) == 0 {
			panic(abortPath{"internal", "VsSelectInt: empty table"})
		}
		if _, ok := args[0].(*Sym); !ok {
			i := asInt64(args[0])
			if i < 0 || i >= int64(len(tab)) {
				i = int64(len(tab) - 1)
			}
			return tab[i]
		}
		it := termOf(args[0])
		res := termOf(tab[len(tab)-1])
		for i := len(tab) - 2; i >= 0; i-- {
			res = sym.Ite(sym.Eq(it, sym.Int(int64(i))), termOf(tab[i]), res)
		}
		return mkSymInt(res, types.Int)
	case "VsDiv": // floor division by a positive constant, total (no panic, no fork)
		return mkSymInt(sym.DivFloor(termOf(args[0]), termOf(args[1])), types.Int)
	case "VsMod":
		return mkSymInt(sym.ModFloor(termOf(args[0]), termOf(args[1])), types.Int)
	case "VsDecimal": // (x int, width int) string: decimal rendering of x >= 0 with exactly width digits (zero padded)
		w := int(argInt(args[1]))
		if sx, ok := args[0].(*Sym); ok {
			limit := new(big.Int).Exp(big.NewInt(10), big.NewInt(int64(w)), nil)
			if sx.T.Hi == nil || sx.T.Hi.Cmp(limit) >= 0 || !sx.T.NonNeg() {
				// may need more than w digits (fmt's %0*d then prints the natural length): keep the
				// digit count undecided; consumers that cannot work lazily fork on it
				return lazyDec{segs: []lazySeg{{num: sx.T, width: w}}}
			}
		} else {
			return fmt.Sprintf("%0*d", w, asInt64(args[0]))
		}
		return decimalDigits(args[0], w)
	case "VsObserve": // (x interface{})
		ov := args[0]
		if i, ok := ov.(iface); ok {
			i.v = normStr(i.v)
			ov = i
		}
		c.trace = append(c.trace, "")
		c.obs = append(c.obs, ov)
		return nil
	case "VsClassSet": // replaces the class (for per-step classification in histories)
		c.class = argStr(args[0])
		return nil
	case "VsClass":
		cl := argStr(args[0])
		for _, have := range strings.Split(c.class, ",") {
			if have == cl {
				return nil
			}
		}
		if c.class != "" {
			c.class += ","
		}
		c.class += cl
		return nil
	case "VsIsSymbolic": // (x interface{}) bool : does any part of x depend on a symbolic variable
		return deepSymbolic(args[0], 0)
	case "VsNative":
		return false
	case "VsEmit": // (key, value string)
		if c.emits == nil {
			c.emits = map[string]string{}
		}
		v := args[1]
		if _, ok := v.(string); !ok {
			v = toString(v)
		}
		c.emits[argStr(args[0])] += v.(string)
		return nil
	case "VsDayNumber": // (t time.Time) int : days since 0001-01-01 UTC
		return mkSymInt(timeArg(args[0]).daysT(), types.Int)
	case "VsNsOfDay": // (t time.Time) int : nanoseconds since midnight UTC
		return mkSymInt(timeArg(args[0]).nsT(), types.Int)
	case "VsStrEq": // (a, b string) bool without forking
		return strEq(args[0], args[1])
	case "VsLen":
		return strLen(args[0])
	}
	panic(abortPath{"internal", "unknown vsym primitive " + fn.Name()})
}

func callerSite(fr *frame) string {
	if fr.caller != nil {
		return fr.caller.site(fr.callpos)
	}
	return ""
}

// decimalDigits renders non-negative x with exactly w digits as byte terms.
func decimalDigits(x value, w int) value {
	if _, ok := x.(*Sym); !ok {
		return fmt.Sprintf("%0*d", w, asInt64(x))
	}
	t := termOf(x)
	bs := make([]value, w)
	p := big.NewInt(1)
	for i := w - 1; i >= 0; i-- {
		d := sym.ModFloor(sym.DivFloor(t, sym.IntBig(new(big.Int).Set(p))), sym.Int(10))
		bs[i] = mkSymInt(sym.Add(d, sym.Int('0')), types.Uint8)
		p.Mul(p, big.NewInt(10))
	}
	s := mkStr(bs)
	if ss, ok := s.(symstr); ok {
		cx.registerDecimal(ss, t)
	}
	return s
}

// registerDecimal remembers that the byte terms of s are the decimal digits of t.
func (c *Ctx) registerDecimal(s symstr, t *sym.Term) {
	if c.decimals == nil {
		c.decimals = map[string]*sym.Term{}
	}
	c.decimals[digitsKey(s)] = t
}

func digitsKey(bs []value) string {
	var sb strings.Builder
	for _, b := range bs {
		switch b := b.(type) {
		case uint8:
			fmt.Fprintf(&sb, "c%d,", b)
		case *Sym:
			fmt.Fprintf(&sb, "t%d,", b.T.ID)
		}
	}
	return sb.String()
}

// deepSymbolic reports whether v contains a symbolic scalar (bounded depth walk).
func deepSymbolic(v value, depth int) bool {
	if depth > 6 {
		return false
	}
	switch v := v.(type) {
	case *Sym, symstr, lazyDec:
		return true
	case iface:
		return deepSymbolic(v.v, depth+1)
	case structure:
		for _, x := range v {
			if deepSymbolic(x, depth+1) {
				return true
			}
		}
	case array:
		for _, x := range v {
			if deepSymbolic(x, depth+1) {
				return true
			}
		}
	case []value:
		for _, x := range v {
			if deepSymbolic(x, depth+1) {
				return true
			}
		}
	case *value:
		if v != nil {
			return deepSymbolic(*v, depth+1)
		}
	}
	return false
}

// renderTrace renders the VsObserve'd values under the path's witness model.
func (c *Ctx) renderTrace() []string {
	if len(c.obs) == 0 {
		return nil
	}
	m := c.model
	if m == nil {
		m = sym.NewModel()
	}
	out := make([]string, len(c.obs))
	for i, v := range c.obs {
		out[i] = renderObs(v, m)
	}
	return out
}

func renderObs(v value, m *sym.Model) string {
	switch v := v.(type) {
	case iface:
		if v.t == nil {
			return "nil"
		}
		return renderObs(v.v, m)
	case *Sym:
		ev, ok := sym.Eval(v.T, m, map[int]sym.EvalVal{})
		if !ok {
			return "?"
		}
		switch v.T.Sort {
		case sym.SBool:
			return fmt.Sprint(ev.B)
		case sym.SInt:
			return ev.I.String()
		default:
			f, _ := ev.R.Float64()
			return fmt.Sprintf("~%.9g", f)
		}
	case symstr:
		buf := make([]byte, len(v))
		for i, b := range v {
			switch b := b.(type) {
			case uint8:
				buf[i] = b
			case *Sym:
				ev, ok := sym.Eval(b.T, m, map[int]sym.EvalVal{})
				if ok {
					buf[i] = byte(ev.I.Int64())
				} else {
					buf[i] = '?'
				}
			}
		}
		return fmt.Sprintf("%q", string(buf))
	case string:
		return fmt.Sprintf("%q", v)
	case float64:
		return fmt.Sprintf("~%.9g", v)
	case bool, int, int8, int16, int32, int64, uint, uint8, uint16, uint32, uint64:
		return fmt.Sprint(v)
	}
	return toString(v)
}
