package interp

// A virtual file system behind the os functions that the repo's DirectoryFileWriter (and a harness that
// reads its output back) uses: MkdirTemp, MkdirAll, RemoveAll, Create, OpenFile, Open, ReadFile, ReadDir
// is not needed. Files are byte slices of engine values (bytes may be symbolic); paths are concrete
// strings. Semantics follow the os package for regular files: O_CREATE / O_EXCL / O_TRUNC / O_APPEND,
// writes at the file offset (overwriting, extending), a missing parent directory or a missing file is
// ENOENT. Per path: the file system is empty at the start of every explored path.

import (
	"fmt"
	"os"
	"path"
	"strings"
)

type virtualFS struct {
	files map[string]*[]value
	dirs  map[string]bool
	temps int
}

type osFile struct {
	name   string
	data   *[]value
	off    int
	closed bool
	write  bool
	read   bool
	append bool
}

func getVFS() *virtualFS {
	if cx.vfs == nil {
		cx.vfs = &virtualFS{files: map[string]*[]value{}, dirs: map[string]bool{"/": true, "/tmp": true, ".": true}}
	}
	return cx.vfs
}

func concretePath(v value, what string) string {
	s, ok := v.(string)
	if !ok {
		Unsupported("%s: symbolic path", what)
	}
	return path.Clean(s)
}

func pathError(op, p, msg string) value {
	return mkError(op + " " + p + ": " + msg)
}

func (fs *virtualFS) open(name string, flag int) (value, value) {
	if fs.dirs[name] {
		if flag&(os.O_WRONLY|os.O_RDWR) != 0 {
			return (*value)(nil), pathError("open", name, "is a directory")
		}
	}
	if !fs.dirs[path.Dir(name)] {
		return (*value)(nil), pathError("open", name, "no such file or directory")
	}
	data, exists := fs.files[name]
	switch {
	case exists && flag&os.O_CREATE != 0 && flag&os.O_EXCL != 0:
		return (*value)(nil), pathError("open", name, "file exists")
	case !exists && flag&os.O_CREATE == 0:
		return (*value)(nil), pathError("open", name, "no such file or directory")
	case !exists:
		data = &[]value{}
		fs.files[name] = data
	}
	f := &osFile{name: name, data: data}
	switch flag & (os.O_RDONLY | os.O_WRONLY | os.O_RDWR) {
	case os.O_WRONLY:
		f.write = true
	case os.O_RDWR:
		f.write, f.read = true, true
	default:
		f.read = true
	}
	if flag&os.O_TRUNC != 0 && f.write {
		*data = nil
	}
	f.append = flag&os.O_APPEND != 0
	var v value = f
	return &v, nilError()
}

func init() {
	file := func(v value) *osFile {
		p := v.(*value)
		if p == nil {
			panic(runtimeError("invalid memory address or nil pointer dereference"))
		}
		return (*p).(*osFile)
	}
	reg("os.MkdirTemp", func(fr *frame, a []value) value {
		fs := getVFS()
		dir, _ := a[0].(string)
		if dir == "" {
			dir = "/tmp"
		}
		pattern, ok := a[1].(string)
		if !ok {
			Unsupported("os.MkdirTemp: symbolic pattern")
		}
		if !fs.dirs[path.Clean(dir)] {
			return tuple{"", pathError("mkdir", dir, "no such file or directory")}
		}
		fs.temps++
		name := path.Join(dir, strings.Replace(pattern, "*", "", 1)+fmt.Sprintf("gosym%04d", fs.temps))
		fs.dirs[name] = true
		return tuple{name, nilError()}
	})
	reg("os.MkdirAll", func(fr *frame, a []value) value {
		fs := getVFS()
		name := concretePath(a[0], "os.MkdirAll")
		for d := name; d != "/" && d != "."; d = path.Dir(d) {
			if _, isFile := fs.files[d]; isFile {
				return pathError("mkdir", d, "not a directory")
			}
			fs.dirs[d] = true
		}
		return nilError()
	})
	reg("os.RemoveAll", func(fr *frame, a []value) value {
		fs := getVFS()
		name := concretePath(a[0], "os.RemoveAll")
		for f := range fs.files {
			if f == name || strings.HasPrefix(f, name+"/") {
				delete(fs.files, f)
			}
		}
		for d := range fs.dirs {
			if d == name || strings.HasPrefix(d, name+"/") {
				delete(fs.dirs, d)
			}
		}
		return nilError()
	})
	reg("os.Create", func(fr *frame, a []value) value {
		f, err := getVFS().open(concretePath(a[0], "os.Create"), os.O_RDWR|os.O_CREATE|os.O_TRUNC)
		return tuple{f, err}
	})
	reg("os.OpenFile", func(fr *frame, a []value) value {
		flag, ok := a[1].(int)
		if !ok {
			Unsupported("os.OpenFile: symbolic flags")
		}
		f, err := getVFS().open(concretePath(a[0], "os.OpenFile"), flag)
		return tuple{f, err}
	})
	reg("os.Open", func(fr *frame, a []value) value {
		f, err := getVFS().open(concretePath(a[0], "os.Open"), os.O_RDONLY)
		return tuple{f, err}
	})
	reg("os.ReadFile", func(fr *frame, a []value) value {
		fs := getVFS()
		name := concretePath(a[0], "os.ReadFile")
		data, ok := fs.files[name]
		if !ok {
			return tuple{[]value(nil), pathError("open", name, "no such file or directory")}
		}
		return tuple{append([]value{}, (*data)...), nilError()}
	})
	write := func(f *osFile, bs []value) value {
		if f.closed {
			return tuple{0, pathError("write", f.name, "file already closed")}
		}
		if !f.write {
			return tuple{0, pathError("write", f.name, "bad file descriptor")}
		}
		if f.append {
			f.off = len(*f.data)
		}
		for len(*f.data) < f.off {
			*f.data = append(*f.data, byte(0))
		}
		for i, b := range bs {
			if f.off+i < len(*f.data) {
				(*f.data)[f.off+i] = b
			} else {
				*f.data = append(*f.data, b)
			}
		}
		f.off += len(bs)
		return tuple{len(bs), nilError()}
	}
	reg("(*os.File).Write", func(fr *frame, a []value) value { return write(file(a[0]), a[1].([]value)) })
	reg("(*os.File).WriteString", func(fr *frame, a []value) value { return write(file(a[0]), strBytes(a[1])) })
	reg("(*os.File).Close", func(fr *frame, a []value) value {
		f := file(a[0])
		if f.closed {
			return pathError("close", f.name, "file already closed")
		}
		f.closed = true
		return nilError()
	})
	reg("(*os.File).Name", func(fr *frame, a []value) value { return file(a[0]).name })
}
