// Portions adapted from golang.org/x/tools/go/ssa/interp (BSD-3-Clause, see
// ../third_party/LICENSE.x-tools). Copyright 2013 The Go Authors.

package interp

// Values
//
// All interpreter values are boxed in the empty interface, value.
//
// - bool, intN, uintN, float32/64, string             concrete scalars (host values)
// - *Sym                                               symbolic scalar (bool / integer / float64)
// - symstr                                             string of concrete length with >= 1 symbolic byte
// - *Map                                               maps (insertion ordered)
// - *Chan                                              channels (cooperative scheduler)
// - []value                                            slices
// - iface                                              interfaces (dynamic type always concrete)
// - structure, array                                   aggregates (copied on load/store)
// - *value                                             pointers
// - *ssa.Function, *ssa.Builtin, *closure, *nativeFn   functions
// - tuple                                              multi-values
// - opaque model objects (timeVal, *regexpObj, ...)     owned by the stdlib models

import (
	"bytes"
	"fmt"
	"go/types"
	"reflect"
	"unsafe"

	"golang.org/x/tools/go/ssa"
	"golang.org/x/tools/go/types/typeutil"

	"gosym/sym"
)

type value interface{}

type tuple []value

type array []value

type iface struct {
	t types.Type // never an "untyped" type
	v value
}

type structure []value

// Sym is a symbolic scalar. K is the Go basic kind it stands for.
type Sym struct {
	T *sym.Term
	K types.BasicKind
}

// symstr is a string whose length is concrete and whose bytes are uint8 or *Sym(Uint8).
type symstr []value

// nativeFn is a function value implemented by the engine (method values of model objects etc.).
type nativeFn struct {
	name string
	fn   func(fr *frame, args []value) value
}

// For map, string etc.
type iter interface {
	next() tuple
}

type closure struct {
	Fn  *ssa.Function
	Env []value
}

type bad struct{}

// rtype is the engine's reflect.Type / reflect.rtype.
type rtype struct {
	t types.Type
}

func hashString(s string) int {
	var h uint32
	for i := 0; i < len(s); i++ {
		h ^= uint32(s[i])
		h *= 16777619
	}
	return int(h)
}

var hasher = typeutil.MakeHasher()

func hashType(t types.Type) int {
	return int(hasher.Hash(t))
}

// nil-tolerant variant of types.Identical.
func sameType(x, y types.Type) bool {
	if x == nil {
		return y == nil
	}
	return y != nil && types.Identical(x, y)
}

// isSymbolic reports whether v (shallowly) is a symbolic scalar or string.
func isSymbolic(v value) bool {
	switch v.(type) {
	case *Sym, symstr, lazyDec:
		return true
	}
	return false
}

// equalsV returns x == y for type t as a value: bool or *Sym(Bool).
func equalsV(t types.Type, x, y value) value {
	x, y = normStr(x), normStr(y)
	switch x := x.(type) {
	case *Sym:
		return symCompare("==", x, y)
	case symstr:
		return strEq(x, y)
	case structure:
		y := y.(structure)
		tStruct := t.Underlying().(*types.Struct)
		var acc value = true
		for i, n := 0, tStruct.NumFields(); i < n; i++ {
			if f := tStruct.Field(i); f.Name() != "_" {
				acc = andV(acc, equalsV(f.Type(), x[i], y[i]))
				if acc == false {
					return false
				}
			}
		}
		return acc
	case array:
		y := y.(array)
		tElt := t.Underlying().(*types.Array).Elem()
		var acc value = true
		for i, xi := range x {
			acc = andV(acc, equalsV(tElt, xi, y[i]))
			if acc == false {
				return false
			}
		}
		return acc
	case iface:
		y := y.(iface)
		if !sameType(x.t, y.t) {
			return false
		}
		if x.t == nil {
			return true
		}
		if !types.Comparable(x.t) {
			panic(runtimeError("comparing uncomparable type " + x.t.String()))
		}
		return equalsV(x.t, x.v, y.v)
	}
	switch y := y.(type) {
	case *Sym:
		return symCompare("==", x, y)
	case symstr:
		return strEq(x, y)
	}
	return equals(t, x, y)
}

// andV conjoins two bool-or-Sym values without forking.
func andV(a, b value) value {
	if ab, ok := a.(bool); ok {
		if !ab {
			return false
		}
		return b
	}
	if bb, ok := b.(bool); ok {
		if !bb {
			return false
		}
		return a
	}
	return mkSymBool(sym.And(a.(*Sym).T, b.(*Sym).T))
}

func notV(a value) value {
	if ab, ok := a.(bool); ok {
		return !ab
	}
	return mkSymBool(sym.Not(a.(*Sym).T))
}

// equals is the concrete equality relation.
func equals(t types.Type, x, y value) bool {
	switch x := x.(type) {
	case bool:
		return x == y.(bool)
	case int:
		return x == y.(int)
	case int8:
		return x == y.(int8)
	case int16:
		return x == y.(int16)
	case int32:
		return x == y.(int32)
	case int64:
		return x == y.(int64)
	case uint:
		return x == y.(uint)
	case uint8:
		return x == y.(uint8)
	case uint16:
		return x == y.(uint16)
	case uint32:
		return x == y.(uint32)
	case uint64:
		return x == y.(uint64)
	case uintptr:
		return x == y.(uintptr)
	case float32:
		return x == y.(float32)
	case float64:
		return x == y.(float64)
	case complex64:
		return x == y.(complex64)
	case complex128:
		return x == y.(complex128)
	case string:
		return x == y.(string)
	case *value:
		return x == y.(*value)
	case *Chan:
		return x == y.(*Chan)
	case rtype:
		return types.Identical(x.t, y.(rtype).t)
	case structure, array, iface:
		r := equalsV(t, x, y)
		if b, ok := r.(bool); ok {
			return b
		}
		return cx.BranchV(r)
	case timeVal:
		return timeStructEq(x, y.(timeVal))
	}
	if isModelObject(x) {
		return x == y
	}
	panic(runtimeError(fmt.Sprintf("comparing uncomparable type %s", t)))
}

// hash returns a hash of concrete x such that equals(x, y) => hash(x) == hash(y).
// ok=false if x contains a symbolic component.
func hashV(t types.Type, x value) (h int, ok bool) {
	x = normStr(x)
	switch x := x.(type) {
	case bool:
		if x {
			return 1, true
		}
		return 0, true
	case int:
		return x, true
	case int8:
		return int(x), true
	case int16:
		return int(x), true
	case int32:
		return int(x), true
	case int64:
		return int(x), true
	case uint:
		return int(x), true
	case uint8:
		return int(x), true
	case uint16:
		return int(x), true
	case uint32:
		return int(x), true
	case uint64:
		return int(x), true
	case uintptr:
		return int(x), true
	case float32:
		return int(x), true
	case float64:
		return int(x), true
	case string:
		return hashString(x), true
	case *value:
		return int(uintptr(unsafe.Pointer(x))), true
	case *Chan:
		return int(uintptr(unsafe.Pointer(x))), true
	case rtype:
		return hashType(x.t), true
	case structure:
		tStruct := t.Underlying().(*types.Struct)
		h := 0
		for i, n := 0, tStruct.NumFields(); i < n; i++ {
			hi, ok := hashV(tStruct.Field(i).Type(), x[i])
			if !ok {
				return 0, false
			}
			h = h*31 + hi
		}
		return h, true
	case array:
		tElt := t.Underlying().(*types.Array).Elem()
		h := 0
		for _, xi := range x {
			hi, ok := hashV(tElt, xi)
			if !ok {
				return 0, false
			}
			h = h*31 + hi
		}
		return h, true
	case iface:
		if x.t == nil {
			return 0, true
		}
		if !types.Comparable(x.t) {
			panic(runtimeError("hash of unhashable type " + x.t.String()))
		}
		hi, ok := hashV(x.t, x.v)
		return hashType(x.t)*8581 + hi, ok
	case *Sym, symstr:
		return 0, false
	}
	if isModelObject(x) {
		rv := reflect.ValueOf(x)
		if rv.Kind() == reflect.Ptr {
			return int(rv.Pointer()), true
		}
		return 7, true
	}
	panic(runtimeError(fmt.Sprintf("hash of unhashable type %v (%T)", t, x)))
}

// load returns the value of type T in *addr.
func load(T types.Type, addr *value) value {
	switch T := T.Underlying().(type) {
	case *types.Struct:
		v, ok := (*addr).(structure)
		if !ok {
			return *addr // model-owned struct (time.Time etc.)
		}
		a := make(structure, len(v))
		for i := range a {
			a[i] = load(T.Field(i).Type(), &v[i])
		}
		return a
	case *types.Array:
		v := (*addr).(array)
		a := make(array, len(v))
		for i := range a {
			a[i] = load(T.Elem(), &v[i])
		}
		return a
	default:
		return *addr
	}
}

// store stores value v of type T into *addr.
func store(T types.Type, addr *value, v value) {
	switch T := T.Underlying().(type) {
	case *types.Struct:
		lhs, ok := (*addr).(structure)
		rhs, ok2 := v.(structure)
		if !ok || !ok2 {
			*addr = v // model-owned struct
			return
		}
		for i := range lhs {
			store(T.Field(i).Type(), &lhs[i], rhs[i])
		}
	case *types.Array:
		lhs := (*addr).(array)
		rhs := v.(array)
		for i := range lhs {
			store(T.Elem(), &lhs[i], rhs[i])
		}
	default:
		*addr = v
	}
}

// copyVal makes an unaliased copy of an aggregate value.
func copyVal(v value) value {
	switch v := v.(type) {
	case structure:
		a := make(structure, len(v))
		for i := range v {
			a[i] = copyVal(v[i])
		}
		return a
	case array:
		a := make(array, len(v))
		for i := range v {
			a[i] = copyVal(v[i])
		}
		return a
	}
	return v
}

func writeValue(buf *bytes.Buffer, v value) {
	switch v := v.(type) {
	case nil, bool, int, int8, int16, int32, int64, uint, uint8, uint16, uint32, uint64, uintptr, float32, float64, complex64, complex128:
		fmt.Fprintf(buf, "%v", v)
	case string:
		fmt.Fprintf(buf, "%q", v)
	case *Sym:
		fmt.Fprintf(buf, "<sym %s>", v.T)
	case symstr:
		buf.WriteString("<symstr ")
		for _, b := range v {
			if c, ok := b.(uint8); ok {
				fmt.Fprintf(buf, "%q", c)
			} else {
				buf.WriteString("?")
			}
		}
		buf.WriteString(">")
	case *Map:
		buf.WriteString("map[")
		if v != nil {
			sep := ""
			for _, e := range v.entries {
				if e.deleted {
					continue
				}
				buf.WriteString(sep)
				sep = " "
				writeValue(buf, e.key)
				buf.WriteString(":")
				writeValue(buf, e.val)
			}
		}
		buf.WriteString("]")
	case *Chan:
		fmt.Fprintf(buf, "chan(%p)", v)
	case *value:
		if v == nil {
			buf.WriteString("<nil>")
		} else {
			fmt.Fprintf(buf, "%p", v)
		}
	case iface:
		fmt.Fprintf(buf, "(%s, ", v.t)
		writeValue(buf, v.v)
		buf.WriteString(")")
	case structure:
		buf.WriteString("{")
		for i, e := range v {
			if i > 0 {
				buf.WriteString(" ")
			}
			writeValue(buf, e)
		}
		buf.WriteString("}")
	case array:
		buf.WriteString("[")
		for i, e := range v {
			if i > 0 {
				buf.WriteString(" ")
			}
			writeValue(buf, e)
		}
		buf.WriteString("]")
	case []value:
		buf.WriteString("[")
		for i, e := range v {
			if i > 0 {
				buf.WriteString(" ")
			}
			writeValue(buf, e)
		}
		buf.WriteString("]")
	case *ssa.Function, *ssa.Builtin, *closure:
		fmt.Fprintf(buf, "%p", v)
	case rtype:
		buf.WriteString(v.t.String())
	case tuple:
		buf.WriteString("(")
		for i, e := range v {
			if i > 0 {
				buf.WriteString(", ")
			}
			writeValue(buf, e)
		}
		buf.WriteString(")")
	default:
		fmt.Fprintf(buf, "<%T>", v)
	}
}

func toString(v value) string {
	var b bytes.Buffer
	writeValue(&b, v)
	return b.String()
}
