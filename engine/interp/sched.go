package interp

import (
	"fmt"
	"go/token"
	"sync"
)

// Cooperative goroutines: each interpreted goroutine is a host goroutine, but
// exactly one runs at a time (baton passing). Switches happen only at blocking
// or synchronising operations.

type G struct {
	id      int
	wake    chan struct{}
	done    bool
	ready   func() bool // nil = runnable
	what    string      // what it is blocked on (diagnostics)
	started bool
	fn      value
	args    []value
	pos     token.Pos
	vc      vclock // vector clock (race monitor)
}

type scheduler struct {
	gs     []*G
	cur    *G
	main   *G
	killed bool
	crash  interface{} // panic that escaped a non-main goroutine
	crashG int
	abort  *abortPath // abort raised on a non-main goroutine
	wg     sync.WaitGroup
}

var sched *scheduler

func newScheduler() *scheduler {
	m := &G{id: 0, wake: make(chan struct{}, 1), started: true, vc: vclock{1}}
	return &scheduler{gs: []*G{m}, cur: m, main: m}
}

// goStart registers a new goroutine; it does not run until the current one blocks.
func (s *scheduler) goStart(i *interpreter, fn value, args []value, pos token.Pos) {
	g := &G{id: len(s.gs), wake: make(chan struct{}, 1), fn: fn, args: args, pos: pos}
	s.gs = append(s.gs, g)
	raceGo(s.cur, g)
	s.wg.Add(1)
	go func() {
		defer s.wg.Done()
		<-g.wake
		if s.killed {
			return
		}
		g.started = true
		defer func() {
			g.done = true
			if r := recover(); r != nil {
				if ap, ok := r.(abortPath); ok {
					if ap.kind == "killed" {
						return
					}
					s.abort = &ap
				} else {
					s.crash = r
					s.crashG = g.id
				}
				// hand control to main, which will re-raise
				s.cur = s.main
				s.main.ready = nil
				s.main.wake <- struct{}{}
				return
			}
			s.exitG(g)
		}()
		call(i, nil, pos, fn, args)
	}()
}

// runnable reports whether g can make progress.
func (g *G) runnable() bool {
	if g.done {
		return false
	}
	return g.ready == nil || g.ready()
}

// pick chooses the next goroutine to run (nil = none runnable).
func (s *scheduler) pick(exclude *G) *G {
	var cands []*G
	for _, g := range s.gs {
		if g != exclude && g.runnable() {
			cands = append(cands, g)
		}
	}
	if exclude != nil && exclude.runnable() {
		cands = append(cands, exclude) // the yielding goroutine goes last
	}
	if len(cands) == 0 {
		return nil
	}
	// Schedule exploration: every choice other than the default (lowest id first) costs one unit of
	// the budget; when it is used up the default scheduler decides.
	if cx.SchedBudget >= 0 && len(cands) > 1 && cx.preempts < cx.SchedBudget {
		i := cx.Choose(len(cands), nil)
		if i > 0 {
			cx.preempts++
		}
		return cands[i]
	}
	return cands[0]
}

// visible is called before an operation that other goroutines can observe (channel operation,
// sync.Map access, mutex). With a schedule budget it is a pre-emption point: the running
// goroutine may be descheduled here in favour of any other runnable one.
func (s *scheduler) visible() {
	if cx.SchedBudget == -2 && len(s.gs) >= 2 {
		// fair deterministic schedule: hand over to the next runnable goroutine in cyclic order at
		// every visible operation (used with the race monitor, so that all workers get work)
		me := s.cur
		n := len(s.gs)
		for k := 1; k < n; k++ {
			g := s.gs[(me.id+k)%n]
			if g.runnable() {
				s.switchTo(g)
				return
			}
		}
		return
	}
	if cx.SchedBudget <= 0 || cx.preempts >= cx.SchedBudget || len(s.gs) < 2 {
		return
	}
	me := s.cur
	var cands []*G
	for _, g := range s.gs {
		if g != me && g.runnable() {
			cands = append(cands, g)
		}
	}
	if len(cands) == 0 {
		return
	}
	i := cx.Choose(len(cands)+1, nil) // 0 = keep running
	if i == 0 {
		return
	}
	cx.preempts++
	s.switchTo(cands[i-1])
}

// switchTo passes the baton to g and parks the current goroutine until it is woken.
func (s *scheduler) switchTo(g *G) {
	me := s.cur
	if g == me {
		return
	}
	s.cur = g
	g.wake <- struct{}{}
	<-me.wake
	s.afterWake(me)
}

func (s *scheduler) afterWake(me *G) {
	if s.killed {
		panic(abortPath{"killed", ""})
	}
	if me == s.main {
		if s.abort != nil {
			a := *s.abort
			s.abort = nil
			panic(a)
		}
		if s.crash != nil {
			c := s.crash
			s.crash = nil
			panic(goroutineCrash{c, s.crashG})
		}
	}
}

// goroutineCrash is raised on the main goroutine when another goroutine died of a panic.
type goroutineCrash struct {
	p interface{}
	g int
}

// block parks the current goroutine until ready() holds.
func (s *scheduler) block(what string, ready func() bool) {
	me := s.cur
	if ready() {
		return
	}
	me.ready, me.what = ready, what
	for !ready() {
		g := s.pick(me)
		if g == nil {
			s.deadlock()
		}
		if g == me {
			break
		}
		s.switchTo(g)
	}
	me.ready, me.what = nil, ""
}

// yield lets other runnable goroutines run (time.Sleep, runtime.Gosched).
func (s *scheduler) yield() {
	me := s.cur
	g := s.pick(me)
	if g == nil || g == me {
		return
	}
	s.switchTo(g)
}

func (s *scheduler) deadlock() {
	var desc string
	for _, g := range s.gs {
		if !g.done {
			desc += fmt.Sprintf(" g%d:%s", g.id, g.what)
		}
	}
	a := abortPath{"deadlock", "all goroutines are asleep:" + desc}
	if s.cur == s.main {
		panic(a)
	}
	s.abort = &a
	me := s.cur
	s.cur = s.main
	s.main.wake <- struct{}{}
	<-me.wake
	panic(abortPath{"killed", ""})
}

// exitG is called when a non-main goroutine finishes normally.
func (s *scheduler) exitG(g *G) {
	next := s.pick(nil)
	if next == nil {
		// everything else is blocked, including main: deadlock is main's problem
		a := abortPath{"deadlock", "all goroutines are asleep (after exit of a goroutine)"}
		s.abort = &a
		next = s.main
	}
	s.cur = next
	next.wake <- struct{}{}
}

// killAll terminates all parked goroutines at the end of a path.
func (s *scheduler) killAll() {
	s.killed = true
	for _, g := range s.gs[1:] {
		if !g.done {
			select {
			case g.wake <- struct{}{}:
			default:
			}
		}
	}
	s.wg.Wait()
}

// leaked counts goroutines that never finished.
func (s *scheduler) leaked() int {
	n := 0
	for _, g := range s.gs[1:] {
		if !g.done {
			n++
		}
	}
	return n
}

// ---------- channels ----------

type sendWaiter struct {
	v      value
	taken  bool
	vc     vclock // clock of the sender at the send
	recvVC vclock // clock of the receiver that took it (unbuffered: the receive happens before the send completes)
}

type Chan struct {
	buf    []value
	bufVC  []vclock // clock of the sender of each buffered value
	cap    int
	closed bool
	sendq  []*sendWaiter
	recvw  int // receivers currently blocked on this channel
	// race monitor: the k-th receive happens before the (k+cap)-th send completes; close happens
	// before a receive that returns because the channel is closed
	recvVCs []vclock
	nsent   int
	closeVC vclock
}

func makeChan(n int) *Chan { return &Chan{cap: n} }

func chanSend(ch *Chan, v value) {
	sched.visible()
	if ch == nil {
		sched.block("send on nil chan", func() bool { return false })
	}
	if ch.closed {
		panic(targetPanic{v: runtimeErrValue("send on closed channel")})
	}
	var mv vclock
	raceRelease(&mv)
	n := ch.nsent
	ch.nsent++
	if len(ch.buf) < ch.cap {
		ch.buf = append(ch.buf, v)
		ch.bufVC = append(ch.bufVC, mv)
		if race.on && ch.cap > 0 && n >= ch.cap && n-ch.cap < len(ch.recvVCs) {
			raceAcquire(ch.recvVCs[n-ch.cap])
		}
		return
	}
	w := &sendWaiter{v: v, vc: mv}
	ch.sendq = append(ch.sendq, w)
	sched.block("chan send", func() bool { return w.taken || ch.closed })
	if !w.taken {
		panic(targetPanic{v: runtimeErrValue("send on closed channel")})
	}
	if race.on {
		if ch.cap == 0 {
			raceAcquire(w.recvVC)
		} else if n >= ch.cap && n-ch.cap < len(ch.recvVCs) {
			raceAcquire(ch.recvVCs[n-ch.cap])
		}
	}
}

func (ch *Chan) recvReady() bool {
	return len(ch.buf) > 0 || len(ch.sendq) > 0 || ch.closed
}

// take removes the next value (caller checked recvReady). It runs on the receiving goroutine.
func (ch *Chan) take() (value, bool) {
	received := func(from vclock) {
		if !race.on {
			return
		}
		raceAcquire(from)
		var rv vclock
		raceRelease(&rv)
		ch.recvVCs = append(ch.recvVCs, rv)
	}
	if len(ch.buf) > 0 {
		v := ch.buf[0]
		ch.buf = ch.buf[1:]
		var from vclock
		if len(ch.bufVC) > 0 {
			from = ch.bufVC[0]
			ch.bufVC = ch.bufVC[1:]
		}
		received(from)
		if len(ch.sendq) > 0 {
			w := ch.sendq[0]
			ch.sendq = ch.sendq[1:]
			ch.buf = append(ch.buf, w.v)
			ch.bufVC = append(ch.bufVC, w.vc)
			w.taken = true
		}
		return v, true
	}
	if len(ch.sendq) > 0 {
		w := ch.sendq[0]
		ch.sendq = ch.sendq[1:]
		w.taken = true
		received(w.vc)
		if race.on {
			w.recvVC = raceCur().vc.copy()
		}
		return w.v, true
	}
	raceAcquire(ch.closeVC)
	return nil, false // closed
}

func chanRecv(ch *Chan) (value, bool) {
	sched.visible()
	if ch == nil {
		sched.block("recv on nil chan", func() bool { return false })
	}
	if !ch.recvReady() {
		ch.recvw++
		sched.block("chan recv", ch.recvReady)
		ch.recvw--
	}
	return ch.take()
}

func chanClose(ch *Chan) {
	if ch == nil {
		panic(targetPanic{v: runtimeErrValue("close of nil channel")})
	}
	if ch.closed {
		panic(targetPanic{v: runtimeErrValue("close of closed channel")})
	}
	raceRelease(&ch.closeVC)
	ch.closed = true
}
