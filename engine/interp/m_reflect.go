package interp

import (
	"fmt"
	"go/types"
	"reflect"
	"sort"

	"golang.org/x/tools/go/ssa"
)

// reflectValue is the engine's reflect.Value.
type reflectValue struct {
	t    types.Type // nil = zero (invalid) Value
	v    value
	addr *value // non-nil when addressable / settable
	ro   bool   // obtained through an unexported field
	// bound method values
	recv   value
	method *ssa.Function
}

func kindOfType(t types.Type) reflect.Kind {
	switch u := t.Underlying().(type) {
	case *types.Basic:
		switch u.Kind() {
		case types.Bool:
			return reflect.Bool
		case types.Int:
			return reflect.Int
		case types.Int8:
			return reflect.Int8
		case types.Int16:
			return reflect.Int16
		case types.Int32:
			return reflect.Int32
		case types.Int64:
			return reflect.Int64
		case types.Uint:
			return reflect.Uint
		case types.Uint8:
			return reflect.Uint8
		case types.Uint16:
			return reflect.Uint16
		case types.Uint32:
			return reflect.Uint32
		case types.Uint64:
			return reflect.Uint64
		case types.Uintptr:
			return reflect.Uintptr
		case types.Float32:
			return reflect.Float32
		case types.Float64:
			return reflect.Float64
		case types.Complex64:
			return reflect.Complex64
		case types.Complex128:
			return reflect.Complex128
		case types.String:
			return reflect.String
		case types.UnsafePointer:
			return reflect.UnsafePointer
		}
	case *types.Array:
		return reflect.Array
	case *types.Chan:
		return reflect.Chan
	case *types.Signature:
		return reflect.Func
	case *types.Interface:
		return reflect.Interface
	case *types.Map:
		return reflect.Map
	case *types.Pointer:
		return reflect.Ptr
	case *types.Slice:
		return reflect.Slice
	case *types.Struct:
		return reflect.Struct
	}
	return reflect.Invalid
}

func (rv reflectValue) kind() reflect.Kind {
	if rv.t == nil {
		return reflect.Invalid
	}
	return kindOfType(rv.t)
}

// valueError mirrors reflect.ValueError panics.
func valueError(method string, k reflect.Kind) {
	msg := "reflect: call of " + method + " on zero Value"
	if k != reflect.Invalid {
		msg = "reflect: call of " + method + " on " + k.String() + " Value"
	}
	panic(targetPanic{v: mkError(msg)})
}

func reflectPanic(msg string) { panic(targetPanic{v: mkError(msg)}) }

func rvArg(v value) reflectValue {
	switch v := v.(type) {
	case reflectValue:
		return v
	case *value:
		if v == nil {
			panic(runtimeError("invalid memory address or nil pointer dereference"))
		}
		return (*v).(reflectValue)
	}
	panic(fmt.Sprintf("rvArg: %T", v))
}

func (i *interpreter) rtypeIface(t types.Type) value {
	if t == nil {
		return iface{}
	}
	return iface{t: i.rtypePtrT(), v: rtype{t}}
}

var rtypePtr types.Type

func (i *interpreter) rtypePtrT() types.Type {
	if rtypePtr == nil {
		rp := i.prog.ImportedPackage("reflect")
		if rp == nil {
			Unsupported("program does not import reflect")
		}
		rtypePtr = types.NewPointer(rp.Type("rtype").Type())
	}
	return rtypePtr
}

func rtypeArg(v value) types.Type {
	switch v := v.(type) {
	case iface:
		if v.t == nil {
			panic(runtimeError("invalid memory address or nil pointer dereference"))
		}
		return v.v.(rtype).t
	case rtype:
		return v.t
	}
	panic(fmt.Sprintf("rtypeArg: %T", v))
}

func isNilable(k reflect.Kind) bool {
	switch k {
	case reflect.Chan, reflect.Func, reflect.Map, reflect.Ptr, reflect.UnsafePointer, reflect.Interface, reflect.Slice:
		return true
	}
	return false
}

func valueIsNil(v value) bool {
	switch x := v.(type) {
	case *value:
		return x == nil
	case *Map:
		return x == nil
	case *Chan:
		return x == nil
	case []value:
		return x == nil
	case iface:
		return x.t == nil
	case *ssa.Function:
		return x == nil
	case *closure:
		return x == nil
	case *nativeFn:
		return x == nil
	case nil:
		return true
	}
	return false
}

func assignable(from, to types.Type) bool {
	return types.AssignableTo(from, to)
}

// toIface returns the interface{} value holding rv (reflect.Value.Interface).
func (rv reflectValue) toIface() value {
	if rv.kind() == reflect.Interface {
		if i, ok := rv.v.(iface); ok {
			return i
		}
	}
	return iface{t: rv.t, v: copyVal(rv.v)}
}

func (rv reflectValue) methodByName(i *interpreter, name string) reflectValue {
	t := rv.t
	recv := rv.v
	if rv.kind() == reflect.Interface {
		inner, ok := rv.v.(iface)
		if !ok || inner.t == nil {
			// method on nil interface: reflect returns a Value whose Call panics; keep it simple
			if _, isI := t.Underlying().(*types.Interface); isI {
				itf := t.Underlying().(*types.Interface)
				for k := 0; k < itf.NumMethods(); k++ {
					if itf.Method(k).Name() == name && itf.Method(k).Exported() {
						reflectPanic("reflect: Method on nil interface value")
					}
				}
			}
			return reflectValue{}
		}
		// restrict to the methods of the static interface type
		itf := t.Underlying().(*types.Interface)
		found := false
		for k := 0; k < itf.NumMethods(); k++ {
			if itf.Method(k).Name() == name {
				found = true
			}
		}
		if !found {
			return reflectValue{}
		}
		t, recv = inner.t, inner.v
	}
	ms := i.prog.MethodSets.MethodSet(t)
	for k := 0; k < ms.Len(); k++ {
		sel := ms.At(k)
		if sel.Obj().Name() == name && sel.Obj().Exported() {
			fn := i.prog.MethodValue(sel)
			if fn == nil {
				return reflectValue{}
			}
			sig := sel.Type().(*types.Signature)
			ft := types.NewSignatureType(nil, nil, nil, sig.Params(), sig.Results(), sig.Variadic())
			return reflectValue{t: ft, recv: recv, method: fn, v: fn}
		}
	}
	return reflectValue{}
}

func exportedMethods(i *interpreter, t types.Type) []*types.Selection {
	ms := i.prog.MethodSets.MethodSet(t)
	var out []*types.Selection
	for k := 0; k < ms.Len(); k++ {
		if ms.At(k).Obj().Exported() {
			out = append(out, ms.At(k))
		}
	}
	sort.Slice(out, func(a, b int) bool { return out[a].Obj().Name() < out[b].Obj().Name() })
	return out
}

// structOf builds a structure value for a named struct type of package reflect with the given fields.
func (i *interpreter) reflectStruct(typeName string, fields map[string]value) value {
	rp := i.prog.ImportedPackage("reflect")
	T := rp.Type(typeName).Type()
	st := T.Underlying().(*types.Struct)
	s := zero(T).(structure)
	for k := 0; k < st.NumFields(); k++ {
		if v, ok := fields[st.Field(k).Name()]; ok {
			s[k] = v
		}
	}
	return s
}

func reflectTypeString(t types.Type) string {
	return types.TypeString(t, func(p *types.Package) string { return p.Name() })
}

func init() {
	reg("reflect.ValueOf", func(fr *frame, a []value) value {
		i := a[0].(iface)
		if i.t == nil {
			return reflectValue{}
		}
		return reflectValue{t: i.t, v: i.v}
	})
	reg("reflect.TypeOf", func(fr *frame, a []value) value {
		i := a[0].(iface)
		return fr.i.rtypeIface(i.t)
	})
	reg("(reflect.Value).Kind", func(fr *frame, a []value) value { return uint(rvArg(a[0]).kind()) })
	reg("(reflect.Value).IsValid", func(fr *frame, a []value) value { return rvArg(a[0]).t != nil })
	reg("(reflect.Value).IsNil", func(fr *frame, a []value) value {
		rv := rvArg(a[0])
		k := rv.kind()
		if !isNilable(k) {
			valueError("reflect.Value.IsNil", k)
		}
		if rv.method != nil {
			return false
		}
		return valueIsNil(rv.v)
	})
	reg("(reflect.Value).Len", func(fr *frame, a []value) value {
		rv := rvArg(a[0])
		switch rv.kind() {
		case reflect.Slice:
			return len(rv.v.([]value))
		case reflect.Array:
			return len(rv.v.(array))
		case reflect.String:
			return strLen(rv.v)
		case reflect.Map:
			return rv.v.(*Map).len()
		case reflect.Chan:
			if c := rv.v.(*Chan); c != nil {
				return len(c.buf)
			}
			return 0
		case reflect.Ptr:
			if p, ok := rv.t.Underlying().(*types.Pointer); ok {
				if arr, ok := p.Elem().Underlying().(*types.Array); ok {
					return int(arr.Len())
				}
			}
		}
		valueError("reflect.Value.Len", rv.kind())
		return nil
	})
	reg("(reflect.Value).Index", func(fr *frame, a []value) value {
		rv := rvArg(a[0])
		idx := int(concretizeInt(a[1], "reflect.Value.Index", 4096))
		switch rv.kind() {
		case reflect.Slice:
			s := rv.v.([]value)
			if idx < 0 || idx >= len(s) {
				reflectPanic("reflect: slice index out of range")
			}
			return reflectValue{t: rv.t.Underlying().(*types.Slice).Elem(), v: s[idx], addr: &s[idx], ro: rv.ro}
		case reflect.Array:
			s := rv.v.(array)
			if idx < 0 || idx >= len(s) {
				reflectPanic("reflect: array index out of range")
			}
			r := reflectValue{t: rv.t.Underlying().(*types.Array).Elem(), v: s[idx], ro: rv.ro}
			if rv.addr != nil {
				r.addr = &(*rv.addr).(array)[idx]
			}
			return r
		case reflect.String:
			n := strLen(rv.v)
			if idx < 0 || idx >= n {
				reflectPanic("reflect: string index out of range")
			}
			return reflectValue{t: types.Typ[types.Uint8], v: strIndex(rv.v, idx)}
		}
		valueError("reflect.Value.Index", rv.kind())
		return nil
	})
	reg("(reflect.Value).Interface", func(fr *frame, a []value) value {
		rv := rvArg(a[0])
		if rv.t == nil {
			valueError("reflect.Value.Interface", reflect.Invalid)
		}
		if rv.ro {
			reflectPanic("reflect.Value.Interface: cannot return value obtained from unexported field or method")
		}
		if rv.method != nil {
			recv, fn := rv.recv, rv.method
			return iface{t: rv.t, v: &nativeFn{name: fn.String(), fn: func(f2 *frame, args []value) value {
				return call(fr.i, f2, 0, fn, append([]value{recv}, args...))
			}}}
		}
		return rv.toIface()
	})
	reg("(reflect.Value).Elem", func(fr *frame, a []value) value {
		rv := rvArg(a[0])
		switch rv.kind() {
		case reflect.Interface:
			i, ok := rv.v.(iface)
			if !ok || i.t == nil {
				return reflectValue{}
			}
			return reflectValue{t: i.t, v: i.v, ro: rv.ro}
		case reflect.Ptr:
			p, _ := rv.v.(*value)
			if p == nil {
				return reflectValue{}
			}
			return reflectValue{t: rv.t.Underlying().(*types.Pointer).Elem(), v: *p, addr: p, ro: rv.ro}
		}
		valueError("reflect.Value.Elem", rv.kind())
		return nil
	})
	reg("(reflect.Value).Type", func(fr *frame, a []value) value {
		rv := rvArg(a[0])
		if rv.t == nil {
			valueError("reflect.Value.Type", reflect.Invalid)
		}
		return fr.i.rtypeIface(rv.t)
	})
	reg("(reflect.Value).String", func(fr *frame, a []value) value {
		rv := rvArg(a[0])
		switch rv.kind() {
		case reflect.Invalid:
			return "<invalid Value>"
		case reflect.String:
			return rv.v
		}
		return "<" + reflectTypeString(rv.t) + " Value>"
	})
	reg("(reflect.Value).CanSet", func(fr *frame, a []value) value { rv := rvArg(a[0]); return rv.addr != nil && !rv.ro })
	reg("(reflect.Value).CanInterface", func(fr *frame, a []value) value {
		rv := rvArg(a[0])
		if rv.t == nil {
			valueError("reflect.Value.CanInterface", reflect.Invalid)
		}
		return !rv.ro
	})
	reg("(reflect.Value).Set", func(fr *frame, a []value) value {
		rv, x := rvArg(a[0]), rvArg(a[1])
		if rv.t == nil {
			valueError("reflect.Value.Set", reflect.Invalid)
		}
		if rv.addr == nil {
			reflectPanic("reflect: reflect.Value.Set using unaddressable value")
		}
		if rv.ro {
			reflectPanic("reflect: reflect.Value.Set using value obtained using unexported field")
		}
		if x.t == nil {
			valueError("reflect.Value.Set", reflect.Invalid)
		}
		if x.ro {
			reflectPanic("reflect: reflect.Value.Set using value obtained using unexported field")
		}
		if !assignable(x.t, rv.t) {
			reflectPanic("reflect.Set: value of type " + reflectTypeString(x.t) + " is not assignable to type " + reflectTypeString(rv.t))
		}
		nv := copyVal(x.v)
		if _, isI := rv.t.Underlying().(*types.Interface); isI {
			if _, srcI := x.t.Underlying().(*types.Interface); !srcI {
				nv = iface{t: x.t, v: nv}
			}
		}
		*rv.addr = nv
		return nil
	})
	reg("(reflect.Value).Slice", func(fr *frame, a []value) value {
		rv := rvArg(a[0])
		lo, hi := int(concretizeInt(a[1], "reflect.Value.Slice", 4096)), int(concretizeInt(a[2], "reflect.Value.Slice", 4096))
		switch rv.kind() {
		case reflect.Slice:
			s := rv.v.([]value)
			if lo < 0 || hi < lo || hi > cap(s) {
				reflectPanic("reflect.Value.Slice: slice index out of bounds")
			}
			return reflectValue{t: rv.t, v: s[lo:hi]}
		case reflect.String:
			n := strLen(rv.v)
			if lo < 0 || hi < lo || hi > n {
				reflectPanic("reflect.Value.Slice: string slice index out of bounds")
			}
			return reflectValue{t: rv.t, v: strSlice(normStr(rv.v), lo, hi)}
		case reflect.Array:
			if rv.addr == nil {
				reflectPanic("reflect.Value.Slice: slice of unaddressable array")
			}
			s := []value((*rv.addr).(array))
			if lo < 0 || hi < lo || hi > len(s) {
				reflectPanic("reflect.Value.Slice: slice index out of bounds")
			}
			return reflectValue{t: types.NewSlice(rv.t.Underlying().(*types.Array).Elem()), v: s[lo:hi]}
		}
		valueError("reflect.Value.Slice", rv.kind())
		return nil
	})
	fieldOf := func(rv reflectValue, k int) reflectValue {
		st := rv.t.Underlying().(*types.Struct)
		s, ok := rv.v.(structure)
		if !ok {
			Unsupported("reflect field access on model-owned struct %s", rv.t)
		}
		r := reflectValue{t: st.Field(k).Type(), v: s[k], ro: rv.ro || !st.Field(k).Exported()}
		if rv.addr != nil {
			r.addr = &(*rv.addr).(structure)[k]
		}
		return r
	}
	var fieldByName func(rv reflectValue, name string, depth int) (reflectValue, bool)
	fieldByName = func(rv reflectValue, name string, depth int) (reflectValue, bool) {
		st := rv.t.Underlying().(*types.Struct)
		for k := 0; k < st.NumFields(); k++ {
			if st.Field(k).Name() == name {
				return fieldOf(rv, k), true
			}
		}
		if depth > 4 {
			return reflectValue{}, false
		}
		// promoted fields through embedded structs / pointers to structs
		for k := 0; k < st.NumFields(); k++ {
			f := st.Field(k)
			if !f.Embedded() {
				continue
			}
			fv := fieldOf(rv, k)
			ft := f.Type()
			if p, ok := ft.Underlying().(*types.Pointer); ok {
				if _, isS := p.Elem().Underlying().(*types.Struct); !isS {
					continue
				}
				pv, _ := fv.v.(*value)
				if pv == nil {
					// reflect panics when traversing a nil embedded pointer only if the field is found there
					sub := reflectValue{t: p.Elem(), v: zero(p.Elem())}
					if _, found := fieldByName(sub, name, depth+1); found {
						reflectPanic("reflect: indirection through nil pointer to embedded struct")
					}
					continue
				}
				fv = reflectValue{t: p.Elem(), v: *pv, addr: pv, ro: fv.ro}
			} else if _, isS := ft.Underlying().(*types.Struct); !isS {
				continue
			}
			if r, ok := fieldByName(fv, name, depth+1); ok {
				return r, true
			}
		}
		return reflectValue{}, false
	}
	reg("(reflect.Value).FieldByName", func(fr *frame, a []value) value {
		rv := rvArg(a[0])
		if rv.kind() != reflect.Struct {
			valueError("reflect.Value.FieldByName", rv.kind())
		}
		name, ok := a[1].(string)
		if !ok {
			Unsupported("FieldByName with symbolic name")
		}
		r, _ := fieldByName(rv, name, 0)
		return r
	})
	reg("(reflect.Value).NumField", func(fr *frame, a []value) value {
		rv := rvArg(a[0])
		if rv.kind() != reflect.Struct {
			valueError("reflect.Value.NumField", rv.kind())
		}
		return rv.t.Underlying().(*types.Struct).NumFields()
	})
	reg("(reflect.Value).Field", func(fr *frame, a []value) value {
		rv := rvArg(a[0])
		if rv.kind() != reflect.Struct {
			valueError("reflect.Value.Field", rv.kind())
		}
		k := int(asInt64(a[1]))
		if k < 0 || k >= rv.t.Underlying().(*types.Struct).NumFields() {
			reflectPanic("reflect: Field index out of range")
		}
		return fieldOf(rv, k)
	})
	reg("(reflect.Value).MapKeys", func(fr *frame, a []value) value {
		rv := rvArg(a[0])
		if rv.kind() != reflect.Map {
			valueError("reflect.Value.MapKeys", rv.kind())
		}
		kt := rv.t.Underlying().(*types.Map).Key()
		var out []value
		for _, e := range orderForRange(rv.v.(*Map).live()) {
			out = append(out, reflectValue{t: kt, v: e.key})
		}
		return out
	})
	reg("(reflect.Value).MapIndex", func(fr *frame, a []value) value {
		rv, k := rvArg(a[0]), rvArg(a[1])
		if rv.kind() != reflect.Map {
			valueError("reflect.Value.MapIndex", rv.kind())
		}
		mt := rv.t.Underlying().(*types.Map)
		kv := k.v
		if _, isI := mt.Key().Underlying().(*types.Interface); isI && k.kind() != reflect.Interface {
			kv = iface{t: k.t, v: k.v}
		}
		v, ok := rv.v.(*Map).lookup(kv)
		if !ok {
			return reflectValue{}
		}
		return reflectValue{t: mt.Elem(), v: v}
	})
	reg("(reflect.Value).MethodByName", func(fr *frame, a []value) value {
		rv := rvArg(a[0])
		if rv.t == nil {
			valueError("reflect.Value.MethodByName", reflect.Invalid)
		}
		name, ok := a[1].(string)
		if !ok {
			Unsupported("MethodByName with symbolic name")
		}
		if rv.ro {
			return reflectValue{}
		}
		return rv.methodByName(fr.i, name)
	})
	reg("(reflect.Value).NumMethod", func(fr *frame, a []value) value {
		rv := rvArg(a[0])
		if rv.t == nil {
			valueError("reflect.Value.NumMethod", reflect.Invalid)
		}
		return len(exportedMethods(fr.i, rv.t))
	})
	reg("(reflect.Value).Call", func(fr *frame, a []value) value {
		rv := rvArg(a[0])
		if rv.kind() != reflect.Func {
			valueError("reflect.Value.Call", rv.kind())
		}
		in := a[1].([]value)
		sig := rv.t.Underlying().(*types.Signature)
		if !sig.Variadic() && len(in) != sig.Params().Len() {
			if len(in) < sig.Params().Len() {
				reflectPanic("reflect: Call with too few input arguments")
			}
			reflectPanic("reflect: Call with too many input arguments")
		}
		fixed := sig.Params().Len()
		if sig.Variadic() {
			fixed--
			if len(in) < fixed {
				reflectPanic("reflect: Call with too few input arguments")
			}
		}
		conv := func(x value, pt types.Type) value {
			xv := rvArg(x)
			if xv.t == nil {
				reflectPanic("reflect: Call using zero Value argument")
			}
			if !assignable(xv.t, pt) {
				reflectPanic("reflect: Call using " + reflectTypeString(xv.t) + " as type " + reflectTypeString(pt))
			}
			av := xv.v
			if _, isI := pt.Underlying().(*types.Interface); isI && xv.kind() != reflect.Interface {
				av = iface{t: xv.t, v: av}
			}
			return av
		}
		var args []value
		for k, x := range in[:fixed] {
			args = append(args, conv(x, sig.Params().At(k).Type()))
		}
		if sig.Variadic() {
			// the remaining arguments are packed into the variadic slice (nil when there are none)
			et := sig.Params().At(fixed).Type().Underlying().(*types.Slice).Elem()
			var rest []value
			for _, x := range in[fixed:] {
				rest = append(rest, conv(x, et))
			}
			args = append(args, rest)
		}
		var res value
		if rv.method != nil {
			res = call(fr.i, fr, fr.callpos, rv.method, append([]value{rv.recv}, args...))
		} else {
			if valueIsNil(rv.v) {
				reflectPanic("reflect: call of nil function")
			}
			res = call(fr.i, fr, fr.callpos, rv.v, args)
		}
		var out []value
		switch sig.Results().Len() {
		case 0:
		case 1:
			out = append(out, reflectValue{t: sig.Results().At(0).Type(), v: res})
		default:
			for k, r := range res.(tuple) {
				out = append(out, reflectValue{t: sig.Results().At(k).Type(), v: r})
			}
		}
		return out
	})
	reg("reflect.Append", func(fr *frame, a []value) value {
		s := rvArg(a[0])
		if s.kind() != reflect.Slice {
			valueError("reflect.Append", s.kind())
		}
		et := s.t.Underlying().(*types.Slice).Elem()
		var add []value
		for _, x := range a[1].([]value) {
			xv := rvArg(x)
			if xv.t == nil {
				valueError("reflect.Value.Set", reflect.Invalid)
			}
			if !assignable(xv.t, et) {
				reflectPanic("reflect.Set: value of type " + reflectTypeString(xv.t) + " is not assignable to type " + reflectTypeString(et))
			}
			nv := copyVal(xv.v)
			if _, isI := et.Underlying().(*types.Interface); isI && xv.kind() != reflect.Interface {
				nv = iface{t: xv.t, v: nv}
			}
			add = append(add, nv)
		}
		return reflectValue{t: s.t, v: appendLikeGo(s.v.([]value), add, sizeofType(et), false)}
	})
	reg("reflect.AppendSlice", func(fr *frame, a []value) value {
		s, t := rvArg(a[0]), rvArg(a[1])
		if s.kind() != reflect.Slice {
			valueError("reflect.AppendSlice", s.kind())
		}
		if t.kind() != reflect.Slice {
			valueError("reflect.AppendSlice", t.kind())
		}
		se, te := s.t.Underlying().(*types.Slice).Elem(), t.t.Underlying().(*types.Slice).Elem()
		if !types.Identical(se, te) {
			reflectPanic("reflect.AppendSlice: " + reflectTypeString(se) + " != " + reflectTypeString(te))
		}
		return reflectValue{t: s.t, v: appendLikeGo(s.v.([]value), t.v.([]value), sizeofType(se), true)}
	})
	reg("reflect.MakeSlice", func(fr *frame, a []value) value {
		t := rtypeArg(a[0])
		if kindOfType(t) != reflect.Slice {
			reflectPanic("reflect.MakeSlice of non-slice type")
		}
		n, c := int(asInt64(a[1])), int(asInt64(a[2]))
		if n < 0 {
			reflectPanic("reflect.MakeSlice: negative len")
		}
		if c < 0 {
			reflectPanic("reflect.MakeSlice: negative cap")
		}
		if n > c {
			reflectPanic("reflect.MakeSlice: len > cap")
		}
		s := make([]value, c)
		et := t.Underlying().(*types.Slice).Elem()
		for k := range s {
			s[k] = zero(et)
		}
		return reflectValue{t: t, v: s[:n]}
	})
	reg("reflect.SliceOf", func(fr *frame, a []value) value {
		return fr.i.rtypeIface(types.NewSlice(rtypeArg(a[0])))
	})
	reg("reflect.PtrTo", func(fr *frame, a []value) value { return fr.i.rtypeIface(types.NewPointer(rtypeArg(a[0]))) })
	reg("reflect.PointerTo", func(fr *frame, a []value) value { return fr.i.rtypeIface(types.NewPointer(rtypeArg(a[0]))) })
	reg("reflect.New", func(fr *frame, a []value) value {
		i := a[0].(iface)
		if i.t == nil {
			reflectPanic("reflect: New(nil)")
		}
		t := rtypeArg(a[0])
		cell := zero(t)
		return reflectValue{t: types.NewPointer(t), v: &cell}
	})
	reg("reflect.Zero", func(fr *frame, a []value) value {
		i := a[0].(iface)
		if i.t == nil {
			reflectPanic("reflect: Zero(nil)")
		}
		t := rtypeArg(a[0])
		return reflectValue{t: t, v: zero(t)}
	})
	reg("reflect.Indirect", func(fr *frame, a []value) value {
		rv := rvArg(a[0])
		if rv.kind() != reflect.Ptr {
			return rv
		}
		p, _ := rv.v.(*value)
		if p == nil {
			return reflectValue{}
		}
		return reflectValue{t: rv.t.Underlying().(*types.Pointer).Elem(), v: *p, addr: p}
	})

	// reflect.Type (dynamic type *reflect.rtype)
	reg("(*reflect.rtype).Kind", func(fr *frame, a []value) value { return uint(kindOfType(rtypeArg(a[0]))) })
	reg("(*reflect.rtype).String", func(fr *frame, a []value) value { return reflectTypeString(rtypeArg(a[0])) })
	reg("(*reflect.rtype).Name", func(fr *frame, a []value) value {
		switch t := rtypeArg(a[0]).(type) {
		case *types.Named:
			return t.Obj().Name()
		case *types.Basic:
			return t.Name()
		}
		return ""
	})
	reg("(*reflect.rtype).PkgPath", func(fr *frame, a []value) value {
		if t, ok := rtypeArg(a[0]).(*types.Named); ok && t.Obj().Pkg() != nil {
			return t.Obj().Pkg().Path()
		}
		return ""
	})
	reg("(*reflect.rtype).Elem", func(fr *frame, a []value) value {
		t := rtypeArg(a[0])
		switch u := t.Underlying().(type) {
		case *types.Array:
			return fr.i.rtypeIface(u.Elem())
		case *types.Chan:
			return fr.i.rtypeIface(u.Elem())
		case *types.Map:
			return fr.i.rtypeIface(u.Elem())
		case *types.Pointer:
			return fr.i.rtypeIface(u.Elem())
		case *types.Slice:
			return fr.i.rtypeIface(u.Elem())
		}
		reflectPanic("reflect: Elem of invalid type " + reflectTypeString(t))
		return nil
	})
	reg("(*reflect.rtype).NumField", func(fr *frame, a []value) value {
		t := rtypeArg(a[0])
		st, ok := t.Underlying().(*types.Struct)
		if !ok {
			reflectPanic("reflect: NumField of non-struct type " + reflectTypeString(t))
		}
		return st.NumFields()
	})
	reg("(*reflect.rtype).Field", func(fr *frame, a []value) value {
		t := rtypeArg(a[0])
		st, ok := t.Underlying().(*types.Struct)
		if !ok {
			reflectPanic("reflect: Field of non-struct type " + reflectTypeString(t))
		}
		k := int(asInt64(a[1]))
		if k < 0 || k >= st.NumFields() {
			reflectPanic("reflect: Field index out of bounds")
		}
		f := st.Field(k)
		pkg := ""
		if !f.Exported() && f.Pkg() != nil {
			pkg = f.Pkg().Path()
		}
		return fr.i.reflectStruct("StructField", map[string]value{
			"Name": f.Name(), "PkgPath": pkg, "Type": fr.i.rtypeIface(f.Type()), "Tag": st.Tag(k),
			"Index": []value{k}, "Anonymous": f.Embedded(),
		})
	})
	reg("(*reflect.rtype).NumMethod", func(fr *frame, a []value) value {
		return len(exportedMethods(fr.i, rtypeArg(a[0])))
	})
	reg("(*reflect.rtype).Method", func(fr *frame, a []value) value {
		t := rtypeArg(a[0])
		ms := exportedMethods(fr.i, t)
		k := int(asInt64(a[1]))
		if k < 0 || k >= len(ms) {
			reflectPanic("reflect: Method index out of range")
		}
		sel := ms[k]
		sig := sel.Type().(*types.Signature)
		// Method.Type includes the receiver as first parameter
		params := []*types.Var{types.NewVar(0, nil, "", t)}
		for p := 0; p < sig.Params().Len(); p++ {
			params = append(params, sig.Params().At(p))
		}
		ft := types.NewSignatureType(nil, nil, nil, types.NewTuple(params...), sig.Results(), sig.Variadic())
		if _, isI := t.Underlying().(*types.Interface); isI {
			ft = types.NewSignatureType(nil, nil, nil, sig.Params(), sig.Results(), sig.Variadic())
		}
		return fr.i.reflectStruct("Method", map[string]value{
			"Name": sel.Obj().Name(), "Type": fr.i.rtypeIface(ft), "Index": k,
		})
	})
	reg("(*reflect.rtype).MethodByName", func(fr *frame, a []value) value {
		t := rtypeArg(a[0])
		name, _ := a[1].(string)
		for k, sel := range exportedMethods(fr.i, t) {
			if sel.Obj().Name() == name {
				sig := sel.Type().(*types.Signature)
				params := []*types.Var{types.NewVar(0, nil, "", t)}
				for p := 0; p < sig.Params().Len(); p++ {
					params = append(params, sig.Params().At(p))
				}
				ft := types.NewSignatureType(nil, nil, nil, types.NewTuple(params...), sig.Results(), sig.Variadic())
				return tuple{fr.i.reflectStruct("Method", map[string]value{"Name": name, "Type": fr.i.rtypeIface(ft), "Index": k}), true}
			}
		}
		return tuple{fr.i.reflectStruct("Method", nil), false}
	})
	sigOf := func(t types.Type, what string) *types.Signature {
		s, ok := t.Underlying().(*types.Signature)
		if !ok {
			reflectPanic("reflect: " + what + " of non-func type " + reflectTypeString(t))
		}
		return s
	}
	reg("(*reflect.rtype).NumOut", func(fr *frame, a []value) value { return sigOf(rtypeArg(a[0]), "NumOut").Results().Len() })
	reg("(*reflect.rtype).NumIn", func(fr *frame, a []value) value { return sigOf(rtypeArg(a[0]), "NumIn").Params().Len() })
	reg("(*reflect.rtype).Out", func(fr *frame, a []value) value {
		s := sigOf(rtypeArg(a[0]), "Out")
		k := int(asInt64(a[1]))
		if k < 0 || k >= s.Results().Len() {
			panic(runtimeError(fmt.Sprintf("index out of range [%d] with length %d", k, s.Results().Len())))
		}
		return fr.i.rtypeIface(s.Results().At(k).Type())
	})
	reg("(*reflect.rtype).In", func(fr *frame, a []value) value {
		s := sigOf(rtypeArg(a[0]), "In")
		k := int(asInt64(a[1]))
		if k < 0 || k >= s.Params().Len() {
			panic(runtimeError(fmt.Sprintf("index out of range [%d] with length %d", k, s.Params().Len())))
		}
		return fr.i.rtypeIface(s.Params().At(k).Type())
	})
	reg("(*reflect.rtype).Implements", func(fr *frame, a []value) value {
		t, u := rtypeArg(a[0]), rtypeArg(a[1])
		itf, ok := u.Underlying().(*types.Interface)
		if !ok {
			reflectPanic("reflect: non-interface type passed to Type.Implements")
		}
		return types.Implements(t, itf)
	})
	reg("(*reflect.rtype).AssignableTo", func(fr *frame, a []value) value {
		return types.AssignableTo(rtypeArg(a[0]), rtypeArg(a[1]))
	})
	reg("(*reflect.rtype).Comparable", func(fr *frame, a []value) value { return types.Comparable(rtypeArg(a[0])) })
	reg("(reflect.Kind).String", func(fr *frame, a []value) value { return reflect.Kind(asInt64(a[0])).String() })
}
