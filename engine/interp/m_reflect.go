package interp

import "go/types"

// reflectValue is the engine's reflect.Value.
type reflectValue struct {
	t    types.Type // nil = invalid Value
	v    value
	addr *value // non-nil when addressable/settable
}
