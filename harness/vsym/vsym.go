// Package vsym is the harness API of gosym. In the symbolic engine every call
// into this package is intercepted; this file is the *native* implementation,
// used when a witness found by the solver is replayed against the real build:
// symbolic inputs are read from the assignment file named by $VERIF_REPLAY.
package vsym

import (
	"encoding/json"
	"fmt"
	"os"
	"runtime"
	"strconv"
	"strings"
	"time"
)

type Witness struct {
	ID         string            `json:"id"`
	Harness    string            `json:"harness"`
	Case       int               `json:"case"`
	Assignment map[string]string `json:"assignment"`
}

type Result struct {
	ID      string            `json:"id"`
	Asserts []string          `json:"asserts"`
	Panic   string            `json:"panic,omitempty"`
	Trace   []string          `json:"trace,omitempty"`
	Invalid bool              `json:"invalid"`
	Reached []string          `json:"reached,omitempty"`
	Emits   map[string]string `json:"emits,omitempty"`
	Class   string            `json:"class,omitempty"`
}

var (
	cur    *Witness
	counts map[string]int
	res    *Result
)

// InvalidWitness is panicked when an assumption does not hold natively.
type InvalidWitness struct{}

// Begin starts the replay of one witness.
func Begin(w *Witness) {
	cur = w
	counts = map[string]int{}
	res = &Result{ID: w.ID, Asserts: []string{}}
	// environment choices of the engine
	if defaultProcs == 0 {
		defaultProcs = runtime.GOMAXPROCS(0)
	}
	procs := defaultProcs
	if v, ok := w.Assignment["env:GOMAXPROCS#0"]; ok {
		if n, err := strconv.Atoi(v); err == nil && n > 0 {
			procs = n
		}
	}
	runtime.GOMAXPROCS(procs)
}

var defaultProcs int // the engine runs package initialisers too: nothing environment-dependent may happen there

// End returns what the replay observed.
func End() *Result { return res }

// LoadWitnesses reads the JSON-lines witness file.
func LoadWitnesses(path string) ([]*Witness, error) {
	data, err := os.ReadFile(path)
	if err != nil {
		return nil, err
	}
	var out []*Witness
	for _, line := range strings.Split(string(data), "\n") {
		if strings.TrimSpace(line) == "" {
			continue
		}
		w := &Witness{}
		if err := json.Unmarshal([]byte(line), w); err != nil {
			return nil, err
		}
		out = append(out, w)
	}
	return out, nil
}

func next(name string) (string, bool) {
	k := counts[name]
	counts[name] = k + 1
	if cur == nil {
		return "", false
	}
	v, ok := cur.Assignment[fmt.Sprintf("%s#%d", name, k)]
	return v, ok
}

func nextInt(name string, lo int64) int64 {
	v, ok := next(name)
	if !ok {
		return lo
	}
	n, err := strconv.ParseInt(v, 10, 64)
	if err != nil {
		return lo
	}
	return n
}

func VsInt(name string, lo, hi int) int       { return int(nextInt(name, int64(lo))) }
func VsInt64(name string, lo, hi int64) int64 { return nextInt(name, lo) }
func VsByte(name string, lo, hi byte) byte    { return byte(nextInt(name, int64(lo))) }
func VsBool(name string) bool                 { return nextInt(name, 0) != 0 }

func VsBytes(name string, n int, lo, hi byte) string {
	b := make([]byte, n)
	for i := range b {
		if lo == hi {
			b[i] = lo
		} else {
			b[i] = byte(nextInt(name, int64(lo)))
		}
	}
	return string(b)
}

func VsBytesIn(name string, n int, alphabet string) string {
	b := make([]byte, n)
	min := alphabet[0]
	for i := 0; i < len(alphabet); i++ {
		if alphabet[i] < min {
			min = alphabet[i]
		}
	}
	for i := range b {
		if len(alphabet) == 1 {
			b[i] = alphabet[0]
		} else {
			b[i] = byte(nextInt(name, int64(min)))
		}
	}
	return string(b)
}

func VsFloat(name string, lo, hi float64) float64 {
	v, ok := next(name)
	if !ok {
		return lo
	}
	f, err := strconv.ParseFloat(v, 64)
	if err != nil {
		return lo
	}
	return f
}

func VsChoose(name string, n int) int {
	k := counts["choose:"+name]
	counts["choose:"+name] = k + 1
	if cur == nil {
		return 0
	}
	v, ok := cur.Assignment[fmt.Sprintf("%s#%d", name, k)]
	if !ok {
		return 0
	}
	i, _ := strconv.Atoi(v)
	if i < 0 || i >= n {
		return 0
	}
	return i
}

func VsAssume(c bool) {
	if !c {
		res.Invalid = true
		panic(InvalidWitness{})
	}
}

func VsAssert(label string, c bool) {
	if !c {
		for _, l := range res.Asserts {
			if l == label {
				return
			}
		}
		res.Asserts = append(res.Asserts, label)
	}
}

// VsLemma states a fact that another harness of the same check proves; natively it is checked.
func VsLemma(label string, c bool) { VsAssert("lemma:"+label, c) }

func VsReach(label string)     { res.Reached = append(res.Reached, label) }
func VsAnd(a, b bool) bool     { return a && b }
func VsOr(a, b bool) bool      { return a || b }
func VsNot(a bool) bool        { return !a }
func VsImplies(a, b bool) bool { return !a || b }
func VsIff(a, b bool) bool     { return a == b }
func VsIte(c, a, b bool) bool {
	if c {
		return a
	}
	return b
}
func VsIteInt(c bool, a, b int) int {
	if c {
		return a
	}
	return b
}
func VsIteFloat(c bool, a, b float64) float64 {
	if c {
		return a
	}
	return b
}

func VsAll(conds ...bool) bool {
	for _, c := range conds {
		if !c {
			return false
		}
	}
	return true
}

func VsAny(conds ...bool) bool {
	for _, c := range conds {
		if c {
			return true
		}
	}
	return false
}

func VsSelectInt(i int, table []int) int {
	if i < 0 || i >= len(table) {
		i = len(table) - 1
	}
	return table[i]
}

// VsDiv / VsMod: floor division and modulus by a positive constant.
func VsDiv(a, b int) int {
	q := a / b
	if a%b != 0 && (a < 0) != (b < 0) {
		q--
	}
	return q
}

func VsMod(a, b int) int { return a - VsDiv(a, b)*b }

func VsDecimal(x int, width int) string { return fmt.Sprintf("%0*d", width, x) }

func VsObserve(x interface{}) {
	var s string
	switch v := x.(type) {
	case nil:
		s = "nil"
	case string:
		s = fmt.Sprintf("%q", v)
	case float64:
		s = fmt.Sprintf("~%.9g", v)
	case float32:
		s = fmt.Sprintf("~%.9g", float64(v))
	case error:
		s = fmt.Sprintf("%q", v.Error())
	default:
		s = fmt.Sprint(v)
	}
	res.Trace = append(res.Trace, s)
}

// VsClassSet replaces the input class (per-step classification in histories).
func VsClassSet(text string) { res.Class = text }

func VsClass(text string) {
	for _, have := range strings.Split(res.Class, ",") {
		if have == text {
			return
		}
	}
	if res.Class != "" {
		res.Class += ","
	}
	res.Class += text
}

func VsIsSymbolic(x interface{}) bool { return false }
func VsNative() bool                  { return true }

func VsEmit(key, value string) {
	if res.Emits == nil {
		res.Emits = map[string]string{}
	}
	res.Emits[key] += value
}

// VsDayNumber returns the number of days from 0001-01-01 (UTC) to the day of t.
func VsDayNumber(t time.Time) int {
	return VsDiv(int(t.Unix()+62135596800), 86400)
}

// VsNsOfDay returns the nanoseconds since midnight UTC of t.
func VsNsOfDay(t time.Time) int {
	return VsMod(int(t.Unix()+62135596800), 86400)*1000000000 + t.Nanosecond()
}

func VsStrEq(a, b string) bool { return a == b }
func VsLen(s string) int       { return len(s) }
