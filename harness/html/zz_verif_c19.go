package html

import (
	"fmt"
	"os"
	"strings"
	"sync"

	"github.com/elliotchance/gedcom/v39"
	"github.com/elliotchance/gedcom/v39/html/core"
	. "github.com/elliotchance/gedcom/v39/internal/vsym"
)

func vPlainFileName(name string) bool {
	if name == "" || name == "." || name == ".." {
		return false
	}
	ok := true
	for i := 0; i < len(name); i++ {
		c := name[i]
		plain := VsAny(VsAnd(c >= 'a', c <= 'z'), VsAnd(c >= 'A', c <= 'Z'), VsAnd(c >= '0', c <= '9'), c == '_', c == '.', c == '#', c == '-')
		ok = VsAnd(ok, plain)
	}
	return ok
}

// VerifC19_Names: file names are plain, distinct and every link resolves, for hostile pointers and
// names. cs: 0 source pointer symbolic, 1 individual pointer symbolic, 2 surname symbolic,
// 3 place symbolic, 4 two people whose names collapse to the same key, 5 a place named like a page,
// 6 and 7 people and places named like the per-letter index pages, 8 surnames starting with non-ASCII letters,
// 9 a person named like a place (and places whose names collapse to one key).
func VerifC19_Names(cs int) {
	sym2 := VsBytes("h", 2, 0x21, 0x7e)
	text := vDeadFamily
	switch cs {
	case 0:
		VsAssume(VsNot(VsStrEq(sym2[:1], "@")))
		VsAssume(VsNot(VsStrEq(sym2[1:], "@")))
		text += "0 @S" + sym2 + "@ SOUR\n1 TITL A source\n"
		VsClass("source-pointer")
	case 1:
		VsAssume(VsNot(VsStrEq(sym2[:1], "@")))
		VsAssume(VsNot(VsStrEq(sym2[1:], "@")))
		text += "0 @P" + sym2 + "@ INDI\n1 NAME Zed /Young/\n1 DEAT\n"
	case 2:
		text += "0 @I3@ INDI\n1 NAME Zed /" + sym2 + "ng/\n1 DEAT\n"
	case 3:
		text += "0 @I3@ INDI\n1 NAME Zed /Young/\n1 BIRT\n2 PLAC " + sym2 + "town, Nowhere\n1 DEAT\n"
	case 4:
		text += "0 @I3@ INDI\n1 NAME John /Smith/\n1 BIRT\n2 DATE 3 Sep 1843\n1 DEAT\n0 @I4@ INDI\n1 NAME john /SMITH./\n1 DEAT\n"
	case 8:
		// surnames that start with letters outside ASCII
		text += "0 @I3@ INDI\n1 NAME \xc3\x85sa /\xc3\x96stberg/\n1 BIRT\n2 PLAC \xc3\x85re, Sverige\n1 DEAT\n0 @I4@ INDI\n1 NAME \xc3\x89mile /\xc3\x89tienne/\n1 DEAT\n0 @I5@ INDI\n1 NAME Jos\xc3\xa9 /\xc3\xb1and\xc3\xba/\n1 DEAT\n"
	case 9:
		// a person whose name may collapse to the key of a place (the first letter by choice)
		// (by choice: names that are symbolic are not compared below)
		text += "0 @I3@ INDI\n1 NAME " + []string{"L", "l", "M", "London "}[VsChoose("initial", 4)] + "ondon /England/\n1 BIRT\n2 PLAC London, England\n1 DEAT\n0 @I4@ INDI\n1 NAME Jo /Young/\n1 BIRT\n2 PLAC London England\n1 DEAT\n2 PLAC LONDON, england\n"
	case 6:
		// people and a place named like the index pages
		text += "0 @I3@ INDI\n1 NAME Individuals /Smith/\n1 DEAT\n0 @I4@ INDI\n1 NAME Individuals /A/\n1 BIRT\n2 PLAC individuals symbol\n1 DEAT\n"
	case 7:
		text += "0 @I3@ INDI\n1 NAME Individuals /" + sym2[:1] + "/\n1 DEAT\n0 @I4@ INDI\n1 NAME individuals /symbol/\n1 DEAT\n"
	default:
		text += "0 @I3@ INDI\n1 NAME Zed /Young/\n1 BIRT\n2 PLAC places\n1 DEAT\n0 @I4@ INDI\n1 NAME Sur /Names/\n1 BIRT\n2 PLAC Sydney  Australia\n1 DEAT\n"
	}
	doc, err := gedcom.NewDocumentFromString(text)
	VsAssume(err == nil)
	p := vPublish(doc, vAllOptions(LivingVisibilityShow), 1, vNewMemWriter())
	VsReach("names-published")
	VsAssert("names-publish-succeeds", !p.panicked && p.err == nil)
	if p.panicked || p.err != nil {
		return
	}
	plain, distinct := true, true
	seen := map[string]bool{}
	for _, n := range p.w.sortedNames() {
		VsObserve(n)
		plain = VsAnd(plain, vPlainFileName(n))
	}
	VsAssert("file-names-are-plain-names-inside-the-output-directory", plain)
	// distinctness and link closure are checked on concrete names (a symbolic name is a violation above)
	for _, n := range p.w.names {
		if VsIsSymbolic(n) {
			return
		}
		if seen[n] {
			distinct = false
		}
		seen[n] = true
	}
	VsAssert("no-two-pages-share-a-name", distinct)
	closed := true
	for _, n := range p.w.names {
		page := p.w.contents[n]
		for _, target := range vHrefTargets(page) {
			file := target
			if i := strings.Index(file, "#"); i >= 0 {
				file = file[:i] // a fragment inside the target page
			}
			if file == "" || strings.HasPrefix(target, "http") || seen[file] {
				continue
			}
			closed = false
		}
	}
	VsAssert("every-link-resolves-to-a-generated-file", closed)
}

const vC19Doc = vDeadFamily +
	"0 @I3@ INDI\n1 NAME Bob /Smith/\n1 BIRT\n2 DATE 1875\n2 PLAC Perth, Australia\n1 DEAT\n2 DATE 1950\n1 FAMC @F1@\n" +
	"0 @I4@ INDI\n1 NAME Amy /Young/\n1 BIRT\n2 DATE 1880\n2 PLAC PERTH  australia\n1 DEAT\n2 DATE 1960\n2 PLAC perth, AUSTRALIA\n" +
	"0 @F1@ FAM\n1 HUSB @I1@\n1 WIFE @I2@\n1 CHIL @I3@\n0 @S1@ SOUR\n1 TITL A source\n"

const vC19OtherDoc = "0 HEAD\n0 @X1@ INDI\n1 NAME Otto /Zimmer/\n1 BIRT\n2 PLAC Berlin, Germany\n1 DEAT\n2 DATE 1900\n" +
	"0 @X2@ INDI\n1 NAME Ann /Quill/\n1 DEAT\n2 DATE 1901\n"

// VerifC19_Determinism: the published site is a function of the document and options only: identical
// under every explored map iteration order, whether or not another document was published earlier in
// the same process, and for 1 or 2 jobs. The site fingerprint is emitted and must be path-invariant.
// cs: visibility = cs%3, jobs = cs/3%2+1.
func VerifC19_Determinism(cs int) {
	vis := vVisibilities[cs%3]
	jobs := cs/3%2 + 1
	if VsChoose("publish-another-document-first", 2) == 1 {
		other, err := gedcom.NewDocumentFromString(vC19OtherDoc)
		VsAssume(err == nil)
		vPublish(other, vAllOptions(LivingVisibilityShow), 1, vNewMemWriter())
	}
	doc, err := gedcom.NewDocumentFromString(vC19Doc)
	VsAssume(err == nil)
	p := vPublish(doc, vAllOptions(vis), jobs, vNewMemWriter())
	VsReach("determinism-published")
	VsAssert("determinism-publish-succeeds", !p.panicked && p.err == nil)
	VsEmit("site", p.w.vHash())
	VsObserve(p.w.vHash())
}

// VerifC19_Faults: the file writer fails at the k-th file, for every k. cs: jobs = cs%2+1.
func VerifC19_Faults(cs int) {
	jobs := cs%2 + 1
	doc, err := gedcom.NewDocumentFromString(vC19Doc)
	VsAssume(err == nil)
	// how many files are there?
	full := vPublish(doc, vAllOptions(LivingVisibilityShow), 1, vNewMemWriter())
	VsAssume(!full.panicked && full.err == nil)
	total := len(full.w.names)
	w := vNewMemWriter()
	w.failAt = VsChoose("fail-at-file", total)
	w.oneFile = cs/2%2 == 1
	p := vPublish(doc, vAllOptions(LivingVisibilityShow), jobs, w)
	VsObserve(w.failAt)
	VsObserve(p.err != nil)
	VsReach("fault-injected")
	VsAssert("writer-failure-does-not-panic", !p.panicked)
	VsAssert("writer-failure-is-reported", p.err != nil)
	if !w.oneFile {
		VsAssert("publishing-stops-after-the-failure", w.calls <= w.failAt+jobs)
	}
	_ = fmt.Sprint
}

// VerifC19_Races: publishing with 2 and 3 jobs under the happens-before monitor (fair schedule, so
// that every worker writes files). cs%2 = jobs 2 or 3, cs/2%3 = visibility.
func VerifC19_Races(cs int) {
	doc, err := gedcom.NewDocumentFromString(vC19Doc)
	VsAssume(err == nil)
	p := vPublish(doc, vAllOptions(vVisibilities[cs/2%3]), cs%2+2, vNewMemWriter())
	VsObserve(len(p.w.names))
	VsReach("published-under-the-race-monitor")
	VsAssert("race-run-publishes", !p.panicked && p.err == nil)
}

// vPublishToDir publishes through the real DirectoryFileWriter and returns the files as written
// (name -> bytes read back from the directory), in the order of the names given by the writer hook.
func vPublishToDir(doc *gedcom.Document, opts *PublishShowOptions, jobs int, dir string) (names []string, contents map[string]string, err error) {
	w := core.NewDirectoryFileWriter(dir)
	var mu sync.Mutex
	w.WillWriteFile = func(file *core.File) {
		mu.Lock()
		names = append(names, file.Name)
		mu.Unlock()
	}
	err = NewPublisher(doc, opts).Publish(w, jobs)
	contents = map[string]string{}
	for _, n := range names {
		b, rerr := os.ReadFile(dir + "/" + n)
		if rerr != nil {
			contents[n] = "unreadable: " + rerr.Error()
			continue
		}
		contents[n] = string(b)
	}
	return
}

// VerifC19_Directory: the real file writer. Document B published into a directory that already holds
// the site of document A (longer or shorter pages with the same names) gives byte for byte the files
// that B gives in a fresh directory; a missing output directory is reported as an error.
// cs%3: which document was published before (0 a longer one, 1 a shorter one, 2 the same with fewer
// page groups); cs/3%2: jobs 1 or 2.
func VerifC19_Directory(cs int) {
	jobs := cs/3%2 + 1
	mk := func(text string) *gedcom.Document {
		d, err := gedcom.NewDocumentFromString(text)
		VsAssume(err == nil)
		return d
	}
	optsB := vAllOptions(LivingVisibilityShow)
	first, optsA := vC19Doc, vAllOptions(LivingVisibilityShow)
	second := vDeadFamily
	switch cs % 3 {
	case 1:
		first, second = vDeadFamily, vC19Doc
	case 2:
		second = vC19Doc
		optsB = &PublishShowOptions{ShowIndividuals: true, ShowPlaces: true, ShowFamilies: true, LivingVisibility: LivingVisibilityShow}
	}
	used, err := os.MkdirTemp("", "verif-c19-")
	VsAssume(err == nil)
	fresh, err := os.MkdirTemp("", "verif-c19-")
	VsAssume(err == nil)
	defer os.RemoveAll(used)
	defer os.RemoveAll(fresh)
	_, _, errA := vPublishToDir(mk(first), optsA, jobs, used)
	namesB, inUsed, errB := vPublishToDir(mk(second), optsB, jobs, used)
	namesF, inFresh, errF := vPublishToDir(mk(second), optsB, jobs, fresh)
	VsReach("published-into-directories")
	VsAssert("publishing-into-a-directory-succeeds", errA == nil && errB == nil && errF == nil)
	same := len(namesB) == len(namesF)
	for _, n := range namesF {
		if inUsed[n] != inFresh[n] {
			same = false
		}
	}
	VsObserve(len(namesF))
	VsAssert("files-do-not-depend-on-what-the-directory-held-before", same)
	// a directory that does not exist: an error, not a silent success
	_, _, errM := vPublishToDir(mk(second), optsB, jobs, fresh+"/missing")
	VsAssert("missing-output-directory-is-reported", errM != nil)
}
