package html

import (
	"bytes"
	"fmt"
	"strings"

	"github.com/elliotchance/gedcom/v39"
	. "github.com/elliotchance/gedcom/v39/internal/vsym"
)

var vTaintKinds = []string{"given name", "surname", "place", "date phrase", "note", "source title", "source property", "event value",
	"individual pointer", "sex", "name type", "second name", "pointer of a nameless individual"}

// vTaintedDoc builds a document in which one value (selected by kind) carries the taint token
// "Ta" + c + "nt" with a symbolic ASCII byte c.
func vTaintedDoc(kind int, tok string) string {
	v := func(k int, plain string) string {
		if k == kind {
			return tok
		}
		return plain
	}
	ptr := "I3"
	if kind == 8 {
		ptr = tok
	}
	s := vDeadFamily
	s += "0 @" + ptr + "@ INDI\n1 NAME " + v(0, "Zed") + " /" + v(1, "Young") + "/\n2 TYPE " + v(10, "birth") + "\n1 NAME " + v(11, "Zeddy /Young/") + "\n"
	s += "1 SEX " + v(9, "M") + "\n1 BIRT\n2 DATE " + v(3, "1 Jan 1850") + "\n2 PLAC " + v(2, "Perth") + ", Australia\n1 NOTE " + v(4, "a note") + "\n"
	s += "1 EVEN " + v(7, "something") + "\n2 TYPE Award\n2 DATE 1870\n1 DEAT\n2 DATE 1900\n1 FAMC @F1@\n"
	s += "0 @F1@ FAM\n1 HUSB @I1@\n1 WIFE @I2@\n1 CHIL @" + ptr + "@\n"
	s += "0 @S1@ SOUR\n1 TITL " + v(5, "A source") + "\n1 AUTH " + v(6, "An author") + "\n"
	if kind == 12 {
		s += "0 @" + tok + "@ INDI\n1 SEX M\n1 BIRT\n2 DATE 1851\n1 DEAT\n2 DATE 1901\n"
	}
	return s
}

// vCheckEscaped asserts that no byte of content that depends on the taint byte can be an HTML
// metacharacter: under the path condition the solver must exclude < > " ' & for it.
func vCheckEscaped(label, content string, tok string, c byte) {
	if VsNative() {
		// the replay searches for the raw token
		VsAssert(label, !(vIsMeta(c) && c != '\'' && strings.Contains(content, tok)))
		return
	}
	ok := true
	for i := 0; i < len(content); i++ {
		b := content[i]
		if VsIsSymbolic(b) {
			// ' is only significant inside single-quoted attributes and script strings, which only ever
			// hold sanitised page keys (see C19); the four characters below matter everywhere
			ok = VsAnd(ok, VsAll(b != '<', b != '>', b != '"', b != '&'))
		}
	}
	VsAssert(label, ok)
}

// VerifC18_Publish: every page kind of a published site. cs selects the tainted value kind.
func VerifC18_Publish(cs int) {
	kind := cs % len(vTaintKinds)
	c := VsByte("taint", 0x20, 0x7e)
	if kind == 8 || kind == 12 {
		VsAssume(c != '@')
	}
	tok := "Ta" + string([]byte{c}) + "nt"
	doc, err := gedcom.NewDocumentFromString(vTaintedDoc(kind, tok))
	VsAssume(err == nil)
	VsClass(vTaintKinds[kind])
	p := vPublish(doc, vAllOptions(LivingVisibilityShow), 1, vNewMemWriter())
	VsReach("tainted-site-published")
	VsAssert("tainted-publish-succeeds", !p.panicked && p.err == nil)
	if p.panicked || p.err != nil {
		return
	}
	reached := false
	for _, n := range p.w.sortedNames() {
		page := p.w.contents[n]
		if VsNative() {
			reached = reached || strings.Contains(page, "Ta") // some rendering of the token
		} else if VsIsSymbolic(page) {
			reached = true
		}
		vCheckEscaped("file-content-cannot-change-page-structure", page, tok, c)
		// file names: no separators
		nameOK := true
		for i := 0; i < len(n); i++ {
			nameOK = VsAnd(nameOK, VsAll(n[i] != '/', n[i] != '\\', n[i] != 0))
		}
		VsAssert("tainted-file-name-has-no-separator", nameOK)
	}
	if reached {
		VsReach("tainted-value-reaches-some-page") // guards against a vacuous check
	}
}

// VerifC18_Diff: the diff report (html) of two documents, one tainted value kind at a time.
func VerifC18_Diff(cs int) {
	kind := []int{0, 1, 2, 3, 7, 8, 12}[cs%7]
	c := VsByte("taint", 0x20, 0x7e)
	if kind == 8 || kind == 12 {
		VsAssume(c != '@')
	}
	tok := "Ta" + string([]byte{c}) + "nt"
	left, err1 := gedcom.NewDocumentFromString(vTaintedDoc(kind, tok))
	right, err2 := gedcom.NewDocumentFromString(vTaintedDoc(-1, tok))
	VsAssume(err1 == nil && err2 == nil)
	VsClass(vTaintKinds[kind])
	opts := gedcom.NewIndividualNodesCompareOptions()
	comparisons := left.Individuals().Compare(right.Individuals(), opts)
	page := NewDiffPage(comparisons, &gedcom.FilterFlags{}, "", DiffPageShowAll, DiffPageSortHighestSimilarity, make(chan gedcom.Progress, 1000), opts, LivingVisibilityShow)
	buf := bytes.NewBuffer(nil)
	_, werr := page.WriteHTMLTo(buf)
	VsReach("diff-page-rendered")
	VsAssert("diff-page-renders", werr == nil)
	vCheckEscaped("diff-report-content-cannot-change-page-structure", buf.String(), tok, c)
	_ = fmt.Sprint
}
