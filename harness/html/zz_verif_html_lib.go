package html

import (
	"bytes"
	"errors"
	"fmt"
	"sort"
	"strings"
	"sync"

	"github.com/elliotchance/gedcom/v39"
	"github.com/elliotchance/gedcom/v39/html/core"
	. "github.com/elliotchance/gedcom/v39/internal/vsym"
)

// vMemWriter collects published files in memory; it can be told to fail at the k-th file.
type vMemWriter struct {
	mu       sync.Mutex
	names    []string
	contents map[string]string
	failAt   int  // fail when this many files have been written (-1: never)
	oneFile  bool // only that one write fails (an unwritable file); otherwise every later write fails too (a full disk)
	failed   bool
	calls    int
}

func vNewMemWriter() *vMemWriter {
	return &vMemWriter{contents: map[string]string{}, failAt: -1}
}

func (w *vMemWriter) WriteFile(file *core.File) error {
	w.mu.Lock()
	defer w.mu.Unlock()
	w.calls++
	if w.failAt >= 0 && len(w.names) >= w.failAt && !(w.oneFile && w.failed) {
		w.failed = true
		return errors.New("disk full")
	}
	buf := bytes.NewBuffer(nil)
	if _, err := file.Component.WriteHTMLTo(buf); err != nil {
		return err
	}
	w.names = append(w.names, file.Name)
	w.contents[file.Name] += buf.String()
	return nil
}

func (w *vMemWriter) sortedNames() []string {
	out := append([]string(nil), w.names...)
	sort.Strings(out)
	return out
}

// vHash is FNV-1a over the (name, content) pairs in name order: a fingerprint of a published site.
func (w *vMemWriter) vHash() string {
	h := uint32(2166136261)
	add := func(s string) {
		for i := 0; i < len(s); i++ {
			h ^= uint32(s[i])
			h *= 16777619
		}
		h ^= 0xff
		h *= 16777619
	}
	for _, n := range w.sortedNames() {
		if VsIsSymbolic(n) || VsIsSymbolic(w.contents[n]) {
			return "site depends on symbolic data"
		}
		add(n)
		add(w.contents[n])
	}
	return fmt.Sprintf("%d files, fnv %08x", len(w.names), h)
}

func vAllOptions(v LivingVisibility) *PublishShowOptions {
	return &PublishShowOptions{ShowIndividuals: true, ShowPlaces: true, ShowFamilies: true, ShowSurnames: true, ShowSources: true, ShowStatistics: true, LivingVisibility: v}
}

type vPublished struct {
	w        *vMemWriter
	err      error
	panicked bool
	panicMsg string
}

// vPublish publishes doc into memory; a panic on the calling goroutine is recorded.
func vPublish(doc *gedcom.Document, opts *PublishShowOptions, jobs int, w *vMemWriter) (out vPublished) {
	out.w = w
	defer func() {
		if r := recover(); r != nil {
			out.panicked = true
			out.panicMsg = fmt.Sprint(r)
		}
	}()
	out.err = NewPublisher(doc, opts).Publish(w, jobs)
	return
}

var vVisibilities = []LivingVisibility{LivingVisibilityShow, LivingVisibilityHide, LivingVisibilityPlaceholder}

const vDeadFamily = "0 HEAD\n" +
	"0 @I1@ INDI\n1 NAME John /Smith/\n1 SEX M\n1 BIRT\n2 DATE 3 Sep 1843\n2 PLAC Sydney, Australia\n1 DEAT\n2 DATE 1 Jan 1900\n1 FAMS @F1@\n" +
	"0 @I2@ INDI\n1 NAME Jane /Doe/\n1 SEX F\n1 BIRT\n2 DATE 1850\n2 PLAC London, England\n1 DEAT\n2 DATE 1910\n1 FAMS @F1@\n"

func vIsMeta(c byte) bool {
	return c == '<' || c == '>' || c == '"' || c == '\'' || c == '&'
}

// vHrefTargets extracts the targets of href="..." and location.href='...' in a page.
func vHrefTargets(page string) []string {
	var out []string
	for _, pat := range []struct{ open, close string }{{`href="`, `"`}, {`location.href='`, `'`}} {
		rest := page
		for {
			i := strings.Index(rest, pat.open)
			if i < 0 {
				break
			}
			rest = rest[i+len(pat.open):]
			j := strings.Index(rest, pat.close)
			if j < 0 {
				break
			}
			out = append(out, rest[:j])
			rest = rest[j:]
		}
	}
	return out
}

var _ = VsNative
