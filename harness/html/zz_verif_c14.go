package html

import (
	"github.com/elliotchance/gedcom/v39"
	. "github.com/elliotchance/gedcom/v39/internal/vsym"
)

// VerifC14_Publish: 'gedcom publish' in each visibility mode on decodable files with structural
// faults. cs: visibility = cs%3, fault = cs/3.
func VerifC14_Publish(cs int) {
	vis := vVisibilities[cs%3]
	text := vDeadFamily
	switch cs / 3 {
	case 0: // a well-formed family
		text += "0 @I3@ INDI\n1 NAME Bob /Smith/\n1 BIRT\n2 DATE 1875\n1 DEAT\n2 DATE 1950\n1 FAMC @F1@\n0 @F1@ FAM\n1 HUSB @I1@\n1 WIFE @I2@\n1 CHIL @I3@\n"
	case 1: // dangling and wrong-kind references, empty values
		text += "0 @F1@ FAM\n1 HUSB @I9@\n1 WIFE @F1@\n1 CHIL\n1 CHIL @I8@\n"
	case 2: // individual without a name, name without surname, symbols and multi-byte initials
		text += "0 @I3@ INDI\n1 SEX M\n0 @I4@ INDI\n1 NAME Bob\n0 @I5@ INDI\n1 NAME 9 /(unknown)/\n0 @I6@ INDI\n1 NAME X /\xc3\x89mile/\n1 DEAT\n0 @F1@ FAM\n1 HUSB @I3@\n1 CHIL @I3@\n"
	case 3: // a living person (born recently, no death) and a person who is their own parent
		text += "0 @I3@ INDI\n1 NAME Liv /Ing/\n1 BIRT\n2 DATE 1990\n1 FAMC @F1@\n1 FAMS @F1@\n0 @F1@ FAM\n1 HUSB @I3@\n1 WIFE @I2@\n1 CHIL @I3@\n"
	case 4: // duplicate pointers, family without members, source without title, unparsable dates
		text += "0 @I1@ INDI\n1 NAME Dup /Smith/\n1 BIRT\n2 DATE garbage\n1 DEAT\n2 DATE 31 Feb 1900\n0 @F1@ FAM\n0 @S1@ SOUR\n0 @S2@ SOUR\n1 TITL T\n"
	case 6: // a surname that starts with a two-byte letter or symbol (second byte symbolic: U+00C0..U+00FF)
		text += "0 @I6@ INDI\n1 NAME Xavier /" + "\xc3" + VsBytes("initial", 1, 0x80, 0xbf) + "mile/\n1 BIRT\n2 DATE 1850\n1 DEAT\n2 DATE 1900\n"
	case 8: // a surname of one or two bytes over blank, symbols, a digit and a letter (no letter at all, blanks, slashes ...)
		text += "0 @I6@ INDI\n1 NAME Xavier /" + VsBytesIn("surname", VsChoose("surnamelen", 2)+1, " -/?(.9a") + "/\n1 BIRT\n2 DATE 1850\n1 DEAT\n2 DATE 1900\n"
	case 7: // a surname that starts with any printable ASCII byte
		text += "0 @I6@ INDI\n1 NAME Xavier /" + VsBytes("initial", 1, 0x21, 0x7e) + "mile/\n1 BIRT\n2 DATE 1850\n1 DEAT\n2 DATE 1900\n"
	default: // an empty file
		text = "0 HEAD\n0 TRLR\n"
	}
	doc, err := gedcom.NewDocumentFromString(text)
	VsAssume(err == nil)
	VsAssume(len(doc.Individuals()) >= 2 || cs/3 < 6 || cs/3 > 8)
	before := doc.String()
	p := vPublish(doc, vAllOptions(vis), 1, vNewMemWriter())
	VsObserve(string(vis))
	VsObserve(p.panicked)
	VsObserve(len(p.w.names))
	VsReach("publish-attempted")
	if p.panicked {
		VsClass("panic-on-caller")
	}
	VsAssert("publish-does-not-panic", !p.panicked)
	VsAssert("publish-ends-with-output-or-error", p.err != nil || len(p.w.names) > 0)
	VsAssert("publishing-leaves-the-document-untouched", doc.String() == before)
}
