package html

import (
	"bytes"
	"sort"

	"github.com/elliotchance/gedcom/v39"
	"github.com/elliotchance/gedcom/v39/html/core"
	. "github.com/elliotchance/gedcom/v39/internal/vsym"
)

// vMemWriter collects published files in memory.
type vMemWriter struct {
	names    []string
	contents map[string]string
	failAt   int // fail when this many files have been written (-1: never)
	err      error
}

func vNewMemWriter() *vMemWriter {
	return &vMemWriter{contents: map[string]string{}, failAt: -1}
}

func (w *vMemWriter) WriteFile(file *core.File) error {
	if w.failAt >= 0 && len(w.names) >= w.failAt {
		return w.err
	}
	buf := bytes.NewBuffer(nil)
	if _, err := file.Component.WriteHTMLTo(buf); err != nil {
		return err
	}
	w.names = append(w.names, file.Name)
	w.contents[file.Name] += buf.String()
	return nil
}

func (w *vMemWriter) sortedNames() []string {
	out := append([]string(nil), w.names...)
	sort.Strings(out)
	return out
}

const vSmokeGedcom = "0 HEAD\n" +
	"0 @I1@ INDI\n1 NAME John /Smith/\n1 SEX M\n1 BIRT\n2 DATE 3 Sep 1843\n2 PLAC Sydney, Australia\n1 DEAT\n2 DATE 1 Jan 1900\n1 FAMS @F1@\n" +
	"0 @I2@ INDI\n1 NAME Jane /Doe/\n1 SEX F\n1 BIRT\n2 DATE 1850\n1 DEAT\n2 DATE 1910\n1 FAMS @F1@\n" +
	"0 @I3@ INDI\n1 NAME Bob /Smith/\n1 BIRT\n2 DATE 1875\n1 DEAT\n2 DATE 1950\n1 FAMC @F1@\n" +
	"0 @F1@ FAM\n1 HUSB @I1@\n1 WIFE @I2@\n1 CHIL @I3@\n1 MARR\n2 DATE 1870\n" +
	"0 @S1@ SOUR\n1 TITL A source\n" +
	"0 TRLR\n"

func VerifSmoke_Publish(cs int) {
	doc, err := gedcom.NewDocumentFromString(vSmokeGedcom)
	VsAssert("decodes", err == nil)
	opts := &PublishShowOptions{ShowIndividuals: true, ShowPlaces: true, ShowFamilies: true, ShowSurnames: true, ShowSources: true, ShowStatistics: true,
		LivingVisibility: LivingVisibilityShow}
	w := vNewMemWriter()
	perr := NewPublisher(doc, opts).Publish(w, 1)
	VsAssert("publishes", perr == nil)
	VsReach("published")
	for _, n := range w.sortedNames() {
		VsObserve(n)
		VsObserve(len(w.contents[n]))
	}
}
