package html

import (
	"strings"

	"github.com/elliotchance/gedcom/v39"
	. "github.com/elliotchance/gedcom/v39/internal/vsym"
)

var vC17Roles = []string{"child-of-dead-parents", "spouse-of-a-dead-person", "unconnected", "shares-surname-with-a-dead-person",
	"shares-place-with-a-dead-person", "living-by-age-rule-only", "burial-but-no-death", "parent-of-a-dead-person"}

type vLiving struct {
	given, surname, altName, place string // the secrets (concrete marker + symbolic bytes)
	year                           int
	text                           string
}

// vLivingDoc builds the dead couple plus one living person in the given role. Every private string of
// the living person is a marker token with two symbolic letters; the birth year is symbolic.
func vLivingDoc(role int, symbolic bool) vLiving {
	lo := byte(0x61)
	if !symbolic {
		lo = 0x7a // concrete "zz"
	}
	l := vLiving{
		given:   "Zqg" + VsBytes("given", 2, lo, 0x7a),
		surname: "Xvs" + VsBytes("surname", 2, lo, 0x7a),
		altName: "Jya" + VsBytes("alt", 2, lo, 0x7a),
		place:   "Wkp" + VsBytes("place", 2, lo, 0x7a) + "ville",
		year:    1990,
	}
	if symbolic {
		l.year = VsInt("birthyear", 1960, 2005)
	}
	surname, place := l.surname, l.place+", Secretland"
	switch vC17Roles[role] {
	case "shares-surname-with-a-dead-person":
		surname = "Smith"
	case "shares-place-with-a-dead-person":
		place = "Sydney, Australia"
	}
	s := vDeadFamily
	s += "0 @I3@ INDI\n1 NAME Bob /Smith/\n1 BIRT\n2 DATE 1875\n1 DEAT\n2 DATE 1950\n1 FAMC @F1@\n"
	s += "0 @L1@ INDI\n1 NAME " + l.given + " /" + surname + "/\n1 NAME " + l.altName + " /" + surname + "/\n2 TYPE aka\n1 SEX F\n"
	s += "1 BIRT\n2 DATE " + VsDecimal(l.year, 4) + "\n2 PLAC " + place + "\n"
	// further events of the living person, each at a place that carries the secret marker
	s += "1 BAPM\n2 DATE " + VsDecimal(l.year, 4) + "\n2 PLAC " + l.place + " Chapel, Secretland\n1 RESI\n2 DATE 2010\n2 PLAC " + l.place + " Street\n" +
		// places below attributes and one level further down (not events of the individual)
		"1 OCCU Clerk\n2 PLAC " + l.place + " Works\n1 EDUC School\n2 PLAC " + l.place + " School\n1 NOTE a note\n2 SOUR @S1@\n3 PLAC " + l.place + " Archive\n"
	switch vC17Roles[role] {
	case "burial-but-no-death":
		// end-of-life events without a death record: the person still counts as living
		s += "1 BURI\n2 DATE 2020\n2 PLAC " + l.place + " Cemetery\n1 CREM\n2 PLAC " + l.place + " Crematorium\n1 PROB\n2 PLAC " + l.place + " Court\n"
	}
	fam := "0 @F1@ FAM\n1 HUSB @I1@\n1 WIFE @I2@\n1 CHIL @I3@\n"
	switch vC17Roles[role] {
	case "child-of-dead-parents", "shares-surname-with-a-dead-person", "shares-place-with-a-dead-person", "living-by-age-rule-only", "burial-but-no-death":
		s += "1 FAMC @F1@\n"
		fam += "1 CHIL @L1@\n"
	case "spouse-of-a-dead-person":
		s += "1 FAMS @F2@\n"
		fam += "0 @F2@ FAM\n1 HUSB @I3@\n1 WIFE @L1@\n1 MARR\n2 DATE 1995\n2 PLAC Perth, Australia\n"
	case "parent-of-a-dead-person":
		s += "1 FAMS @F2@\n"
		fam += "0 @I4@ INDI\n1 NAME Tim /Smith/\n1 BIRT\n2 DATE 2000\n1 DEAT\n2 DATE 2001\n1 FAMC @F2@\n0 @F2@ FAM\n1 WIFE @L1@\n1 CHIL @I4@\n"
	}
	l.text = s + fam + "0 @S1@ SOUR\n1 TITL A source\n"
	return l
}

func (l vLiving) nameSecrets() []string { return []string{l.given, l.surname, l.altName} }

// vLeaks: does content carry the secret? In the engine: any byte that depends on a secret variable or
// the concrete marker; natively: the marker text.
func vLeaks(content string, marker string) bool {
	return strings.Contains(content, marker[:3])
}

// VerifC17_Hidden: cs: role = cs%8, visibility = hide (cs/8 == 0) or placeholder (1).
func VerifC17_Hidden(cs int) {
	role := cs % len(vC17Roles)
	vis := []LivingVisibility{LivingVisibilityHide, LivingVisibilityPlaceholder}[cs/len(vC17Roles)%2]
	l := vLivingDoc(role, true)
	doc, err := gedcom.NewDocumentFromString(l.text)
	VsAssume(err == nil)
	living, _ := doc.NodeByPointer("L1").(*gedcom.IndividualNode)
	VsAssume(living != nil && living.IsLiving())
	VsClass(vC17Roles[role])
	VsClass(string(vis))
	p := vPublish(doc, vAllOptions(vis), 1, vNewMemWriter())
	VsReach("hidden-site-published")
	VsAssert("hidden-publish-succeeds", !p.panicked && p.err == nil)
	if p.panicked || p.err != nil {
		return
	}
	nameLeak, placeLeak, tainted, pageForLiving := false, false, false, false
	for _, n := range p.w.sortedNames() {
		page := p.w.contents[n]
		for _, secret := range l.nameSecrets() {
			if vLeaks(page, secret) || vLeaks(n, secret) {
				nameLeak = true
			}
		}
		if vLeaks(page, l.place) || vLeaks(n, l.place) {
			placeLeak = true
		}
		if VsIsSymbolic(page) || VsIsSymbolic(n) {
			tainted = true
		}
		if strings.HasPrefix(n, "zqg") {
			pageForLiving = true
		}
	}
	VsAssert("no-page-for-a-living-individual", !pageForLiving)
	VsAssert("no-name-of-a-living-individual-is-published", !nameLeak)
	if vis == LivingVisibilityHide {
		VsAssert("hide-no-place-of-a-living-individual-is-published", !placeLeak)
		VsAssert("hide-no-output-byte-depends-on-living-data", !tainted)
		// the whole site must be the same whatever the living person's data are
		VsEmit("site", p.w.vHash())
	}
	// people who are not living remain fully published
	dead := false
	for _, n := range p.w.names {
		if n == "john-smith.html" {
			dead = strings.Contains(p.w.contents[n], "John") && strings.Contains(p.w.contents[n], "1843")
		}
	}
	VsAssert("dead-people-remain-fully-published", dead)
}

// VerifC17_Shown: control - in show mode the living person's data do appear (guards against a
// vacuous publisher / leak detector).
func VerifC17_Shown(cs int) {
	l := vLivingDoc(cs%len(vC17Roles), false)
	doc, err := gedcom.NewDocumentFromString(l.text)
	VsAssume(err == nil)
	p := vPublish(doc, vAllOptions(LivingVisibilityShow), 1, vNewMemWriter())
	VsReach("shown-site-published")
	VsAssert("shown-publish-succeeds", !p.panicked && p.err == nil)
	found := false
	for _, n := range p.w.names {
		if vLeaks(p.w.contents[n], l.given) {
			found = true
		}
	}
	VsAssert("show-mode-does-publish-the-living-individual", found)
}
