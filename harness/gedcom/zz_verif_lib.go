package gedcom

// Shared helpers for the gosym harnesses of package gedcom. Everything here is
// written fork-free (no && || switch on symbolic data): conditions are
// combined with VsAnd/VsOr/VsIte so that an oracle never multiplies paths.

import (
	"fmt"
	"time"

	. "github.com/elliotchance/gedcom/v39/internal/vsym"
)

var vMonthLen = []int{31, 28, 31, 30, 31, 30, 31, 31, 30, 31, 30, 31}
var vCumDays = []int{0, 31, 59, 90, 120, 151, 181, 212, 243, 273, 304, 334}

// VLeap is the Gregorian leap-year rule.
func VLeap(y int) bool {
	return VsOr(VsAnd(VsMod(y, 4) == 0, VsMod(y, 100) != 0), VsMod(y, 400) == 0)
}

// VDaysIn returns the number of days of month m (1..12) in year y.
func VDaysIn(m, y int) int {
	return VsSelectInt(m-1, vMonthLen) + VsIteInt(VsAnd(m == 2, VLeap(y)), 1, 0)
}

// VDayNo is the number of days from 1 Jan 0001 to the civil date y-m-d (m in 1..12).
func VDayNo(y, m, d int) int {
	y1 := y - 1
	return 365*y1 + VsDiv(y1, 4) - VsDiv(y1, 100) + VsDiv(y1, 400) +
		VsSelectInt(m-1, vCumDays) + VsIteInt(VsAnd(m >= 3, VLeap(y)), 1, 0) + d - 1
}

// VDate is a symbolic date of a given granularity: 0 = day, 1 = month, 2 = year.
type VDate struct {
	Gran    int
	Y, M, D int // M, D are 0 when absent
}

// VNewDate draws a valid symbolic date (years 1..9999) of the given granularity.
func VNewDate(name string, gran int) VDate {
	v := VDate{Gran: gran}
	v.Y = VsInt(name+".y", 1, 9999)
	if gran <= 1 {
		v.M = VsInt(name+".m", 1, 12)
	}
	if gran == 0 {
		v.D = VsInt(name+".d", 1, 31)
		VsAssume(v.D <= VDaysIn(v.M, v.Y))
	}
	return v
}

// Date converts to the repo's Date (constraint exact).
func (v VDate) Date() Date {
	return Date{Day: v.D, Month: time.Month(v.M), Year: v.Y}
}

// First is the day number of the first day of the period.
func (v VDate) First() int {
	switch v.Gran {
	case 0:
		return VDayNo(v.Y, v.M, v.D)
	case 1:
		return VDayNo(v.Y, v.M, 1)
	}
	return VDayNo(v.Y, 1, 1)
}

// Last is the day number of the last day of the period.
func (v VDate) Last() int {
	switch v.Gran {
	case 0:
		return VDayNo(v.Y, v.M, v.D)
	case 1:
		return VDayNo(v.Y, v.M, VDaysIn(v.M, v.Y))
	}
	return VDayNo(v.Y, 12, 31)
}

// vSameTree compares two nodes position by position: tag, value, pointer, Go type, children.
func vSameTree(a, b Node) bool {
	ok := VsAll(
		a.Tag().Tag() == b.Tag().Tag(),
		VsStrEq(a.Value(), b.Value()),
		VsStrEq(a.Pointer(), b.Pointer()),
		fmt.Sprintf("%T", a) == fmt.Sprintf("%T", b),
		len(a.Nodes()) == len(b.Nodes()),
	)
	if len(a.Nodes()) != len(b.Nodes()) {
		return false
	}
	for i, c := range a.Nodes() {
		ok = VsAnd(ok, vSameTree(c, b.Nodes()[i]))
	}
	return ok
}

func vSameDocument(a, b *Document) bool {
	if len(a.Nodes()) != len(b.Nodes()) {
		return false
	}
	ok := a.HasBOM == b.HasBOM
	for i, n := range a.Nodes() {
		ok = VsAnd(ok, vSameTree(n, b.Nodes()[i]))
	}
	return ok
}
