package gedcom

import (
	. "github.com/elliotchance/gedcom/v39/internal/vsym"
)

// VerifC03_Bytes: the whole input is N = cs/4 symbolic ASCII bytes; options by cs%4.
func VerifC03_Bytes(cs int) {
	n := cs / 4
	multiLine := cs%2 == 1
	invalidIndents := cs/2%2 == 1
	text := VsBytes("b", n, 0x00, 0x7f)
	o := vDecode(text, multiLine, invalidIndents)
	VsObserve(text)
	VsObserve(o.panicked)
	VsObserve(o.err != nil)
	VsReach("bytes-decoded")
	vCheckTotality(o, invalidIndents, text)
}

// VerifC03_Adversarial: structure-aware hostile files with symbolic level digits and value bytes.
func VerifC03_Adversarial(cs int) {
	multiLine := cs%2 == 1
	invalidIndents := cs/2%2 == 1
	form := cs / 4
	lv := VsDecimal(VsInt("lv", 0, 9), 1)
	v := VsBytes("v", 2, 0x20, 0x7e)
	var text string
	switch form {
	case 0:
		text = lv + " NAME " + v + "\n" // first line at any level
	case 1:
		text = "0 HUSB @I1@\n"
	case 2:
		text = "0 HEAD\n" + lv + " WIFE " + v + "\n"
	case 3:
		text = "0 @F1@ FAM\n0 HEAD\n" + lv + " CHIL " + v + "\n" // after, but outside, a family
	case 4:
		text = "0 HEAD\n1 INDI " + v + "\n" + lv + " FAM\n" // record tags nested under other records
	case 5:
		text = "0 @I1@ INDI\n" + lv + " @I2@ INDI\n" + lv + " NAME\n"
	case 6:
		text = lv + " " + v + "\n" // tag made of arbitrary bytes
	case 7:
		text = "0 HEAD\n" + v + "\n" + lv + " CONT " + v // unparsable line in the middle, no final newline
	case 8:
		text = "\xef\xbb\xbf" + lv + " HEAD\r\r\n\n" + lv + " TRLR"
	default:
		text = "0 @F1@ FAM\n1 HUSB\n1 WIFE " + v + "\n" + lv + " CHIL\n"
	}
	o := vDecode(text, multiLine, invalidIndents)
	VsObserve(text)
	VsObserve(o.panicked)
	VsObserve(o.err != nil)
	VsReach("adversarial-decoded")
	vCheckTotality(o, invalidIndents, text)
}

// VerifC03_LongLevels: level numbers of 2, 3, 18, 19, 20 and 21 digits, every digit symbolic (so every
// number up to and beyond the 64-bit range, leading zeros included), as the first line, below an open
// record and below a nested line. cs%4: options, cs/4%6: number of digits, cs/24%3: position.
func VerifC03_LongLevels(cs int) {
	multiLine := cs%2 == 1
	invalidIndents := cs/2%2 == 1
	digits := []int{2, 3, 18, 19, 20, 21}[cs/4%6]
	lv := VsBytes("lv", digits, '0', '9')
	var text string
	switch cs / 24 % 3 {
	case 0:
		text = lv + " NAME x\n0 TRLR\n"
	case 1:
		text = "0 @I1@ INDI\n" + lv + " NAME x\n1 SEX M\n"
	default:
		text = "0 @I1@ INDI\n1 BIRT\n2 DATE 1900\n" + lv + " PLAC x\n"
	}
	o := vDecode(text, multiLine, invalidIndents)
	VsObserve(text)
	VsObserve(o.panicked)
	VsObserve(o.err != nil)
	VsReach("long-level-decoded")
	vCheckTotality(o, invalidIndents, text)
}
