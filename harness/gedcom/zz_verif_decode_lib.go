package gedcom

import (
	"fmt"
	"strings"

	. "github.com/elliotchance/gedcom/v39/internal/vsym"
)

// Reference model of the line grammar, written from the property statement (no regexp):
// a line "level [@xref@] tag [value]" becomes one node; a node at level n is the last child of the
// nearest preceding node at level n-1.

type vRefNode struct {
	tag, value, pointer string
	children            []*vRefNode
}

var vLineTags = []string{"NOTE", "FAM", "HUSB", "7", "INDI", "NAME", "ZZ"}

type vDecodeOutcome struct {
	doc      *Document
	err      error
	panicked bool
	panicMsg string
}

func vDecode(text string, multiLine, invalidIndents bool) (out vDecodeOutcome) {
	defer func() {
		if r := recover(); r != nil {
			out.panicked = true
			out.panicMsg = fmt.Sprint(r)
		}
	}()
	dec := NewDecoder(strings.NewReader(text))
	dec.AllowMultiLine = multiLine
	dec.AllowInvalidIndents = invalidIndents
	out.doc, out.err = dec.Decode()
	return
}

func vSameAsRef(n Node, r *vRefNode) bool {
	ok := VsAll(
		n.Tag().Tag() == r.tag,
		VsStrEq(n.Value(), r.value),
		VsStrEq(n.Pointer(), r.pointer),
		len(n.Nodes()) == len(r.children),
	)
	if len(n.Nodes()) != len(r.children) {
		return false
	}
	for i, c := range n.Nodes() {
		ok = VsAnd(ok, vSameAsRef(c, r.children[i]))
	}
	return ok
}

// vCheckTotality asserts the C03 outcome rules on one decode result.
func vCheckTotality(o vDecodeOutcome, invalidIndents bool, text string) {
	documented := false
	if o.panicked {
		documented = strings.HasPrefix(o.panicMsg, "indent is too large")
		switch {
		case documented:
			VsReach("documented-indent-panic")
		case strings.HasPrefix(o.panicMsg, "cannot create"):
			VsClass("panic:cannot-create-without-family-or-document")
		case strings.HasPrefix(o.panicMsg, "runtime error: index out of range"):
			VsClass("panic:index-out-of-range")
		case strings.HasPrefix(o.panicMsg, "runtime error: invalid memory address"):
			VsClass("panic:nil-dereference")
		default:
			VsClass("panic:other")
		}
	}
	VsAssert("no-undocumented-panic", !o.panicked || documented)
	VsAssert("indent-panic-only-without-AllowInvalidIndents", !(o.panicked && documented && invalidIndents))
	if o.panicked {
		return
	}
	if o.err != nil {
		VsReach("decode-error")
	}
	VsAssert("error-names-the-line", o.err == nil || strings.HasPrefix(o.err.Error(), "line "))
	VsAssert("document-or-error", (o.err != nil) != (o.doc != nil))
}
