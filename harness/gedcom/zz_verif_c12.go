package gedcom

import (
	"fmt"

	. "github.com/elliotchance/gedcom/v39/internal/vsym"
)

func vIn01(x float64) bool { return VsAnd(0 <= x, x <= 1) }

// VerifC12_Jaro: all byte strings of a length pair selected by cs; prefix size symbolic in 0..10,
// boost threshold by choice.
func VerifC12_Jaro(cs int) {
	// length pairs ordered by max(la, lb): cases 0..35 are the pairs up to 5x5, 36..63 reach 7x7
	var pairs [][2]int
	for m := 0; m < 8; m++ {
		for x := 0; x <= m; x++ {
			for y := 0; y <= m; y++ {
				if x == m || y == m {
					pairs = append(pairs, [2]int{x, y})
				}
			}
		}
	}
	la, lb := pairs[cs%len(pairs)][0], pairs[cs%len(pairs)][1]
	a := VsBytes("a", la, 0x00, 0xff)
	b := VsBytes("b", lb, 0x00, 0xff)
	prefix := VsInt("prefix", 0, 10)
	thr := []float64{0, 0.7}[VsChoose("thr", 2)]
	ab := JaroWinkler(a, b, thr, prefix)
	ba := JaroWinkler(b, a, thr, prefix)
	VsObserve(a)
	VsObserve(b)
	VsObserve(ab)
	VsReach("jaro-computed")
	VsAssert("jaro-winkler-in-unit-interval", vIn01(ab))
	VsAssert("jaro-winkler-symmetric", ab == ba)
	if la > 0 {
		VsAssert("jaro-winkler-identity-is-one", JaroWinkler(a, a, thr, prefix) == 1)
	}
}

// VerifC12_String: StringSimilarity (lower-casing, punctuation removal, blank cleaning) on printable
// ASCII strings of lengths cs%4 and cs/4%4.
func VerifC12_String(cs int) {
	la, lb := cs%4, cs/4%4
	a := VsBytes("a", la, 0x20, 0x7e)
	b := VsBytes("b", lb, 0x20, 0x7e)
	ab := StringSimilarity(a, b, DefaultJaroWinklerBoostThreshold, DefaultJaroWinklerPrefixSize)
	ba := StringSimilarity(b, a, DefaultJaroWinklerBoostThreshold, DefaultJaroWinklerPrefixSize)
	VsObserve(a)
	VsObserve(b)
	VsObserve(ab)
	VsReach("string-similarity-computed")
	VsAssert("string-similarity-in-unit-interval", vIn01(ab))
	VsAssert("string-similarity-symmetric", ab == ba)
	// documented: case and punctuation do not matter
	up := VsBytes("u", 1, 0x61, 0x7a)
	x := "j" + up + "n"
	y := "J" + string([]byte{up[0] - 32}) + "N!"
	VsAssert("string-similarity-ignores-case-and-punctuation", StringSimilarity(x, y, 0, 8) == 1)
}

// VerifC12_Date: date similarity on two symbolic valid dates. cs: granularity a = cs%3, b = cs/3%3,
// maxYears default (cs/9 == 0) or symbolic in (0, 1000].
var vC12DateCases = [][3]int{
	// granularity of a, of b (0 day, 1 month, 2 year), symbolic maxYears; the first five are the quick tier
	{2, 2, 0}, {1, 1, 0}, {0, 0, 0}, {2, 0, 0}, {2, 2, 1},
	{0, 1, 0}, {0, 2, 0}, {1, 0, 0}, {1, 2, 0}, {2, 1, 0},
	{0, 0, 1}, {0, 1, 1}, {0, 2, 1}, {1, 0, 1}, {1, 1, 1}, {1, 2, 1}, {2, 0, 1}, {2, 1, 1},
}

func VerifC12_Date(cs int) {
	c := vC12DateCases[cs%len(vC12DateCases)]
	da, db := VNewDate("a", c[0]), VNewDate("b", c[1])
	maxYears := DefaultMaxYearsForSimilarity
	if c[2] == 1 {
		maxYears = VsFloat("maxYears", 0.001, 1000)
	}
	ra, rb := NewDateRange(da.Date(), da.Date()), NewDateRange(db.Date(), db.Date())
	ab, ba := ra.Similarity(rb, maxYears), rb.Similarity(ra, maxYears)
	VsObserve(ab)
	VsReach("date-similarity-computed")
	VsAssert("date-similarity-in-unit-interval", vIn01(ab))
	VsAssert("date-similarity-symmetric", ab == ba)
	VsAssert("date-similarity-identity-is-one", ra.Similarity(ra, maxYears) == 1)
	// zero beyond the configured maximum
	dist := ra.Years() - rb.Years()
	beyond := VsOr(dist > maxYears, -dist > maxYears)
	VsAssert("date-similarity-zero-beyond-max-years", VsImplies(beyond, ab == 0))
	// missing information is exactly neutral
	var none *DateNode
	VsAssert("date-similarity-missing-is-neutral", NewDateNode("1900").Similarity(none, maxYears) == 0.5)
	VsAssert("date-similarity-missing-receiver-is-neutral", none.Similarity(NewDateNode("1900"), maxYears) == 0.5)
}

// VerifC12_DateMonotone: similarity never increases as the distance in years grows (three dates).
func VerifC12_DateMonotone(cs int) {
	// cases ordered so that the first two (year/year, month/year) are the quick tier
	g := [][2]int{{2, 2}, {1, 2}, {0, 2}, {2, 1}, {1, 1}, {0, 1}, {2, 0}, {1, 0}, {0, 0}}[cs%9]
	da, db, dc := VNewDate("a", 2), VNewDate("b", g[0]), VNewDate("c", g[1])
	ra, rb, rc := NewDateRange(da.Date(), da.Date()), NewDateRange(db.Date(), db.Date()), NewDateRange(dc.Date(), dc.Date())
	ya, yb, yc := ra.Years(), rb.Years(), rc.Years()
	dab, dac := ya-yb, ya-yc
	absab := VsIteFloat(dab < 0, -dab, dab)
	absac := VsIteFloat(dac < 0, -dac, dac)
	sab, sac := ra.Similarity(rb, 3), ra.Similarity(rc, 3)
	VsObserve(sab)
	VsObserve(sac)
	VsReach("date-monotone-computed")
	VsAssert("date-similarity-never-increases-with-distance", VsImplies(absab <= absac, sab >= sac))
	VsAssert("date-similarity-depends-only-on-distance", VsImplies(absab == absac, sab == sac))
}

// VerifC12_Weighted: the weighted surrounding similarity with symbolic components in [0,1]; default
// weights (cs 0) and symbolic non-negative weights summing to 1 (cs 1).
func VerifC12_Weighted(cs int) {
	s := NewSurroundingSimilarity(VsFloat("parents", 0, 1), VsFloat("individual", 0, 1), VsFloat("spouses", 0, 1), VsFloat("children", 0, 1))
	if cs == 1 {
		wi, wp, ws := VsFloat("wi", 0, 1), VsFloat("wp", 0, 1), VsFloat("ws", 0, 1)
		VsAssume(wi+wp+ws <= 1)
		s.Options.IndividualWeight, s.Options.ParentsWeight, s.Options.SpousesWeight = wi, wp, ws
		s.Options.ChildrenWeight = 1 - (wi + wp + ws)
	}
	if cs == 2 {
		// weights on a grid of quarters (exact in binary64, zero weights included), by choice
		VsClass("grid-weights")
		qi, qp, qs := VsChoose("qi", 5), VsChoose("qp", 5), VsChoose("qs", 5)
		VsAssume(qi+qp+qs <= 4)
		s.Options.IndividualWeight, s.Options.ParentsWeight, s.Options.SpousesWeight = float64(qi)/4, float64(qp)/4, float64(qs)/4
		s.Options.ChildrenWeight = float64(4-qi-qp-qs) / 4
	}
	w := s.WeightedSimilarity()
	VsObserve(w)
	VsReach("weighted-computed")
	VsAssert("weighted-similarity-not-negative", 0 <= w)
	// first with a margin: a counterexample to the exact bound below sits on the boundary of the rounding
	// slack and need not reproduce in binary64; one to this line does (a failed assertion is assumed to
	// hold on the rest of the path, so the weaker one comes first)
	VsAssert("weighted-similarity-at-most-one-and-a-hundredth", w <= 1.01)
	VsAssert("weighted-similarity-at-most-one", w <= 1.0000000001) // 1 + rounding slack of the relaxation
	all1 := NewSurroundingSimilarity(1, 1, 1, 1)
	VsAssert("weighted-similarity-of-ones-with-default-weights-is-at-most-one", all1.WeightedSimilarity() <= 1)
}

func vPerson(doc *Document, ptr, name string, nameLen int, birthForm int) *IndividualNode {
	ind := doc.AddIndividual(ptr)
	if nameLen > 0 {
		ind.AddName(VsBytes(name+".given", nameLen, 0x61, 0x63) + " /Smith/")
	}
	switch birthForm {
	case 1:
		ind.AddBirthDate(VsDecimal(VsInt(name+".birth", 1800, 1803), 4))
	case 2:
		ind.AddBirthDate("garbage")
	}
	return ind
}

// VerifC12_Individual: two individuals with symbolic given names (0..2 bytes over {a,b,c}) and birth
// years, missing data by case: range, symmetry, identity, neutral score for a missing individual.
// cs: name lengths cs%3, cs/3%3; birth forms cs/9%3, cs/27%3.
func VerifC12_Individual(cs int) {
	doc := NewDocument()
	a := vPerson(doc, "I1", "a", cs%3, cs/9%3)
	b := vPerson(doc, "I2", "b", cs/3%3, cs/27%3)
	opts := NewSimilarityOptions()
	ab, ba := a.Similarity(b, opts), b.Similarity(a, opts)
	VsObserve(ab)
	VsReach("individual-similarity-computed")
	VsAssert("individual-similarity-in-unit-interval", vIn01(ab))
	VsAssert("individual-similarity-symmetric", ab == ba)
	var none *IndividualNode
	VsAssert("individual-similarity-missing-is-neutral", a.Similarity(none, opts) == 0.5)
	VsAssert("individual-similarity-missing-receiver-is-neutral", none.Similarity(a, opts) == 0.5)
	if cs%3 > 0 && cs/9%3 == 1 {
		VsAssert("individual-with-name-and-birth-identical-to-itself", a.Similarity(a, opts) >= 0.75)
	}
	// lists
	la, lb := IndividualNodes{a, b}, IndividualNodes{b}
	s1, s2 := la.Similarity(lb, opts), lb.Similarity(la, opts)
	VsObserve(s1)
	VsAssert("list-similarity-in-unit-interval", vIn01(s1))
	VsAssert("list-similarity-symmetric", s1 == s2)
	VsAssert("list-similarity-one-empty-side-is-neutral", la.Similarity(IndividualNodes{}, opts) == 0.5)
	VsAssert("list-similarity-empty-receiver-is-neutral", (IndividualNodes{}).Similarity(la, opts) == 0.5)
	_ = fmt.Sprint
}

// vC12Family builds a document around the individual @I1@ (given name with one symbolic byte):
// shape bit 0 = has a parents family (father and mother recorded), bit 1 = has a spouse and a child.
func vC12Family(name string, shape int) *IndividualNode {
	s := "0 @I1@ INDI\n1 NAME Ell" + VsBytes(name+".given", 1, 0x68, 0x6a) + "ot /Chance/\n1 BIRT\n2 DATE 4 Jan 1843\n"
	if shape&1 != 0 {
		s += "1 FAMC @F1@\n"
	}
	if shape&2 != 0 {
		s += "1 FAMS @F2@\n"
	}
	if shape&1 != 0 {
		s += "0 @I2@ INDI\n1 NAME John /Chance/\n1 BIRT\n2 DATE 1810\n1 FAMS @F1@\n0 @I3@ INDI\n1 NAME Jane /Doe/\n1 BIRT\n2 DATE 1815\n1 FAMS @F1@\n"
		s += "0 @F1@ FAM\n1 HUSB @I2@\n1 WIFE @I3@\n1 CHIL @I1@\n"
	}
	if shape&2 != 0 {
		s += "0 @I4@ INDI\n1 NAME Sarah /Smith/\n1 BIRT\n2 DATE 1850\n1 FAMS @F2@\n0 @I5@ INDI\n1 NAME Bob /Chance/\n1 BIRT\n2 DATE 1875\n1 FAMC @F2@\n"
		s += "0 @F2@ FAM\n1 HUSB @I1@\n1 WIFE @I4@\n1 CHIL @I5@\n"
	}
	doc, err := NewDocumentFromString(s)
	VsAssume(err == nil)
	return doc.Individuals().ByPointer("I1")
}

// VerifC12_Surrounding: the surrounding similarity (parents, individual, spouses, children and their
// weighted sum) of two individuals whose families are present or missing independently on each side:
// every component in [0, 1], the same in both directions, exactly neutral (0.5) when the parents are
// missing on either side. cs%4 and cs/4%4: family shapes of the two sides; cs/16%2: full calculation forced.
func VerifC12_Surrounding(cs int) {
	a, b := vC12Family("a", cs%4), vC12Family("b", cs/4%4)
	opts := NewSimilarityOptions()
	force := cs/16%2 == 1
	ab, ba := a.SurroundingSimilarity(b, opts, force), b.SurroundingSimilarity(a, opts, force)
	VsObserve(ab.WeightedSimilarity())
	VsReach("surrounding-similarity-computed")
	VsAssert("surrounding-components-in-unit-interval", VsAll(vIn01(ab.ParentsSimilarity), vIn01(ab.IndividualSimilarity), vIn01(ab.SpousesSimilarity), vIn01(ab.ChildrenSimilarity), vIn01(ab.WeightedSimilarity())))
	VsAssert("surrounding-parents-symmetric", ab.ParentsSimilarity == ba.ParentsSimilarity)
	VsAssert("surrounding-individual-symmetric", ab.IndividualSimilarity == ba.IndividualSimilarity)
	VsAssert("surrounding-spouses-symmetric", ab.SpousesSimilarity == ba.SpousesSimilarity)
	VsAssert("surrounding-children-symmetric", ab.ChildrenSimilarity == ba.ChildrenSimilarity)
	VsAssert("surrounding-weighted-symmetric", ab.WeightedSimilarity() == ba.WeightedSimilarity())
	skipped := ab.IndividualSimilarity == 0 && ab.ParentsSimilarity == 0 && ab.SpousesSimilarity == 0 && ab.ChildrenSimilarity == 0
	if (cs%4)&1 == 0 || (cs/4%4)&1 == 0 {
		// parents missing on at least one side: neutral, unless the whole calculation was skipped
		VsAssert("missing-parents-are-neutral", VsOr(skipped, ab.ParentsSimilarity == 0.5))
	}
}

// VerifC12_Lists: two lists of 3..5 siblings without dates (so that many pairs tie on their score),
// given names over a two-letter alphabet with one symbolic byte in three of the names on each side:
// the list similarity is in [0, 1] and the same in both directions, also through the children of two
// families (SurroundingSimilarity). cs%3, cs/3%3: list lengths 3 + cs%3 and 3 + cs/3%3.
func VerifC12_Lists(cs int) {
	na, nb := 3+cs%3, 3+cs/3%3
	given := []string{"Ann", "Anna", "Bob", "Anne", "Bobby"}
	mk := func(side string, n int) IndividualNodes {
		doc := NewDocument()
		var out IndividualNodes
		for i := 0; i < n; i++ {
			name := given[i]
			if i < 3 {
				name = given[i][:2] + VsBytesIn(fmt.Sprintf("%s%d", side, i), 1, "nb") + given[i][3:]
			}
			ind := doc.AddIndividual(fmt.Sprintf("%s%d", side, i))
			ind.AddName(name + " /Smith/")
			out = append(out, ind)
		}
		return out
	}
	la, lb := mk("a", na), mk("b", nb)
	opts := NewSimilarityOptions()
	s1, s2 := la.Similarity(lb, opts), lb.Similarity(la, opts)
	VsObserve(s1)
	VsReach("sibling-lists-compared")
	VsAssert("sibling-list-similarity-in-unit-interval", vIn01(s1))
	VsAssert("sibling-list-similarity-symmetric", s1 == s2)
	VsAssert("sibling-list-identical-to-itself", la.Similarity(la, opts) >= 0.75)
}

// VerifC12_Ties: two lists of four siblings with missing dates, so that many of the 16 pairs have
// exactly the same score and the order in which equal pairs are taken decides the matching. The left
// list is fixed (two templates by cs%2); each right-hand sibling is one of 3 names x {no birth, 1900,
// 1901} by choice, deaths as in the template. Range and symmetry of the list similarity.
func VerifC12_Ties(cs int) {
	type person struct{ name, birth, death string }
	left := []person{{"Jon", "1900", "1970"}, {"John", "", "1970"}, {"Jon", "1901", "1970"}, {"Mary", "1901", ""}}
	rightDeath := []string{"", "1970", "1970", "1970"}
	if cs%2 == 1 {
		left = []person{{"John", "", ""}, {"John", "1900", ""}, {"Mary", "", "1970"}, {"Jon", "", "1970"}}
		rightDeath = []string{"", "", "1970", ""}
	}
	names, births := []string{"Jon", "John", "Mary"}, []string{"", "1900", "1901"}
	add := func(doc *Document, ptr string, p person) *IndividualNode {
		ind := doc.AddIndividual(ptr)
		ind.AddName(p.name + " /Smith/")
		if p.birth != "" {
			ind.AddBirthDate(p.birth)
		}
		if p.death != "" {
			ind.AddDeathDate(p.death)
		}
		return ind
	}
	ld, rd := NewDocument(), NewDocument()
	var la, lb IndividualNodes
	for i, p := range left {
		la = append(la, add(ld, fmt.Sprintf("L%d", i), p))
	}
	for i := 0; i < 4; i++ {
		p := person{names[VsChoose(fmt.Sprintf("name%d", i), 3)], births[VsChoose(fmt.Sprintf("birth%d", i), 3)], rightDeath[i]}
		lb = append(lb, add(rd, fmt.Sprintf("R%d", i), p))
	}
	opts := NewSimilarityOptions()
	s1, s2 := la.Similarity(lb, opts), lb.Similarity(la, opts)
	VsObserve(s1)
	VsReach("tied-lists-compared")
	VsAssert("tied-list-similarity-in-unit-interval", vIn01(s1))
	VsAssert("tied-list-similarity-symmetric", s1 == s2)
}
