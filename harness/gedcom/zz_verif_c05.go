package gedcom

import (
	. "github.com/elliotchance/gedcom/v39/internal/vsym"
)

const vNsPerDay = 86400 * 1000000000

// VerifC05_Bounds: Time() of the start and the end of a date of granularity cs (0 day, 1 month, 2 year)
// against the harness's own calendar arithmetic.
func VerifC05_Bounds(cs int) {
	dt := VNewDate("a", cs%3)
	start, end := dt.Date(), dt.Date()
	end.IsEndOfRange = true
	first, last := dt.First(), dt.Last()
	// 1 Jan 0001 00:00 UTC is Go's zero time, which Date.Time() uses as "could not parse".
	if first == 0 {
		VsClass("period-starts-1-Jan-0001")
	}
	ts, te := start.Time(), end.Time()
	VsObserve(VsDayNumber(ts))
	VsObserve(VsNsOfDay(ts))
	VsObserve(VsDayNumber(te))
	VsObserve(VsNsOfDay(te))
	VsReach("bounds")
	VsAssert("start-is-first-day", VsDayNumber(ts) == first)
	VsAssert("start-is-midnight", VsNsOfDay(ts) == 0)
	VsAssert("end-is-last-day", VsDayNumber(te) == last)
	VsAssert("end-is-last-nanosecond", VsNsOfDay(te) == vNsPerDay-1)
	VsAssert("start-not-after-end", !te.Before(ts))

	// the period has the calendar's true length
	dur := NewDateRange(start, end).Duration()
	VsObserve(int64(dur.Duration))
	VsAssert("duration-is-calendar-length", int64(dur.Duration) == int64(last-first+1)*vNsPerDay-1)
	VsAssert("duration-known", dur.IsKnown)
}

// vSucc returns the calendar successor of the full date (y, m, d), fork-free.
func vSucc(y, m, d int) (int, int, int) {
	lastOfMonth := d == VDaysIn(m, y)
	dec := m == 12
	ny := VsIteInt(VsAnd(lastOfMonth, dec), y+1, y)
	nm := VsIteInt(lastOfMonth, VsIteInt(dec, 1, m+1), m)
	nd := VsIteInt(lastOfMonth, 1, d+1)
	return ny, nm, nd
}

// VerifC05_Years: the fractional-year scale. cs 0: successor monotonicity and containment in the
// year for full dates; cs 1,2: partial dates lie between their first and last day.
func VerifC05_Years(cs int) {
	switch cs {
	case 0:
		dt := VNewDate("a", 0)
		VsAssume(VsNot(VsAll(dt.Y == 9999, dt.M == 12, dt.D == 31)))
		ny, nm, nd := vSucc(dt.Y, dt.M, dt.D)
		a := dt.Date()
		b := VDate{Gran: 0, Y: ny, M: nm, D: nd}.Date()
		ya, yb := a.Years(), b.Years()
		VsObserve(ya)
		VsObserve(yb)
		VsReach("years-successor")
		VsAssert("years-strictly-increasing-day-to-day", ya < yb)
		VsAssert("years-inside-its-year-lower", float64(dt.Y) <= ya)
		VsAssert("years-inside-its-year-upper", ya < float64(dt.Y+1))
		VsAssert("isbefore-successor", a.IsBefore(b))
		VsAssert("isafter-successor", b.IsAfter(a))
		VsAssert("not-isbefore-self", !a.IsBefore(a))
	default:
		dt := VNewDate("a", cs)
		p := dt.Date()
		var first, last Date
		if cs == 1 {
			first = Date{Day: 1, Month: p.Month, Year: p.Year}
			last = Date{Day: VDaysIn(dt.M, dt.Y), Month: p.Month, Year: p.Year}
		} else {
			first = Date{Day: 1, Month: 1, Year: p.Year}
			last = Date{Day: 31, Month: 12, Year: p.Year}
		}
		yp, yf, yl := p.Years(), first.Years(), last.Years()
		VsObserve(yp)
		VsObserve(yf)
		VsObserve(yl)
		VsReach("years-partial")
		VsAssert("partial-not-before-first-day", yf <= yp)
		VsAssert("partial-not-after-last-day", yp <= yl)
		VsAssert("partial-inside-its-year-lower", float64(dt.Y) <= yp)
		VsAssert("partial-inside-its-year-upper", yp < float64(dt.Y+1))
	}
}

// VerifC05_Order: before/after between two independent full dates agrees with calendar order.
// cs selects the order of the two years (0: ya < yb, 1: equal, 2: ya > yb) - a case split that
// keeps each solver query about one year-order.
func VerifC05_Order(cs int) {
	da, db := VNewDate("a", 0), VNewDate("b", 0)
	switch cs {
	case 0:
		VsAssume(da.Y < db.Y)
	case 1:
		VsAssume(da.Y == db.Y)
	default:
		VsAssume(da.Y > db.Y)
	}
	a, b := da.Date(), db.Date()
	na, nb := da.First(), db.First()
	before, after := a.IsBefore(b), a.IsAfter(b)
	VsObserve(before)
	VsObserve(after)
	VsReach("order")
	VsAssert("isbefore-iff-earlier-day", VsIff(before, na < nb))
	VsAssert("isafter-iff-later-day", VsIff(after, na > nb))
	ra, rb := NewDateRange(a, a), NewDateRange(b, b)
	VsAssert("range-isbefore-iff-earlier", VsIff(ra.IsBefore(rb), na < nb))
	VsAssert("range-isafter-iff-later", VsIff(ra.IsAfter(rb), na > nb))
}
