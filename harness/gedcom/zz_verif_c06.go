package gedcom

import (
	. "github.com/elliotchance/gedcom/v39/internal/vsym"
)

// vRelAllowed says whether relation r is a documented outcome for the receiver
// day interval [a,b] compared with the argument day interval [c,d]
// (DESIGN.md §3 C06 table; orientation as in date_range_test.go).
func vRelAllowed(r DateRangeComparison, a, b, c, d int) bool {
	is := func(k DateRangeComparison) bool { return r == k }
	return VsAny(
		VsAnd(is(DateRangeComparisonEqual), VsAnd(a == c, b == d)),
		VsAnd(is(DateRangeComparisonInside), VsAnd(c < a, b < d)),
		VsAnd(is(DateRangeComparisonInsideStart), VsAnd(a == c, b < d)),
		VsAnd(is(DateRangeComparisonInsideEnd), VsAnd(c < a, b == d)),
		VsAnd(is(DateRangeComparisonOutside), VsAnd(a < c, d < b)),
		VsAnd(is(DateRangeComparisonOutsideStart), VsAnd(a == c, d < b)),
		VsAnd(is(DateRangeComparisonOutsideEnd), VsAnd(a < c, b == d)),
		VsAnd(is(DateRangeComparisonPartiallyBefore), VsAll(a < c, c < b, b < d)),
		VsAnd(is(DateRangeComparisonPartiallyAfter), VsAll(c < a, a < d, d < b)),
		VsAnd(is(DateRangeComparisonBefore), VsAnd(a < c, b == c)),
		VsAnd(is(DateRangeComparisonAfter), VsAnd(a == d, d < b)),
		VsAnd(is(DateRangeComparisonEntirelyBefore), b < c),
		VsAnd(is(DateRangeComparisonEntirelyAfter), d < a),
	)
}

var vConverse = map[DateRangeComparison]DateRangeComparison{
	DateRangeComparisonEqual:           DateRangeComparisonEqual,
	DateRangeComparisonInside:          DateRangeComparisonOutside,
	DateRangeComparisonInsideStart:     DateRangeComparisonOutsideStart,
	DateRangeComparisonInsideEnd:       DateRangeComparisonOutsideEnd,
	DateRangeComparisonOutside:         DateRangeComparisonInside,
	DateRangeComparisonOutsideStart:    DateRangeComparisonInsideStart,
	DateRangeComparisonOutsideEnd:      DateRangeComparisonInsideEnd,
	DateRangeComparisonPartiallyBefore: DateRangeComparisonPartiallyAfter,
	DateRangeComparisonPartiallyAfter:  DateRangeComparisonPartiallyBefore,
	DateRangeComparisonBefore:          DateRangeComparisonAfter,
	DateRangeComparisonAfter:           DateRangeComparisonBefore,
	DateRangeComparisonEntirelyBefore:  DateRangeComparisonEntirelyAfter,
	DateRangeComparisonEntirelyAfter:   DateRangeComparisonEntirelyBefore,
}

func vB2I(b bool) int {
	if b {
		return 1
	}
	return 0
}

// VerifC06_Compare: cs in [0,81) selects the granularity (day/month/year) of the four dates.
func VerifC06_Compare(cs int) {
	ga, gb, gc, gd := cs%3, cs/3%3, cs/9%3, cs/27%3
	da, db := VNewDate("a", ga), VNewDate("b", gb)
	dc, dd := VNewDate("c", gc), VNewDate("d", gd)
	x := NewDateRange(da.Date(), db.Date())
	y := NewDateRange(dc.Date(), dd.Date())
	// Day intervals [a,b] and [c,d]: the days of the bounds the code itself
	// derives (their agreement with the calendar is C05's obligation).
	a, b := VsDayNumber(x.StartDate().Time()), VsDayNumber(x.EndDate().Time())
	c, d := VsDayNumber(y.StartDate().Time()), VsDayNumber(y.EndDate().Time())
	// both ranges run forwards
	VsAssume(a <= b)
	VsAssume(c <= d)

	got := x.Compare(y)
	VsObserve(int(got))
	VsReach("compared")
	single := VsOr(a == b, c == d)
	if single {
		VsClass("single-day-operand")
	}
	// 1 Jan 0001 is Go's zero time, which Date.Time() also uses as its
	// "could not parse" value (see C05): keep that corner in its own class.
	if VsAny(a == 0, b == 0, c == 0, d == 0) {
		VsClass("touches-1-Jan-0001")
	}
	VsAssert("never-invalid", got != DateRangeComparisonInvalid)
	VsAssert("documented-relation", vRelAllowed(got, a, b, c, d))

	// exactly one of the simplified verdicts
	n := vB2I(got.IsEqual()) + vB2I(got.IsPartiallyEqual()) + vB2I(got.IsNotEqual())
	VsAssert("one-simplified-verdict", n == 1)

	// converse
	rev := y.Compare(x)
	VsObserve(int(rev))
	VsAssert("converse-never-invalid", rev != DateRangeComparisonInvalid)
	VsAssert("converse-documented-relation", vRelAllowed(rev, c, d, a, b))
	if got != DateRangeComparisonInvalid {
		VsAssert("converse", rev == vConverse[got])
	}
}

// VerifC06_Self: a range compared with itself is Equal. cs in [0,9).
func VerifC06_Self(cs int) {
	ga, gb := cs%3, cs/3%3
	da, db := VNewDate("a", ga), VNewDate("b", gb)
	x := NewDateRange(da.Date(), db.Date())
	a, b := VsDayNumber(x.StartDate().Time()), VsDayNumber(x.EndDate().Time())
	VsAssume(a <= b)
	got := x.Compare(x)
	VsObserve(int(got))
	VsReach("self-compared")
	if a == b {
		VsClass("single-day")
	}
	if VsOr(a == 0, b == 0) {
		VsClass("touches-1-Jan-0001")
	}
	VsAssert("self-equal", got == DateRangeComparisonEqual)
	VsAssert("self-isequal", got.IsEqual())
}

// VerifC06_Mixed: ranges whose two ends have different granularity (a year and a month of it, a month
// and a day of it, a day and its month) compared with a day range and with themselves: never invalid,
// the documented relation of the day intervals, exactly one simplified verdict, the converse. Years and
// months are fixed and only the days are symbolic, so that comparisons of fractional years stay cheap.
// cs%4: the shape of the first range.
func VerifC06_Mixed(cs int) {
	d1, d2, d3 := VsInt("d1", 1, 28), VsInt("d2", 1, 28), VsInt("d3", 1, 28)
	var x DateRange
	var a, b int
	switch cs % 4 {
	case 0: // Bet. 1943 and Mar 1943
		x = NewDateRange(Date{Year: 1943}, Date{Month: 3, Year: 1943})
		a, b = VDayNo(1943, 1, 1), VDayNo(1943, 3, 31)
	case 1: // Bet. d1 Sep 1943 and Sep 1943
		x = NewDateRange(Date{Day: d1, Month: 9, Year: 1943}, Date{Month: 9, Year: 1943})
		a, b = VDayNo(1943, 9, d1), VDayNo(1943, 9, 30)
	case 2: // Bet. Sep 1943 and d1 Sep 1943
		x = NewDateRange(Date{Month: 9, Year: 1943}, Date{Day: d1, Month: 9, Year: 1943})
		a, b = VDayNo(1943, 9, 1), VDayNo(1943, 9, d1)
	default: // Bet. 1943 and d1 Feb 1943
		x = NewDateRange(Date{Year: 1943}, Date{Day: d1, Month: 2, Year: 1943})
		a, b = VDayNo(1943, 1, 1), VDayNo(1943, 2, d1)
	}
	y := NewDateRange(Date{Day: d2, Month: 3, Year: 1943}, Date{Day: d3, Month: 9, Year: 1943})
	c, d := VDayNo(1943, 3, d2), VDayNo(1943, 9, d3)
	got, rev, self := x.Compare(y), y.Compare(x), x.Compare(x)
	VsObserve(int(got))
	VsReach("mixed-granularity-compared")
	VsAssert("mixed-range-never-invalid", VsAll(got != DateRangeComparisonInvalid, rev != DateRangeComparisonInvalid, self != DateRangeComparisonInvalid))
	VsAssert("mixed-range-equal-to-itself", self == DateRangeComparisonEqual)
	VsAssert("mixed-range-documented-relation", vRelAllowed(got, a, b, c, d))
	VsAssert("mixed-range-converse-documented-relation", vRelAllowed(rev, c, d, a, b))
	n := vB2I(got.IsEqual()) + vB2I(got.IsPartiallyEqual()) + vB2I(got.IsNotEqual())
	VsAssert("mixed-range-one-simplified-verdict", n == 1)
}
