package gedcom

import (
	"fmt"

	. "github.com/elliotchance/gedcom/v39/internal/vsym"
)

// vTry runs one traversal; a panic that reaches the caller is a crash of the command that makes it.
func vTry(what string, f func()) {
	crashed := false
	func() {
		defer func() {
			if r := recover(); r != nil {
				crashed = true
			}
		}()
		f()
	}()
	if crashed {
		VsClassSet(what)
	}
	VsAssert("traversal-does-not-panic", !crashed)
}

// vC14File assembles a decodable file in which one reference value (selected by which) is symbolic:
// 0..4 bytes over {@ I F 1 2 x}, so dangling, wrong-kind, empty, malformed and well-formed references are
// all assignments of the same run. Names and dates vary by choice.
func vC14File(which int) string {
	ref := func(i int, good string) string {
		if i != which {
			return " " + good
		}
		n := VsChoose("reflen", 5)
		if n == 0 {
			return ""
		}
		return " " + VsBytesIn("ref", n, "@IF12x")
	}
	name := []string{"John /Smith/", "", "John", "/Smith/", "1ohn /9mith/", "/\xc3\x89mith/ x", "  "}[VsChoose("name", 7)]
	date := []string{"3 Sep 1843", "1843", "Abt. 1843", "31 Feb 1843", "(phrase)", "garbage", ""}[VsChoose("date", 7)]
	s := "0 HEAD\n0 @I1@ INDI\n"
	if name != "" {
		s += "1 NAME " + name + "\n"
	}
	s += "1 SEX M\n1 BIRT\n"
	if date != "" {
		s += "2 DATE " + date + "\n"
	}
	s += "1 FAMS" + ref(0, "@F1@") + "\n1 FAMC" + ref(1, "@F2@") + "\n"
	s += "0 @I2@ INDI\n1 NAME Jane /Doe/\n1 SEX F\n1 FAMS @F1@\n"
	s += "0 @I3@ INDI\n1 NAME Bob /Smith/\n1 BIRT\n2 DATE 1875\n1 FAMC @F1@\n"
	s += "0 @F1@ FAM\n1 HUSB" + ref(2, "@I1@") + "\n1 WIFE" + ref(3, "@I2@") + "\n1 CHIL" + ref(4, "@I3@") + "\n1 MARR\n2 DATE 1870\n"
	s += "0 @F2@ FAM\n1 CHIL @I1@\n"
	s += "0 @S1@ SOUR\n1 TITL A source\n0 TRLR\n"
	return s
}

func vSweepIndividual(ind *IndividualNode) {
	id := "IndividualNode."
	vTry(id+"Name", func() { _ = ind.Name().String() })
	vTry(id+"Names", func() {
		for _, n := range ind.Names() {
			_, _, _, _ = n.GivenName(), n.Surname(), n.String(), n.GedcomName()
			_, _, _, _ = n.Prefix(), n.Suffix(), n.SurnamePrefix(), n.Title()
			_ = n.Type()
		}
	})
	vTry(id+"Sex", func() { _ = ind.Sex().String() })
	vTry(id+"Families", func() { _ = ind.Families() })
	vTry(id+"Spouses", func() { _ = ind.Spouses() })
	vTry(id+"Parents", func() { _ = ind.Parents() })
	vTry(id+"Children", func() { _ = ind.Children() })
	vTry(id+"SpouseChildren", func() { _ = ind.SpouseChildren() })
	vTry(id+"IsLiving", func() { _ = ind.IsLiving() })
	vTry(id+"Births", func() { _, _, _, _ = ind.Births(), ind.Baptisms(), ind.Deaths(), ind.Burials() })
	vTry(id+"EstimatedBirthDate", func() { d, _ := ind.EstimatedBirthDate(); _ = d.String() })
	vTry(id+"EstimatedDeathDate", func() { d, _ := ind.EstimatedDeathDate(); _ = d.String() })
	vTry(id+"Birth", func() { d, p := ind.Birth(); _, _ = d.String(), String(p) })
	vTry(id+"Death", func() { d, p := ind.Death(); _, _ = d.String(), String(p) })
	vTry(id+"Age", func() { a, b := ind.Age(); _, _ = a.String(), b.String() })
	vTry(id+"AllEvents", func() { _ = ind.AllEvents() })
	vTry(id+"String", func() { _ = ind.String() })
	vTry(id+"UniqueIdentifiers", func() { _, _, _ = ind.UniqueIDs(), ind.FamilySearchIDs(), ind.UniqueIdentifiers() })
	vTry(id+"Warnings", func() {
		for _, w := range ind.Warnings() {
			_ = w.String()
		}
	})
}

func vSweepFamily(fam *FamilyNode) {
	id := "FamilyNode."
	vTry(id+"Husband", func() { h := fam.Husband(); _, _ = h.Individual(), h.String() })
	vTry(id+"Wife", func() { w := fam.Wife(); _, _ = w.Individual(), w.String() })
	vTry(id+"Children", func() {
		for _, c := range fam.Children() {
			_, _, _, _ = c.Individual(), c.String(), c.Father(), c.Mother()
		}
	})
	vTry(id+"Children.Individuals", func() { _ = fam.Children().Individuals() })
	vTry(id+"String", func() { _ = fam.String() })
	vTry(id+"Warnings", func() {
		for _, w := range fam.Warnings() {
			_ = w.String()
		}
	})
}

// VerifC14_Library: the library traversals behind the commands on a decodable file with one hostile
// reference. cs selects which reference is symbolic (0..4); 5: all well-formed.
func VerifC14_Library(cs int) {
	text := vC14File(cs % 6)
	doc, err := NewDocumentFromString(text)
	VsObserve(text)
	VsReach("file-built")
	if err != nil {
		return
	}
	before := doc.String()
	// gedcom warnings
	vTry("Document.Warnings", func() {
		for _, w := range doc.Warnings() {
			_, _ = w.String(), w.Name()
		}
	})
	for _, ind := range doc.Individuals() {
		vSweepIndividual(ind)
	}
	for _, fam := range doc.Families() {
		vSweepFamily(fam)
	}
	for _, src := range doc.Sources() {
		vTry("SourceNode.Title", func() { _ = src.Title() })
	}
	vTry("Document.Places", func() {
		for p := range doc.Places() {
			_, _, _ = p.Name(), p.Country(), p.JurisdictionalName()
		}
	})
	// gedcom diff: similarity of every pair (the comparison pipeline itself runs in goroutines whose
	// panics nobody can recover; it is exercised in VerifC14_Compare)
	vTry("IndividualNode.SurroundingSimilarity", func() {
		inds := doc.Individuals()
		for _, a := range inds {
			for _, b := range inds {
				_ = a.SurroundingSimilarity(b, NewSimilarityOptions(), true).WeightedSimilarity()
			}
		}
	})
	vTry("CompareNodes", func() {
		inds := doc.Individuals()
		if len(inds) >= 2 {
			d := CompareNodes(inds[0], inds[1])
			d.Sort()
			_ = d.String()
		}
	})
	VsAssert("traversals-leave-the-document-untouched", doc.String() == before)
	_ = fmt.Sprint
}

// VerifC14_Compare: the goroutine pipeline behind 'gedcom diff' on the same files. A panic on a worker
// goroutine kills the process.
func VerifC14_Compare(cs int) {
	text := vC14File(cs % 6)
	doc, err := NewDocumentFromString(text)
	VsObserve(text)
	VsReach("compare-file-built")
	if err != nil {
		return
	}
	inds := doc.Individuals()
	opts := NewIndividualNodesCompareOptions()
	n := 0
	for range inds.Compare(inds, opts) {
		n++
	}
	VsObserve(n)
	VsAssert("compare-accounts-for-everyone", n >= len(inds))
}
