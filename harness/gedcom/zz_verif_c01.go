package gedcom

import (
	"fmt"

	. "github.com/elliotchance/gedcom/v39/internal/vsym"
)

// vLevelSeqs lists every forest shape with 1..max nodes as a level sequence
// (first level 0, each next level at most one deeper than the previous).
func vLevelSeqs(max int) [][]int {
	var out [][]int
	var rec func(cur []int)
	rec = func(cur []int) {
		if len(cur) > 0 {
			out = append(out, append([]int(nil), cur...))
		}
		if len(cur) == max {
			return
		}
		top := 0
		if len(cur) > 0 {
			top = cur[len(cur)-1] + 1
		}
		for lv := 0; lv <= top; lv++ {
			if len(cur) == 0 && lv > 0 {
				break
			}
			rec(append(cur, lv))
		}
	}
	rec(nil)
	return out
}

// vLegalValue draws a GEDCOM-legal value: printable ASCII, no surrounding whitespace, length by choice.
func vLegalValue(name string, lens []int) string {
	n := lens[VsChoose(name+".len", len(lens))]
	switch n {
	case 0:
		return ""
	case 1:
		return VsBytes(name, 1, 0x21, 0x7e)
	}
	return VsBytes(name, 1, 0x21, 0x7e) + VsBytes(name, n-2, 0x20, 0x7e) + VsBytes(name, 1, 0x21, 0x7e)
}

// vLegalPointer draws a pointer without '@' (and without spaces).
func vLegalPointer(name string, lens []int) string {
	n := lens[VsChoose(name+".len", len(lens))]
	return VsBytes(name, n, 0x41, 0x7e)
}

var vRootTags = []string{"INDI", "FAM", "NOTE", "ZZ", "7", "HEAD", "SOUR", "_X1"}
var vChildTags = []string{"NAME", "DATE", "_UID", "1A", "HUSB", "BIRT", "NOTE", "ZZ"}

func vRoundtrip(doc *Document, what string) {
	text := doc.String()
	VsObserve(text)
	back, err := NewDocumentFromString(text)
	VsReach(what + "-encoded")
	VsAssert(what+"-encoder-output-is-accepted", err == nil)
	if err != nil {
		return
	}
	VsAssert(what+"-same-nodes-after-roundtrip", vSameDocument(doc, back))
	VsAssert(what+"-same-bom-flag", doc.HasBOM == back.HasBOM)
	VsAssert(what+"-same-text-when-encoded-again", VsStrEq(back.String(), text))
}

// VerifC01_Forest: every forest shape with up to 3 nodes; tags by choice from a reduced alphabet,
// values, pointers and the BOM flag symbolic. Built through the public API only.
func VerifC01_Forest(cs int) {
	seqs := vLevelSeqs(3)
	seq := seqs[cs%len(seqs)]
	// cases 0..7: reduced alphabets (5 tags, value length 0/2, pointer length 0/1);
	// cases 8..15: full alphabets (8 tags, value length 0/1/3, pointer length 0/2)
	ntags, vlens, plens := 5, []int{0, 2}, []int{0, 1}
	if cs >= len(seqs) {
		ntags, vlens, plens = 8, []int{0, 1, 3}, []int{0, 2}
	}
	doc := NewDocument()
	doc.HasBOM = VsBool("bom")
	var open []Node
	for i, lv := range seq {
		name := fmt.Sprintf("n%d", i)
		var node Node
		if lv == 0 {
			tag := vRootTags[VsChoose(name+".tag", ntags)]
			ptr := vLegalPointer(name+".p", plens)
			switch tag {
			case "INDI":
				node = doc.AddIndividual(ptr)
			case "FAM":
				node = doc.AddFamily(ptr)
			default:
				node = NewNode(TagFromString(tag), vLegalValue(name+".v", vlens), ptr)
				doc.AddNode(node)
			}
		} else {
			parent := open[lv-1]
			tag := vChildTags[VsChoose(name+".tag", ntags)]
			if tag == "HUSB" {
				fam, isFam := parent.(*FamilyNode)
				if !isFam {
					VsAssume(false) // not constructible through the public API
				}
				fam.SetHusbandPointer(vLegalPointer(name+".hp", []int{2}))
				node = fam.Nodes()[len(fam.Nodes())-1]
			} else {
				node = NewNode(TagFromString(tag), vLegalValue(name+".v", vlens), vLegalPointer(name+".p", plens))
				parent.AddNode(node)
			}
		}
		open = append(open[:lv], node)
	}
	// the document holds what was put into it (records that share a pointer or are equal included)
	roots := 0
	for _, lv := range seq {
		if lv == 0 {
			roots++
		}
	}
	VsAssert("forest-document-holds-every-added-record", len(doc.Nodes()) == roots)
	vRoundtrip(doc, "forest")
}

// VerifC01_Depth: one chain of nested nodes of depth cs+8 (levels 0..cs+8), i.e. levels 8..13 (thorough: ..99).
func VerifC01_Depth(cs int) {
	depth := cs + 8
	if cs >= 6 {
		depth = 99
	}
	doc := NewDocument()
	root := NewNode(TagFromString("HEAD"), "", "")
	doc.AddNode(root)
	cur := root
	for lv := 1; lv <= depth; lv++ {
		n := NewNode(TagFromString("ZZ"), "", "")
		if lv == depth {
			n = NewNode(TagFromString("NOTE"), vLegalValue("v", []int{2}), "")
		}
		cur.AddNode(n)
		cur = n
	}
	if depth >= 10 {
		VsClass("level>=10")
	}
	vRoundtrip(doc, "depth")
}

// VerifC01_AllTags: every registered tag (incl. all tags with a specialised node type) once as a
// root record and once as a child, with symbolic value and pointer.
func VerifC01_AllTags(cs int) {
	tags := Tags()
	tag := tags[cs%len(tags)]
	asChild := cs/len(tags)%2 == 1
	doc := NewDocument()
	value := vLegalValue("v", []int{0, 2})
	ptr := vLegalPointer("p", []int{0, 2})
	switch {
	case tag.Is(TagIndividual):
		if asChild {
			VsReach("alltags-not-constructible")
			return
		}
		doc.AddIndividual(ptr)
	case tag.Is(TagFamily):
		if asChild {
			VsReach("alltags-not-constructible")
			return
		}
		doc.AddFamily(ptr)
	case tag.Is(TagHusband), tag.Is(TagWife), tag.Is(TagChild):
		fam := doc.AddFamily("F1")
		ind := doc.AddIndividual(vLegalPointer("ip", []int{2}))
		switch {
		case tag.Is(TagHusband):
			fam.SetHusband(ind)
		case tag.Is(TagWife):
			fam.SetWife(ind)
		default:
			fam.AddChild(ind)
		}
	default:
		node := NewNode(tag, value, ptr)
		if asChild {
			parent := NewNode(TagFromString("HEAD"), "", "")
			parent.AddNode(node)
			doc.AddNode(parent)
		} else {
			doc.AddNode(node)
		}
	}
	vRoundtrip(doc, "alltags")
}

// VerifC01_FamilyRoles: husband / wife / child nodes inside families and inside records that come
// after a family (the nodes are taken from a family and added elsewhere through AddNode, which the
// public API allows). cs%4: 0 roles only in the family, 1 role nodes in a later record, 2 nested one
// level deeper in a later record, 3 two families with a record carrying role nodes between them.
// cs/4%4: tag of the later record (NOTE, _GRP, INDI, SOUR).
func VerifC01_FamilyRoles(cs int) {
	doc := NewDocument()
	doc.HasBOM = VsBool("bom")
	doc.AddIndividual("I1")
	fam := doc.AddFamily("F" + vLegalPointer("fp", []int{1}))
	fam.SetHusbandPointer("I" + vLegalPointer("hp", []int{1}))
	fam.SetWifePointer("I2")
	fam.AddNode(NewNode(TagNote, vLegalValue("fv", []int{2}), ""))
	donor := doc.AddFamily("F9")
	donor.SetHusbandPointer("I7")
	donor.SetWifePointer("I8")
	recTag := []string{"NOTE", "_GRP", "INDI", "SOUR"}[cs/4%4]
	var rec Node
	if recTag == "INDI" {
		rec = doc.AddIndividual("R1")
	} else {
		rec = NewNode(TagFromString(recTag), vLegalValue("rv", []int{0, 2}), "R1")
		doc.AddNode(rec)
	}
	switch cs % 4 {
	case 1:
		rec.AddNode(donor.Husband())
		rec.AddNode(NewNode(TagNote, "between", ""))
		rec.AddNode(donor.Wife())
	case 2:
		inner := NewNode(TagFromString("_IN"), "x", "")
		rec.AddNode(inner)
		inner.AddNode(donor.Husband())
	case 3:
		rec.AddNode(donor.Wife())
		last := doc.AddFamily("F3")
		last.SetHusbandPointer("I1")
		doc.AddNode(NewNode(TagFromString("_END"), "", ""))
	}
	vRoundtrip(doc, "family-roles")
}

// VerifC01_NestedFamily: a family record that is not a root record (a FAM node below another node, at
// depth 1 or 3) with husband, wife and child lines inside it; with no root family before it (cs%2 == 0)
// or after one (1); cs/2%2: depth 1 or 3.
func VerifC01_NestedFamily(cs int) {
	doc := NewDocument()
	doc.HasBOM = VsBool("bom")
	doc.AddNode(NewNode(TagFromString("HEAD"), "", ""))
	if cs%2 == 1 {
		first := doc.AddFamily("F1")
		first.SetHusbandPointer("I1")
	}
	donorDoc := NewDocument()
	fam := donorDoc.AddFamily("F" + vLegalPointer("fp", []int{1}))
	fam.SetHusbandPointer("I" + vLegalPointer("hp", []int{1}))
	fam.SetWifePointer("I2")
	fam.AddChild(donorDoc.AddIndividual("I3"))
	fam.AddNode(NewNode(TagNote, vLegalValue("fv", []int{2}), ""))
	rec := NewNode(TagFromString("_GRP"), vLegalValue("rv", []int{0, 2}), "G1")
	doc.AddNode(rec)
	parent := rec
	if cs/2%2 == 1 {
		a := NewNode(TagFromString("_A"), "", "")
		b := NewNode(TagFromString("_B"), "x", "")
		rec.AddNode(a)
		a.AddNode(b)
		parent = b
	}
	parent.AddNode(fam)
	doc.AddNode(NewNode(TagFromString("TRLR"), "", ""))
	vRoundtrip(doc, "nested-family")
}
