package gedcom

import (
	"sort"
	"strings"

	. "github.com/elliotchance/gedcom/v39/internal/vsym"
)

type vC11Person struct {
	ptr, name, birth, uid string
}

func vC11Doc(people []vC11Person, family bool) *Document {
	s := "0 HEAD\n"
	for i, p := range people {
		s += "0 @" + p.ptr + "@ INDI\n1 NAME " + p.name + "\n"
		if p.birth != "" {
			s += "1 BIRT\n2 DATE " + p.birth + "\n"
		}
		if p.uid != "" {
			s += "1 _UID " + p.uid + "\n"
		}
		if family && i < 2 {
			s += "1 FAMS @F1@\n"
		} else if family {
			s += "1 FAMC @F1@\n"
		}
	}
	if family && len(people) >= 2 {
		s += "0 @F1@ FAM\n1 HUSB @" + people[0].ptr + "@\n1 WIFE @" + people[1].ptr + "@\n"
		for _, p := range people[2:] {
			s += "1 CHIL @" + p.ptr + "@\n"
		}
	}
	s += "0 TRLR\n"
	d, err := NewDocumentFromString(s)
	VsAssume(err == nil)
	return d
}

const (
	vUIDa = "EE13561DDB204985BFFDEEBF82A5226C5B2E"
	vUIDb = "1B2E3C4D5F6A7B8C9D0E1F2A3B4C5D6E7F80"
)

// vC11Inputs: the two lists by scenario.
//
//	0 a family and its renumbered, slightly edited copy     1 the same with shared pointers
//	2 two left people share one unique id with one right    3 identical twins on both sides
//	4 empty left   5 empty right   6 shared unique ids but different names, shared pointers for others
//	7 one byte of a right name symbolic (ties and near-ties)
func vC11Inputs(scenario int) (left, right []vC11Person, family bool) {
	base := []vC11Person{
		{ptr: "I1", name: "John /Smith/", birth: "3 Sep 1843"},
		{ptr: "I2", name: "Jane /Doe/", birth: "7 Mar 1850"},
		{ptr: "I3", name: "Bob /Smith/", birth: "12 Dec 1875"},
	}
	cp := func(ps []vC11Person) []vC11Person { return append([]vC11Person(nil), ps...) }
	switch scenario {
	case 0:
		r := cp(base)
		r[0].ptr, r[1].ptr, r[2].ptr = "P7", "P8", "P9"
		r[2].birth = "Dec 1875"
		return base, append(r, vC11Person{ptr: "P10", name: "Mary /Smith/", birth: "1880"}), true
	case 1:
		r := cp(base)
		r[1].name = "Jane /Do/"
		return base, r, true
	case 2:
		l := cp(base)
		l[0].uid, l[2].uid = vUIDa, vUIDa
		l[2].name = "John /Smith/"
		return l, []vC11Person{{ptr: "P7", name: "John /Smith/", birth: "1843", uid: vUIDa}, {ptr: "P8", name: "Jane /Doe/", birth: "1850"}}, false
	case 3:
		twin := func(p string) vC11Person { return vC11Person{ptr: p, name: "Tom /Twin/", birth: "1 Jan 1900"} }
		return []vC11Person{twin("I1"), twin("I2")}, []vC11Person{twin("P1"), twin("P2")}, false
	case 4:
		return nil, base, false
	case 5:
		return base, nil, false
	case 6:
		l, r := cp(base), cp(base)
		l[0].uid, r[1].uid = vUIDb, vUIDb // John (left) shares an id with Jane (right)
		return l, r, false
	default:
		r := cp(base)
		r[0].ptr, r[1].ptr, r[2].ptr = "P7", "P8", "P9"
		r[0].name = "Jo" + VsBytesIn("letter", 1, "hbn") + "n /Smith/"
		return base, r, false
	}
}

type vC11Pair struct{ l, r string }

func vC11Run(left, right []vC11Person, family bool, jobs int, minWS, preferAbove float64) ([]vC11Pair, IndividualComparisons) {
	ld, rd := vC11Doc(left, family), vC11Doc(right, family)
	o := NewIndividualNodesCompareOptions()
	o.Jobs = jobs
	o.SimilarityOptions.MinimumWeightedSimilarity = minWS
	o.SimilarityOptions.PreferPointerAbove = preferAbove
	cmp := ld.Individuals().Compare(rd.Individuals(), o)
	var out []vC11Pair
	for _, c := range cmp {
		out = append(out, vC11Pair{Pointer(c.Left), Pointer(c.Right)})
	}
	sort.Slice(out, func(i, j int) bool {
		if out[i].l != out[j].l {
			return out[i].l < out[j].l
		}
		return out[i].r < out[j].r
	})
	return out, cmp
}

func vC11Text(ps []vC11Pair) string {
	var s []string
	for _, p := range ps {
		s = append(s, p.l+"="+p.r)
	}
	return strings.Join(s, " ")
}

// vC11Valid asserts that the comparisons are a valid one-to-one matching.
func vC11Valid(left, right []vC11Person, cmp IndividualComparisons, minWS, preferAbove float64) {
	for _, p := range left {
		n := 0
		for _, c := range cmp {
			if c.Left != nil && c.Left.Pointer() == p.ptr {
				n++
			}
		}
		VsAssert("every-left-individual-in-exactly-one-result", n == 1)
	}
	for _, p := range right {
		n := 0
		for _, c := range cmp {
			if c.Right != nil && c.Right.Pointer() == p.ptr {
				n++
			}
		}
		VsAssert("every-right-individual-in-exactly-one-result", n == 1)
	}
	for _, c := range cmp {
		VsAssert("no-result-is-empty-on-both-sides", c.Left != nil || c.Right != nil)
		if c.Left == nil || c.Right == nil {
			continue
		}
		sharedID := c.Left.UniqueIdentifiers().Intersects(c.Right.UniqueIdentifiers())
		ws := c.Similarity.WeightedSimilarity()
		trusted := c.Left.Pointer() == c.Right.Pointer() && ws >= preferAbove
		VsAssert("a-pair-meets-the-threshold-or-shares-an-id-or-a-trusted-pointer", VsAny(ws >= minWS, sharedID, trusted))
	}
}

var vC11Thresholds = [][2]float64{{-1, -1}, {0, 0}, {1, 1}, {0, 1}, {1, 0}}

var vC11Scenarios = []string{"renumbered-copy", "shared-pointers", "duplicated-unique-id", "identical-twins", "empty-left", "empty-right", "crossed-unique-id", "symbolic-name"}

// vC11Check runs one comparison and asserts validity and schedule independence.
func vC11Check(scenario, jobs int, minWS, preferAbove float64, concrete bool) {
	left, right, family := vC11Inputs(scenario)
	pairs, cmp := vC11Run(left, right, family, jobs, minWS, preferAbove)
	// Scenario 2 (two left people claim the same right person by unique id) and scenario 3 (twins)
	// have tied candidates: which one wins may depend on the schedule, the matching is valid either way
	// (and the native replay, whose schedule is the Go runtime's, may see another one).
	tied := scenario == 2 || scenario == 3
	if tied {
		VsObserve(len(pairs))
	} else {
		VsObserve(vC11Text(pairs))
	}
	VsReach("individuals-compared")
	VsClassSet(vC11Scenarios[scenario])
	vC11Valid(left, right, cmp, minWS, preferAbove)
	// the schedule must not matter: identical on every path of this case
	if !tied && scenario != 7 && concrete {
		VsEmit("matching", vC11Text(pairs))
	}
	// and equal to the sequential result on fresh documents
	if jobs > 1 && !tied {
		seq, _ := vC11Run(left, right, family, 1, minWS, preferAbove)
		VsAssert("same-matching-as-the-sequential-run", vC11Text(seq) == vC11Text(pairs))
	}
}

// VerifC11_Compare: cs%8 = scenario, cs/8%4 = Jobs (0, 1, 2, 3), cs/32%5 = thresholds (default,
// 0/0, 1/1, 0/1, 1/0). The harness runs under the schedule explorer: every path is one schedule
// (within the pre-emption budget).
func VerifC11_Compare(cs int) {
	d := NewSimilarityOptions()
	minWS, preferAbove := d.MinimumWeightedSimilarity, d.PreferPointerAbove
	if t := cs / 32 % 5; t > 0 {
		minWS, preferAbove = vC11Thresholds[t][0], vC11Thresholds[t][1]
	}
	vC11Check(cs%8, []int{0, 1, 2, 3}[cs/8%4], minWS, preferAbove, true)
}

// VerifC11_Threshold: MinimumWeightedSimilarity is symbolic in [0, 1] (every pair must meet the
// threshold the solver picks, or share an id or a trusted pointer); deterministic schedule, because
// the symbolic scores times the schedules do not finish. cs%8 = scenario, cs/8%3 = Jobs 1, 2, 3.
func VerifC11_Threshold(cs int) {
	d := NewSimilarityOptions()
	vC11Check(cs%8, cs/8%3+1, VsFloat("minimum", 0, 1), d.PreferPointerAbove, false)
}

// VerifC11_Races: the comparison with 2 and 3 jobs under the happens-before monitor: every pair of
// conflicting accesses to a struct field, slice element, global or map that no synchronisation
// orders is reported (class = the location). cs%8 = scenario, cs/8%2 = Jobs 2 or 3.
func VerifC11_Races(cs int) {
	scenario, jobs := cs%8, cs/8%2+2
	left, right, family := vC11Inputs(scenario)
	d := NewSimilarityOptions()
	pairs, _ := vC11Run(left, right, family, jobs, d.MinimumWeightedSimilarity, d.PreferPointerAbove)
	VsObserve(len(pairs))
	VsReach("compared-under-the-race-monitor")
}
