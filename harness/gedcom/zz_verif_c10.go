package gedcom

import (
	"strings"

	. "github.com/elliotchance/gedcom/v39/internal/vsym"
)

// vC10Person is one individual of an input document. marker is a unique NOTE that identifies the
// person through the merge (it is a fact of the record, so it has to survive).
type vC10Person struct {
	ptr, name, birth, death, marker string
	fams, famc                     string
	nameParts, extra               string // raw lines: below the NAME line / further facts at level 1
}

func (p vC10Person) text() string {
	s := "0 @" + p.ptr + "@ INDI\n1 NAME " + p.name + "\n" + p.nameParts
	if p.birth != "" {
		s += "1 BIRT\n2 DATE " + p.birth + "\n"
	}
	if p.death != "" {
		s += "1 DEAT\n2 DATE " + p.death + "\n"
	}
	s += p.extra + "1 NOTE " + p.marker + "\n"
	if p.fams != "" {
		s += "1 FAMS @" + p.fams + "@\n"
	}
	if p.famc != "" {
		s += "1 FAMC @" + p.famc + "@\n"
	}
	return s
}

type vC10Family struct {
	ptr, husb, wife string
	chil            []string
}

func (f vC10Family) text() string {
	s := "0 @" + f.ptr + "@ FAM\n"
	if f.husb != "" {
		s += "1 HUSB @" + f.husb + "@\n"
	}
	if f.wife != "" {
		s += "1 WIFE @" + f.wife + "@\n"
	}
	for _, c := range f.chil {
		s += "1 CHIL @" + c + "@\n"
	}
	return s
}

type vC10Input struct {
	people   []vC10Person
	families []vC10Family
}

func (in vC10Input) text() string {
	s := "0 HEAD\n1 CHAR UTF-8\n"
	for _, p := range in.people {
		s += p.text()
	}
	for _, f := range in.families {
		s += f.text()
	}
	return s + "0 TRLR\n"
}

func (in vC10Input) markerOf(ptr string) string {
	for _, p := range in.people {
		if p.ptr == ptr {
			return p.marker
		}
	}
	return ""
}

// the base family: John and Jane with their son Bob
func vC10Base(side string) vC10Input {
	return vC10Input{
		people: []vC10Person{
			{ptr: "I1", name: "John /Smith/", birth: "3 Sep 1843", death: "1 Jan 1900", marker: side + "1", fams: "F1"},
			{ptr: "I2", name: "Jane /Doe/", birth: "7 Mar 1850", marker: side + "2", fams: "F1"},
			{ptr: "I3", name: "Bob /Smith/", birth: "12 Dec 1875", marker: side + "3", famc: "F1"},
		},
		families: []vC10Family{{ptr: "F1", husb: "I1", wife: "I2", chil: []string{"I3"}}},
	}
}

func vC10Rename(in vC10Input, m map[string]string) vC10Input {
	r := func(p string) string {
		if q, ok := m[p]; ok {
			return q
		}
		return p
	}
	out := vC10Input{}
	for _, p := range in.people {
		p.ptr, p.fams, p.famc = r(p.ptr), r(p.fams), r(p.famc)
		out.people = append(out.people, p)
	}
	for _, f := range in.families {
		f.ptr, f.husb, f.wife = r(f.ptr), r(f.husb), r(f.wife)
		var cs []string
		for _, c := range f.chil {
			cs = append(cs, r(c))
		}
		f.chil = cs
		out.families = append(out.families, f)
	}
	return out
}

var vC10Renumber = map[string]string{"I1": "P7", "I2": "P8", "I3": "P9", "F1": "F9"}

// vC10Right builds the second document. variant:
//
//	0 identical copy (same pointers)          1 copy with renumbered pointers
//	2 renumbered copy, the son dropped, a new daughter added, John's death changed
//	3 a disjoint family with other pointers   4 a disjoint family that reuses the pointers I1, I2, F1
//	5 empty document                          6 copy in which one byte of John's given name is symbolic
//	7 renumbered copy in which one byte of John's given name is symbolic
//	8 renumbered copy that carries details (name parts, burial date and place, dated occupation) for
//	  facts that the base document only mentions
func vC10Right(variant int) vC10Input {
	r := vC10Base("R")
	switch variant {
	case 1:
		return vC10Rename(r, vC10Renumber)
	case 2:
		r.people[0].death = "5 Feb 1901"
		r.people[2] = vC10Person{ptr: "I4", name: "Mary /Smith/", birth: "2 Feb 1880", marker: "R4", famc: "F1"}
		r.families[0].chil = []string{"I4"}
		return vC10Rename(r, map[string]string{"I1": "P7", "I2": "P8", "I4": "P10", "F1": "F9"})
	case 3, 4:
		o := vC10Input{
			people: []vC10Person{
				{ptr: "I1", name: "Zebedee /Quux/", birth: "1 Apr 1701", marker: "R1", fams: "F1"},
				{ptr: "I2", name: "Wilhelmina /Vandermeer/", birth: "9 Nov 1712", marker: "R2", fams: "F1"},
			},
			families: []vC10Family{{ptr: "F1", husb: "I1", wife: "I2"}},
		}
		if variant == 3 {
			return vC10Rename(o, map[string]string{"I1": "X1", "I2": "X2", "F1": "G1"})
		}
		return o
	case 8:
		// the copy says more about facts that the base only mentions
		r.people[0].nameParts = "2 GIVN John\n2 SURN Smith\n"
		// (two census events that are equal as far as Equals goes, and that the base lacks)
		r.people[0].extra = "1 BURI\n2 DATE 4 Jan 1900\n2 PLAC Waverley\n1 OCCU Farmer\n2 DATE 1880\n1 CENS\n2 DATE 1881\n2 PLAC Lambeth\n1 CENS\n2 DATE 1891\n2 PLAC Camberwell\n"
		r.people[1].extra = "1 RESI\n2 PLAC Sydney\n"
		return vC10Rename(r, vC10Renumber)
	case 5:
		return vC10Input{}
	case 6, 7:
		r.people[0].name = "Jo" + VsBytesIn("letter", 1, "hHnz") + "n /Smith/"
		if variant == 7 {
			return vC10Rename(r, vC10Renumber)
		}
	}
	return r
}

func vC10Ptr(v string) string {
	if len(v) > 2 && v[0] == '@' && v[len(v)-1] == '@' {
		return v[1 : len(v)-1]
	}
	return ""
}

func vC10Markers(node Node) []string {
	var out []string
	for _, n := range NodesWithTag(node, TagNote) {
		out = append(out, n.Value())
	}
	return out
}

func vC10Holds(node Node, marker string) bool {
	for _, m := range vC10Markers(node) {
		if m == marker {
			return true
		}
	}
	return false
}

// vC10HasFact: the individual has a child equal to fact (tag, value and the fact's own children).
func vC10HasFact(ind *IndividualNode, fact Node) bool {
	for _, n := range ind.Nodes() {
		if n.Tag().Is(fact.Tag()) && n.Value() == fact.Value() {
			all := true
			for _, sub := range fact.Nodes() {
				found := false
				for _, s2 := range n.Nodes() {
					if s2.Tag().Is(sub.Tag()) && s2.Value() == sub.Value() {
						found = true
					}
				}
				all = all && found
			}
			if all {
				return true
			}
		}
	}
	return false
}

func vC10Options(which int) *IndividualNodesCompareOptions {
	o := NewIndividualNodesCompareOptions()
	switch which {
	case 1: // strict
		o.SimilarityOptions.MinimumWeightedSimilarity = 0.99
	case 2: // lenient
		o.SimilarityOptions.MinimumWeightedSimilarity = 0.1
	}
	return o
}

var vC10VariantNames = []string{"identical-copy", "renumbered-copy", "edited-renumbered-copy", "disjoint", "clashing-pointers", "empty-right", "symbolic-name", "symbolic-name-renumbered", "detailed-copy"}

// VerifC10_Merge: cs%9 = variant of the right document, cs/9%3 = thresholds (default, strict,
// lenient), cs/27%2 = left and right swapped.
func VerifC10_Merge(cs int) {
	variant := cs % 9
	leftIn, rightIn := vC10Base("L"), vC10Right(variant)
	if variant == 8 {
		leftIn.people[0].extra = "1 BURI\n1 OCCU Farmer\n"
		leftIn.people[1].extra = "1 RESI\n"
	}
	if cs/27%2 == 1 {
		leftIn, rightIn = rightIn, leftIn
	}
	vC10Check(leftIn, rightIn, vC10Options(cs/9%3), vC10VariantNames[variant])
}

// vC10Check merges the two documents and checks accounting, facts, decodability and references.
func vC10Check(leftIn, rightIn vC10Input, options *IndividualNodesCompareOptions, class string) {
	left, err1 := NewDocumentFromString(leftIn.text())
	right, err2 := NewDocumentFromString(rightIn.text())
	VsAssume(err1 == nil && err2 == nil)
	leftBefore, rightBefore := left.String(), right.String()
	VsClassSet(class)

	merged, err := MergeDocumentsAndIndividuals(left, right, EqualityMergeFunction, options)
	VsReach("documents-merged")
	VsAssert("merge-succeeds", err == nil && merged != nil)
	if err != nil || merged == nil {
		return
	}
	text := merged.String()
	VsObserve(text)
	VsAssert("merge-leaves-the-inputs-untouched", left.String() == leftBefore && right.String() == rightBefore)

	// accounting: every marker exactly once
	inputs := []vC10Input{leftIn, rightIn}
	for _, in := range inputs {
		for _, p := range in.people {
			n := 0
			for _, ind := range merged.Individuals() {
				for _, m := range vC10Markers(ind) {
					if m == p.marker {
						n++
					}
				}
			}
			VsAssert("every-individual-is-carried-over-or-merged-exactly-once", n == 1)
		}
	}
	total := 0
	for _, ind := range merged.Individuals() {
		k := len(vC10Markers(ind))
		total += k
		VsAssert("an-output-individual-stands-for-one-person-of-each-side-at-most", k >= 1 && k <= 2)
		if k == 2 {
			ms := vC10Markers(ind)
			VsAssert("a-merged-individual-joins-one-left-and-one-right-person", ms[0][0] != ms[1][0])
		}
	}
	VsAssert("no-individual-is-invented", total == len(leftIn.people)+len(rightIn.people))

	// a merged individual holds the facts of both originals
	for di, doc := range []*Document{left, right} {
		for _, orig := range doc.Individuals() {
			marker := inputs[di].markerOf(orig.Pointer())
			for _, ind := range merged.Individuals() {
				if !vC10Holds(ind, marker) {
					continue
				}
				for _, fact := range orig.Nodes() {
					if fact.Tag().Is(TagFamilySpouse) || fact.Tag().Is(TagFamilyChild) {
						continue // references are the subject of the closure clause below
					}
					VsAssert("merged-individual-holds-the-facts-of-both-originals", vC10HasFact(ind, fact))
				}
			}
		}
	}

	// the output serialises to GEDCOM that decodes again
	again, derr := NewDocumentFromString(text)
	VsAssert("merged-document-decodes-again", derr == nil)
	if derr == nil {
		VsAssert("merged-document-is-a-fixpoint-of-encode-decode", again.String() == text)
	}

	// references stay meaningful
	pointerCount := map[string]int{}
	for _, n := range merged.Nodes() {
		if n.Pointer() != "" {
			pointerCount[n.Pointer()]++
		}
	}
	unique := true
	for _, n := range merged.Nodes() {
		if n.Pointer() != "" && pointerCount[n.Pointer()] != 1 {
			unique = false
		}
	}
	VsAssert("every-pointer-names-one-record", unique)
	resolved := true
	for _, fam := range merged.Families() {
		for _, n := range fam.Nodes() {
			if n.Tag().Is(TagHusband) || n.Tag().Is(TagWife) || n.Tag().Is(TagChild) {
				if _, ok := merged.NodeByPointer(vC10Ptr(n.Value())).(*IndividualNode); !ok {
					resolved = false
				}
			}
		}
	}
	for _, ind := range merged.Individuals() {
		for _, n := range ind.Nodes() {
			if n.Tag().Is(TagFamilySpouse) || n.Tag().Is(TagFamilyChild) {
				if _, ok := merged.NodeByPointer(vC10Ptr(n.Value())).(*FamilyNode); !ok {
					resolved = false
				}
			}
		}
	}
	VsAssert("every-reference-resolves", resolved)
	same := true
	for _, in := range inputs {
		for _, f := range in.families {
			roles := [][2]string{{"HUSB", f.husb}, {"WIFE", f.wife}}
			for _, c := range f.chil {
				roles = append(roles, [2]string{"CHIL", c})
			}
			for _, role := range roles {
				if role[1] == "" {
					continue
				}
				want := in.markerOf(role[1])
				found := false
				for _, fam := range merged.Families() {
					for _, n := range fam.Nodes() {
						if n.Tag().Tag() != role[0] {
							continue
						}
						if ind, ok := merged.NodeByPointer(vC10Ptr(n.Value())).(*IndividualNode); ok && vC10Holds(ind, want) {
							found = true
						}
					}
				}
				same = same && found
			}
		}
	}
	VsAssert("every-family-role-still-points-to-the-same-person", same)
	_ = strings.Join
}

var vC10IdentifierVariants = []string{"swapped-pointers-one-unique-id", "swapped-pointers-two-unique-ids", "renumbered-with-unique-ids", "shared-unique-id-different-names", "twins-one-unique-id", "only-the-family-renumbered", "family-renumbered-and-extended"}

// VerifC10_Identifiers: people who are matched by a unique identifier (_UID) while their pointers say
// something else: a father and a son with the same name whose pointers are swapped in the copy (one or
// both carry a _UID), a renumbered copy with identifiers, the same identifier under different names,
// twins of whom one has an identifier; and copies in which only the
// family record is renumbered. cs%7: variant (4 = twins), cs/7%2: documents swapped.
func VerifC10_Identifiers(cs int) {
	uid := func(c string) string { return "1 _UID " + strings.Repeat(c, 32) + "\n" }
	mk := func(side string) vC10Input {
		return vC10Input{
			people: []vC10Person{
				{ptr: "I1", name: "John /Smith/", birth: "3 Mar 1900", marker: side + "1", fams: "F1", extra: "1 OCCU Miner\n"},
				{ptr: "I2", name: "John /Smith/", birth: "3 Mar 1901", marker: side + "2", famc: "F1", extra: "1 OCCU Baker\n"},
			},
			families: []vC10Family{{ptr: "F1", husb: "I1", chil: []string{"I2"}}},
		}
	}
	l, r := mk("L"), mk("R")
	swap := map[string]string{"I1": "I2", "I2": "I1"}
	switch cs % 7 {
	case 0:
		l.people[1].extra += uid("B")
		r.people[1].extra += uid("B")
		r = vC10Rename(r, swap)
	case 1:
		l.people[0].extra += uid("A")
		r.people[0].extra += uid("A")
		l.people[1].extra += uid("B")
		r.people[1].extra += uid("B")
		r = vC10Rename(r, swap)
	case 2:
		l.people[0].extra += uid("A")
		r.people[0].extra += uid("A")
		l.people[1].extra += uid("B")
		r.people[1].extra += uid("B")
		r = vC10Rename(r, map[string]string{"I1": "P7", "I2": "P8", "F1": "F9"})
	case 3:
		l.people[1].extra += uid("B")
		r.people[1].extra += uid("B")
		r.people[1].name = "Zebedee /Quux/"
		r.people[1].birth = "1 Apr 1701"
	case 5, 6:
		// the same people (now with the mother) under the same pointers, only the family record has
		// another pointer; in variant 6 the copy also has a daughter more
		for _, in := range []*vC10Input{&l, &r} {
			in.people = append(in.people, vC10Person{ptr: "I3", name: "Jane /Doe/", birth: "7 Mar 1880", marker: in.people[0].marker[:1] + "3", fams: "F1"})
			in.families[0].wife = "I3"
		}
		if cs%7 == 5 {
			r = vC10Rename(r, map[string]string{"F1": "F9"})
			break
		}
		r.people = append(r.people, vC10Person{ptr: "I4", name: "Mary /Smith/", birth: "2 Feb 1905", marker: "R4", famc: "F1"})
		r.families[0].chil = append(r.families[0].chil, "I4")
		r = vC10Rename(r, map[string]string{"F1": "F9"})
	default:
		// twins: same name and birth on both sides, only the second carries the identifier
		l.people[0].birth, r.people[0].birth = "3 Mar 1901", "3 Mar 1901"
		l.people[1].extra += uid("B")
		r.people[1].extra += uid("B")
	}
	if cs/7%2 == 1 {
		l, r = r, l
	}
	vC10Check(l, r, NewIndividualNodesCompareOptions(), vC10IdentifierVariants[cs%7])
}
