package gedcom

// Self-test of the engine's library models: every function below is applied to strings of symbolic
// bytes; the engine explores all paths of the *models*, and the driver replays every path natively
// (vcheck --selftest validates all paths, not a sample) and compares every observation with what the
// real library returns. Nothing of the repo is under test here.

import (
	"bytes"
	"encoding/json"
	"fmt"
	"html"
	"regexp"
	"sort"
	"strconv"
	"strings"
	"unicode"

	. "github.com/elliotchance/gedcom/v39/internal/vsym"
)

const vSelfAlphabet = "aB 0.-,<\t"

var vSelfRes = []*regexp.Regexp{
	regexp.MustCompile(`^(\d+) +(@[^@]+@ )?(\w+) ?(.*)?$`),
	regexp.MustCompile(`(?i)^(abt|bef)\.? (.+)$`),
	regexp.MustCompile(`[^a-z0-9]+`),
	regexp.MustCompile(`^\s+$`),
	regexp.MustCompile(`^".*"$`),
	regexp.MustCompile(`a|aB|B0`),
	regexp.MustCompile(`\b0+`),
}

// VerifSelf_Strings: strings, strconv, unicode, html, bytes on a string of cs%4 symbolic bytes (and a
// second one of cs/4%3 bytes for the binary functions).
func VerifSelf_Strings(cs int) {
	s := VsBytesIn("s", cs%3, vSelfAlphabet)
	t := VsBytesIn("t", cs/3%2, vSelfAlphabet)
	VsObserve(s)
	VsObserve(t)
	VsObserve(strings.ToLower(s))
	VsObserve(strings.ToUpper(s))
	VsObserve(strings.TrimSpace(s))
	VsObserve(strings.Trim(s, " -"))
	VsObserve(strings.TrimLeft(s, "0"))
	VsObserve(strings.TrimRight(s, ". "))
	VsObserve(strings.TrimPrefix(s, t))
	VsObserve(strings.TrimSuffix(s, t))
	VsObserve(strings.HasPrefix(s, t))
	VsObserve(strings.HasSuffix(s, t))
	VsObserve(strings.Contains(s, t))
	VsObserve(strings.Index(s, t))
	VsObserve(strings.IndexByte(s, 'B'))
	VsObserve(strings.Replace(s, "a", "xy", -1))
	if len(t) > 0 {
		VsObserve(strings.Replace(s, t, "_", 1))
	}
	VsObserve(strings.Join(strings.Split(s, ","), "|"))
	VsObserve(strings.Repeat(s, 2))
	VsObserve(s == t)
	VsObserve(s < t)
	VsObserve(s + t)
	VsObserve(len(s + t))
	VsObserve(html.EscapeString(s))
	n, err := strconv.Atoi(s)
	VsObserve(n)
	VsObserve(err == nil)
	f, ferr := strconv.ParseFloat(t, 64)
	VsObserve(ferr == nil)
	if ferr == nil {
		VsObserve(f > 0.5)
	}
	for i := 0; i < len(s); i++ {
		r := rune(s[i])
		VsObserve(unicode.IsLetter(r))
		VsObserve(unicode.IsUpper(r))
		VsObserve(unicode.IsDigit(r))
		VsObserve(unicode.IsSpace(r))
	}
	buf := bytes.NewBufferString(s)
	buf.WriteString(t)
	buf.WriteByte('!')
	VsObserve(buf.String())
	var sb strings.Builder
	sb.WriteString(t)
	sb.WriteRune('é')
	VsObserve(sb.Len())
	VsReach("strings-observed")
}

// VerifSelf_Regexp: the ported matcher against the real one: cs%4 symbolic bytes through 7 patterns.
func VerifSelf_Regexp(cs int) {
	s := VsBytesIn("s", cs%4+1, "0 @aB.\"")
	VsObserve(s)
	for _, re := range vSelfRes {
		VsObserve(re.MatchString(s))
		VsObserve(strings.Join(re.FindStringSubmatch(s), "|"))
		VsObserve(re.ReplaceAllString(s, "-"))
	}
	VsReach("regexps-observed")
}

type vSelfRecord struct {
	Name  string            `json:"name"`
	Count int               `json:"count,omitempty"`
	Tags  []string          `json:"tags"`
	Extra map[string]string `json:"extra,omitempty"`
	skip  int
}

// VerifSelf_Format: fmt verbs, json and sort on symbolic integers and strings.
func VerifSelf_Format(cs int) {
	s := VsBytesIn("s", cs%3, vSelfAlphabet)
	n := VsInt("n", -5, 1200)
	VsObserve(fmt.Sprintf("%d|%03d|%s|%v|%5s|%-4s", n, n, s, s, s, s))
	VsObserve(fmt.Sprint(s, n, true))
	VsObserve(strconv.Itoa(n) + "/" + VsDecimal(VsInt("m", 0, 150), 2))
	b, err := json.Marshal(vSelfRecord{Name: s, Count: n, Tags: []string{s, "x"}, Extra: map[string]string{"k": s}})
	VsObserve(string(b))
	VsObserve(err == nil)
	b2, _ := json.MarshalIndent(map[string]interface{}{"s": s, "n": n, "l": []int{n, 1}}, "", "  ")
	VsObserve(string(b2))
	xs := []string{s, "a", "B", "0"}
	sort.Strings(xs)
	VsObserve(strings.Join(xs, ","))
	ys := []int{n, 3, -1, 700}
	sort.Ints(ys)
	VsObserve(fmt.Sprint(ys))
	VsReach("formats-observed")
}

// VerifSelf_Sort: sort.Slice (unstable: tie order of the library's pdqsort above 12 elements) and
// sort.SliceStable on records with many equal keys, three of the keys symbolic. cs: 13 + 4*cs elements.
func VerifSelf_Sort(cs int) {
	type rec struct{ key, id int }
	n := 13 + 4*cs
	mk := func() []rec {
		var out []rec
		for i := 0; i < n; i++ {
			out = append(out, rec{key: (i * 7) % 3, id: i})
		}
		return out
	}
	k0, k1, k2 := VsInt("k0", 0, 2), VsInt("k1", 0, 2), VsInt("k2", 0, 2)
	set := func(rs []rec) {
		rs[1].key, rs[n/2].key, rs[n-2].key = k0, k1, k2
	}
	ids := func(rs []rec) string {
		s := ""
		for _, r := range rs {
			s += fmt.Sprint(r.id) + ","
		}
		return s
	}
	a := mk()
	set(a)
	sort.Slice(a, func(i, j int) bool { return a[i].key < a[j].key })
	VsObserve(ids(a))
	b := mk()
	set(b)
	sort.SliceStable(b, func(i, j int) bool { return b[i].key > b[j].key })
	VsObserve(ids(b))
	VsReach("sorted")
}

// VerifSelf_Atoi: strconv.Atoi on 18..20 symbolic digits with an optional sign (values around the ends
// of the int64 range saturate with a range error). cs%3: 18 + cs%3 digits, cs/3%3: no sign, '-', '+'.
func VerifSelf_Atoi(cs int) {
	d := []string{"", "-", "+"}[cs/3%3] + "92233720368547758"[:17-cs%2] + VsBytes("d", 1+cs%3+cs%2, '0', '9')
	n, err := strconv.Atoi(d)
	VsObserve(d)
	VsObserve(n)
	VsObserve(err == nil)
	if err != nil {
		VsObserve(err.Error())
	}
	VsObserve(n > 1000)
	VsReach("atoi-observed")
}
