package gedcom

import (
	"strings"
	"time"

	. "github.com/elliotchance/gedcom/v39/internal/vsym"
)

// Documented keyword spellings (Date documentation + the DateWords constants), with their constraint.
var vKeywords = []struct {
	word string
	c    DateConstraint
}{
	{"", DateConstraintExact},
	{"abt", DateConstraintAbout}, {"abt.", DateConstraintAbout}, {"about", DateConstraintAbout},
	{"c.", DateConstraintAbout}, {"ca", DateConstraintAbout}, {"ca.", DateConstraintAbout},
	{"cca", DateConstraintAbout}, {"cca.", DateConstraintAbout}, {"circa", DateConstraintAbout},
	{"aft", DateConstraintAfter}, {"aft.", DateConstraintAfter}, {"after", DateConstraintAfter},
	{"bef", DateConstraintBefore}, {"bef.", DateConstraintBefore}, {"before", DateConstraintBefore},
}

var vCanonKeyword = map[DateConstraint]string{
	DateConstraintExact: "", DateConstraintAbout: "Abt.", DateConstraintAfter: "Aft.", DateConstraintBefore: "Bef.",
}

// 23 documented month spellings, then an unknown word (near miss).
var vMonthWords = []struct {
	word string
	m    int
}{
	{"jan", 1}, {"january", 1}, {"feb", 2}, {"february", 2}, {"mar", 3}, {"march", 3}, {"apr", 4}, {"april", 4},
	{"may", 5}, {"jun", 6}, {"june", 6}, {"jul", 7}, {"july", 7}, {"aug", 8}, {"august", 8},
	{"sep", 9}, {"september", 9}, {"oct", 10}, {"october", 10}, {"nov", 11}, {"november", 11}, {"dec", 12}, {"december", 12},
	{"foo", 0},
}

var vMonthAbbr = []string{"", "Jan", "Feb", "Mar", "Apr", "May", "Jun", "Jul", "Aug", "Sep", "Oct", "Nov", "Dec"}

func vCaseVariant(s string, v int) string {
	switch v {
	case 1:
		return strings.ToUpper(s)
	case 2:
		if s == "" {
			return s
		}
		return strings.ToUpper(s[:1]) + s[1:]
	}
	return s
}

// vWritten is one written date: the text and what it says.
type vWritten struct {
	text           string
	hasDay, hasMon bool
	monKnown       bool
	d, m, y        int
	c              DateConstraint
	dDigits        int // digits of the day value (for canonical printing)
	yDigits        int
}

// vWriteDate assembles "kw day month year" with symbolic digits. shape: 0 = year, 1 = month year,
// 2 = day month year, 3 = day year (undocumented: near miss).
func vWriteDate(name string, kw int, caseV int, monthIdx int, shape int, sep string) vWritten {
	w := vWritten{c: vKeywords[kw].c}
	var parts []string
	if vKeywords[kw].word != "" {
		parts = append(parts, vCaseVariant(vKeywords[kw].word, caseV))
	}
	if shape == 2 || shape == 3 {
		w.hasDay = true
		switch VsChoose(name+".dayform", 3) {
		case 0: // one digit
			w.d = VsInt(name+".d", 0, 9)
			w.dDigits = 1
			parts = append(parts, VsDecimal(w.d, 1))
		case 1: // two digits
			w.d = VsInt(name+".d", 10, 99)
			w.dDigits = 2
			parts = append(parts, VsDecimal(w.d, 2))
		default: // one leading zero
			w.d = VsInt(name+".d", 0, 9)
			w.dDigits = 1
			parts = append(parts, "0"+VsDecimal(w.d, 1))
		}
	}
	if shape == 1 || shape == 2 {
		w.hasMon = true
		w.m = vMonthWords[monthIdx].m
		w.monKnown = w.m != 0
		parts = append(parts, vCaseVariant(vMonthWords[monthIdx].word, caseV))
	}
	w.yDigits = 1 + VsChoose(name+".ydigits", 4)
	lo, hi := 1, 9
	for i := 1; i < w.yDigits; i++ {
		lo, hi = lo*10, hi*10+9
	}
	w.y = VsInt(name+".y", lo, hi)
	parts = append(parts, VsDecimal(w.y, w.yDigits))
	w.text = strings.Join(parts, sep)
	return w
}

// inGrammar: the written date is a sentence of the documented grammar with a possible calendar day.
func (w vWritten) inGrammar() bool {
	if w.hasMon && !w.monKnown {
		return false
	}
	if w.hasDay {
		if !w.hasMon {
			return false
		}
		return VsAnd(w.d >= 1, w.d <= VDaysIn(w.m, w.y))
	}
	return true
}

func (w vWritten) canonical() string {
	var parts []string
	if k := vCanonKeyword[w.c]; k != "" {
		parts = append(parts, k)
	}
	if w.hasDay {
		parts = append(parts, VsDecimal(w.d, w.dDigits))
	}
	if w.hasMon {
		parts = append(parts, vMonthAbbr[w.m])
	}
	parts = append(parts, VsDecimal(w.y, w.yDigits))
	return strings.Join(parts, " ")
}

func vAssertFields(prefix string, got Date, w vWritten) {
	wantDay, wantMon := 0, 0
	if w.hasDay {
		wantDay = w.d
	}
	if w.hasMon {
		wantMon = w.m
	}
	VsAssert(prefix+"-day-as-written", got.Day == wantDay)
	VsAssert(prefix+"-month-as-written", got.Month == time.Month(wantMon))
	VsAssert(prefix+"-year-as-written", got.Year == w.y)
	VsAssert(prefix+"-constraint-as-written", got.Constraint == w.c)
}

var vSeps = []string{" ", "  ", "    "}

// VerifC04_Single: one date. cs = ((kw*3 + caseV)*len(months) + monthIdx)*4 + shape.
func VerifC04_Single(cs int) {
	shape := cs % 4
	cs /= 4
	monthIdx := cs % len(vMonthWords)
	cs /= len(vMonthWords)
	caseV := cs % 3
	kw := cs / 3 % len(vKeywords)
	if (shape == 0 || shape == 3) && monthIdx != 0 {
		VsReach("single-skipped-duplicate")
		return // month word unused in these shapes: only one representative
	}
	sepi := VsChoose("sep", len(vSeps))
	w := vWriteDate("x", kw, caseV, monthIdx, shape, vSeps[sepi])
	text := w.text
	if sepi == 2 {
		text = " " + text + " "
	}
	if w.c != DateConstraintExact {
		VsClass("keyword:" + vKeywords[kw].word)
	}
	if w.hasMon && !w.monKnown {
		VsClass("unknown-month-word")
	}
	dr := NewDateRangeWithString(text)
	VsObserve(text)
	VsObserve(dr.IsValid())
	VsReach("single-parsed")
	if w.inGrammar() {
		VsAssert("in-grammar-is-valid", dr.IsValid())
		vAssertFields("start", dr.StartDate(), w)
		vAssertFields("end", dr.EndDate(), w)
		VsAssert("end-is-end-of-range", dr.EndDate().IsEndOfRange)
		VsAssert("start-is-start-of-range", !dr.StartDate().IsEndOfRange)
		// canonical printing and re-parsing
		printed := dr.String()
		VsObserve(printed)
		VsAssert("prints-canonical-spelling", printed == w.canonical())
		VsAssert("date-node-prints-canonical-spelling", NewDateNode(text).String() == w.canonical())
		back := NewDateRangeWithString(printed)
		VsAssert("reparse-start-same", back.StartDate().Is(dr.StartDate()))
		VsAssert("reparse-end-same", back.EndDate().Is(dr.EndDate()))
	} else {
		VsReach("single-near-miss")
		VsAssert("out-of-grammar-is-invalid", !dr.IsValid())
	}
}

var vBetweenWords = []string{"between", "bet", "bet.", "from"}
var vAndWords = []string{"and", "to", "-"}

// VerifC04_Range: 'between X and Y'. cs = (((bw*3 + aw)*3 + caseV)*3 + shapeX)*3 + shapeY.
func VerifC04_Range(cs int) {
	shapeY := cs % 3
	cs /= 3
	shapeX := cs % 3
	cs /= 3
	caseV := cs % 3
	cs /= 3
	aw := cs % 3
	bw := cs / 3 % 4
	kwX := VsChoose("kwx", 2) * 13                    // none or "bef"
	kwY := VsChoose("kwy", 2) * 10                    // none or "aft"
	x := vWriteDate("x", kwX, caseV, 4, shapeX, " ")  // mar
	y := vWriteDate("y", kwY, caseV, 22, shapeY, " ") // december
	text := vCaseVariant(vBetweenWords[bw], caseV) + " " + x.text + " " + vCaseVariant(vAndWords[aw], caseV) + " " + y.text
	dr := NewDateRangeWithString(text)
	VsObserve(text)
	VsObserve(dr.IsValid())
	VsReach("range-parsed")
	if VsAnd(x.inGrammar(), y.inGrammar()) {
		VsAssert("range-in-grammar-is-valid", dr.IsValid())
		vAssertFields("range-start", dr.StartDate(), x)
		vAssertFields("range-end", dr.EndDate(), y)
		printed := dr.String()
		VsObserve(printed)
		// two ends that are written identically are one date
		sameEnds := VsAll(x.hasDay == y.hasDay, x.hasMon == y.hasMon, x.c == y.c,
			VsImplies(x.hasDay, x.d == y.d), VsImplies(x.hasMon, x.m == y.m), x.y == y.y)
		if sameEnds {
			VsAssert("range-of-identical-ends-prints-as-one-date", printed == x.canonical())
		} else {
			VsAssert("range-prints-canonical-spelling", printed == "Bet. "+x.canonical()+" and "+y.canonical())
		}
		back := NewDateRangeWithString(printed)
		VsAssert("range-reparse-start-same", back.StartDate().Is(dr.StartDate()))
		VsAssert("range-reparse-end-same", back.EndDate().Is(dr.EndDate()))
	} else {
		VsReach("range-near-miss")
		VsAssert("range-out-of-grammar-is-invalid", !dr.IsValid())
	}
}

// VerifC04_NearMiss: undocumented forms must not parse to a valid date. cs selects the form.
func VerifC04_NearMiss(cs int) {
	y := VsInt("y", 1000, 9999)
	ys := VsDecimal(y, 4)
	d := VsInt("d", 1, 28)
	ds := VsDecimal(d, 2)
	var text string
	switch cs {
	case 0:
		text = ds + " Mar" // missing year
	case 1:
		text = "Mar"
	case 2:
		text = ds + " Mar " + ys + " x" // trailing text
	case 3:
		text = ds + " Mar " + ys + " 12"
	case 4:
		text = "abt"
	case 5:
		text = "" // empty
	case 6:
		text = "Mar " + ds + " " + ys // month before day
	case 7:
		text = ds + "-03-" + ys
	case 8:
		text = "foo " + ds + " Mar " + ys // unknown keyword
	case 9:
		text = "between " + ys // half a range
	case 10:
		text = "between " + ys + " and"
	default:
		text = ys + " Mar " + ds
	}
	dr := NewDateRangeWithString(text)
	VsObserve(text)
	VsObserve(dr.IsValid())
	VsReach("near-miss-parsed")
	VsAssert("undocumented-form-is-invalid", !dr.IsValid())
}

// VerifC04_RangeEnds: ranges whose second date lies inside the period that the first one names (a
// month and a day of it, a year and a month of it, with and without keywords), or whose dates are
// written the later one first: each end is the date that was written at that end. Only the day is
// symbolic (1..28), so that comparisons of the fractional-year values stay cheap. cs%7: the form (4: later date first; 5, 6: two days of one month / year).
func VerifC04_RangeEnds(cs int) {
	d := VsInt("day", 1, 28)
	day := VsDecimal(d, 1)
	type end struct {
		day, month, year int
		constraint       DateConstraint
	}
	var text string
	var s, e end
	switch cs % 7 {
	case 0:
		text, s, e = "Bet. Mar 1900 and "+day+" Mar 1900", end{0, 3, 1900, DateConstraintExact}, end{d, 3, 1900, DateConstraintExact}
	case 1:
		text, s, e = "between 1900 and "+day+" Jun 1900", end{0, 0, 1900, DateConstraintExact}, end{d, 6, 1900, DateConstraintExact}
	case 2:
		text, s, e = "from abt 1850 to bef. "+day+" Feb 1850", end{0, 0, 1850, DateConstraintAbout}, end{d, 2, 1850, DateConstraintBefore}
	case 3:
		text, s, e = "Bet. "+day+" Mar 1900 and Mar 1900", end{d, 3, 1900, DateConstraintExact}, end{0, 3, 1900, DateConstraintExact}
	case 5, 6:
		// two exact days of one month / of the first and the last month of one year: among them the
		// ranges that cover exactly the whole month or year, which still are the two days written
		d2 := VsInt("day2", 1, 31)
		VsAssume(d <= d2)
		m1, m2, w1, w2 := 3, 3, " Mar 1900", " Mar 1900"
		if cs%7 == 6 {
			m1, m2, w1, w2 = 1, 12, " Jan 1850", " Dec 1850"
		}
		text, s, e = "Bet. "+day+w1+" and "+VsDecimal(d2, 1)+w2, end{d, m1, 1900 - 50*(cs%7-5), DateConstraintExact}, end{d2, m2, 1900 - 50*(cs%7-5), DateConstraintExact}
	default:
		text, s, e = "Bet. "+day+" Dec 1950 and Aft. "+day+" Jan 1900", end{d, 12, 1950, DateConstraintExact}, end{d, 1, 1900, DateConstraintAfter}
	}
	dr := NewDateRangeWithString(text)
	VsObserve(text)
	VsReach("range-ends-parsed")
	VsAssert("range-ends-valid", dr.IsValid())
	got := dr.StartDate()
	VsAssert("range-start-is-the-first-date-written", VsAll(got.Day == s.day, int(got.Month) == s.month, got.Year == s.year, got.Constraint == s.constraint))
	got = dr.EndDate()
	VsAssert("range-end-is-the-second-date-written", VsAll(got.Day == e.day, int(got.Month) == e.month, got.Year == e.year, got.Constraint == e.constraint))
	again := NewDateRangeWithString(dr.String())
	VsAssert("range-ends-survive-printing", VsAnd(again.StartDate().Is(dr.StartDate()), again.EndDate().Is(dr.EndDate())))
}
