package gedcom

import (
	"fmt"
	"sort"
	"strings"

	. "github.com/elliotchance/gedcom/v39/internal/vsym"
)

var vC20Months = []struct {
	word string
	m    int
}{{"Jan", 1}, {"Jun", 6}, {"Dec", 12}}

// vExactDay is an exact date "DD Mon YYYY" with a symbolic day (1..28); month and year are choices
// (a symbolic year makes every age computation a div/mod/saturating-multiply query of seconds).
type vExactDay struct {
	text    string
	y, m, d int
}

func vNewExactDay(name string, years ...int) vExactDay {
	mi := VsChoose(name+".month", len(vC20Months))
	y := years[VsChoose(name+".year", len(years))]
	e := vExactDay{y: y, m: vC20Months[mi].m, d: VsInt(name+".d", 1, 28)}
	e.text = VsDecimal(e.d, 1) + " " + vC20Months[mi].word + " " + VsDecimal(e.y, 4)
	return e
}

// vNewExactDayIn: as vNewExactDay with the month fixed by the caller (so that cases can be spread
// over worker processes).
func vNewExactDayIn(name string, mi int, years ...int) vExactDay {
	y := years[VsChoose(name+".year", len(years))]
	e := vExactDay{y: y, m: vC20Months[mi].m, d: VsInt(name+".d", 1, 28)}
	e.text = VsDecimal(e.d, 1) + " " + vC20Months[mi].word + " " + VsDecimal(e.y, 4)
	return e
}

func (e vExactDay) dayNo() int { return VDayNo(e.y, e.m, e.d) }

func vIndi(ptr, name, sex string, events ...string) string {
	s := "0 @" + ptr + "@ INDI\n1 NAME " + name + "\n"
	if sex != "" {
		s += "1 SEX " + sex + "\n"
	}
	return s + strings.Join(events, "")
}

func vEvent(tag, date string) string {
	if date == "" {
		return ""
	}
	return "1 " + tag + "\n2 DATE " + date + "\n"
}

// vWarningKeys renders the warnings as "name|individual|family|detail" keys (no formatted ages).
func vWarningKeys(doc *Document) []string {
	var out []string
	for _, w := range doc.Warnings() {
		key := w.Name() + "|" + Pointer(w.Context().Individual) + "|" + Pointer(w.Context().Family)
		switch x := w.(type) {
		case *ChildBornBeforeParentWarning:
			key += "|parent=" + Pointer(x.Parent) + "|child=" + Pointer(x.Child.Individual())
		case *SiblingsBornTooCloseWarning:
			a, b := Pointer(x.Sibling1.Individual()), Pointer(x.Sibling2.Individual())
			if b < a {
				a, b = b, a
			}
			key += "|siblings=" + a + "," + b
		case *MarriedOutOfRangeWarning:
			key += "|spouse=" + Pointer(x.Spouse) + "|" + x.Boundary
		case *IndividualTooOldWarning:
			key += "|who=" + Pointer(x.Individual)
		case *IncorrectEventOrderWarning:
			key += "|" + x.FirstEvent.Tag().Tag() + "-before-" + x.SecondEvent.Tag().Tag()
		}
		out = append(out, key)
	}
	sort.Strings(out)
	return out
}

func vCount(keys []string, prefix string) int {
	n := 0
	for _, k := range keys {
		if strings.HasPrefix(k, prefix) {
			n++
		}
	}
	return n
}

func vHas(keys []string, key string) bool {
	for _, k := range keys {
		if k == key {
			return true
		}
	}
	return false
}

// vYears is Date.Years of the exact day as the code computes it.
func (e vExactDay) years() float64 { return NewDateRangeWithString(e.text).StartDate().Years() }

// vOrderLemma: before/after by Years is calendar order. This is what VerifC05_Order proves for all
// dates (it runs as part of this check); stating it here saves the solver from re-deriving it from
// the floating-point formula at every comparison.
func vOrderLemma(a, b vExactDay) {
	ya, yb := a.years(), b.years()
	VsLemma("isbefore-iff-earlier-day", VsIff(ya < yb, a.dayNo() < b.dayNo()))
	VsLemma("isafter-iff-later-day", VsIff(ya > yb, a.dayNo() > b.dayNo()))
}

// VerifC20_Parents: child-born-before-parent, reported iff the child's birthday is before the
// parent's, once per offending parent, naming the right people. cs%3: record order; cs/3%2: which
// parent has the symbolic birthday; cs/6%3: the other parent is born long before / long after the
// child / has no birth date.
func VerifC20_Parents(cs int) {
	p, c := vNewExactDay("parent", 1800, 1801), vNewExactDay("child", 1800, 1801, 1830)
	VsAssume(p.dayNo() != c.dayNo())
	vOrderLemma(c, p)
	other, wantOther := "", false
	switch cs / 6 % 3 {
	case 0:
		other = "12 Mar 1650"
	case 1:
		other, wantOther = "12 Mar 1995", true
	}
	fatherDate, motherDate := p.text, other
	symbolicIsFather := cs/3%2 == 0
	if !symbolicIsFather {
		fatherDate, motherDate = other, p.text
	}
	recs := []string{
		vIndi("I1", "Fa /Ther/", "M", vEvent("BIRT", fatherDate)),
		vIndi("I2", "Mo /Ther/", "F", vEvent("BIRT", motherDate)),
		vIndi("I3", "Chi /Ld/", "", vEvent("BIRT", c.text)),
		"0 @F1@ FAM\n1 HUSB @I1@\n1 WIFE @I2@\n1 CHIL @I3@\n",
	}
	perm := [][]int{{0, 1, 2, 3}, {3, 2, 1, 0}, {2, 3, 0, 1}}[cs%3]
	text := ""
	for _, i := range perm {
		text += recs[i]
	}
	doc, err := NewDocumentFromString(text)
	VsAssume(err == nil)
	keys := vWarningKeys(doc)
	VsObserve(strings.Join(keys, ";"))
	VsReach("parents-checked")
	wantF, wantM := c.dayNo() < p.dayNo(), wantOther
	if !symbolicIsFather {
		wantF, wantM = wantM, wantF
	}
	gotF := vHas(keys, "ChildBornBeforeParent||F1|parent=I1|child=I3")
	gotM := vHas(keys, "ChildBornBeforeParent||F1|parent=I2|child=I3")
	VsAssert("child-before-father-iff-born-earlier", VsIff(gotF, wantF))
	VsAssert("child-before-mother-iff-born-earlier", VsIff(gotM, wantM))
	VsAssert("child-before-parent-once-per-parent", vCount(keys, "ChildBornBeforeParent") == vB2I(gotF)+vB2I(gotM))
}

// VerifC20_Siblings: siblings-born-too-close iff 2 days .. 9 months apart (margins of a few days),
// once per pair. cs: order of the two CHIL lines.
func VerifC20_Siblings(cs int) {
	a, b := vNewExactDay("sib1", 1803, 1804), vNewExactDay("sib2", 1803, 1804, 1805)
	dist := a.dayNo() - b.dayNo()
	dist = VsIteInt(dist < 0, -dist, dist)
	// clear-cut data only: twins on the same day, or outside a few days around each threshold
	VsAssume(VsAny(dist == 0, VsAnd(dist >= 5, dist <= 268), dist >= 280))
	chil := []string{"1 CHIL @I3@\n", "1 CHIL @I4@\n"}
	if cs%2 == 1 {
		chil[0], chil[1] = chil[1], chil[0]
	}
	text := vIndi("I3", "Sib /One/", "", vEvent("BIRT", a.text)) + vIndi("I4", "Sib /Two/", "", vEvent("BIRT", b.text)) +
		"0 @F1@ FAM\n" + chil[0] + chil[1]
	doc, err := NewDocumentFromString(text)
	VsAssume(err == nil)
	keys := vWarningKeys(doc)
	VsObserve(strings.Join(keys, ";"))
	VsReach("siblings-checked")
	want := VsAnd(dist >= 5, dist <= 268)
	n := vCount(keys, "SiblingsBornTooClose")
	VsAssert("siblings-too-close-iff-within-window", VsIff(n > 0, want))
	VsAssert("siblings-too-close-once-per-pair", n <= 1)
	if n > 0 {
		VsAssert("siblings-too-close-names-the-pair", vHas(keys, "SiblingsBornTooClose||F1|siblings=I3,I4"))
	}
}

// VerifC20_Marriage: married-too-young / too-old iff the age at marriage is clearly below 16 / above 100.
func VerifC20_Marriage(cs int) {
	hb, md := vNewExactDay("husbandbirth", 1800), vNewExactDay("marriage", 1810, 1816, 1850, 1900, 1903)
	ageDays := md.dayNo() - hb.dayNo()
	VsAssume(ageDays > 0)
	// margins around 16 and 100 years (365.25-day years)
	VsAssume(VsNot(VsAnd(ageDays >= 5834, ageDays <= 5854)))
	VsAssume(VsNot(VsAnd(ageDays >= 36515, ageDays <= 36535)))
	text := vIndi("I1", "Hus /Band/", "M", vEvent("BIRT", hb.text)) + vIndi("I2", "Wi /Fe/", "F") +
		"0 @F1@ FAM\n1 HUSB @I1@\n1 WIFE @I2@\n1 MARR\n2 DATE " + md.text + "\n"
	doc, err := NewDocumentFromString(text)
	VsAssume(err == nil)
	keys := vWarningKeys(doc)
	VsObserve(strings.Join(keys, ";"))
	VsReach("marriage-checked")
	young, old := ageDays < 5834, ageDays > 36535
	VsAssert("married-too-young-iff-under-16", VsIff(vHas(keys, "MarriedOutOfRange||F1|spouse=I1|young"), young))
	VsAssert("married-too-old-iff-over-100", VsIff(vHas(keys, "MarriedOutOfRange||F1|spouse=I1|old"), old))
	VsAssert("no-marriage-warning-for-the-spouse-without-birth", vCount(keys, "MarriedOutOfRange||F1|spouse=I2") == 0)
}

// VerifC20_Individual: too-old, wrong event order, unparsable date, multiple sexes for one individual.
// cs: variant of the extra facts.
func VerifC20_Individual(cs int) {
	b, d := vNewExactDay("birth", 1800), vNewExactDay("death", 1799, 1800, 1860, 1900, 1904)
	VsAssume(b.dayNo() != d.dayNo())
	ageDays := d.dayNo() - b.dayNo()
	VsAssume(VsNot(VsAnd(ageDays >= 36515, ageDays <= 36535)))
	extra, wantUnparsable, wantSexes := "", 0, false
	switch cs % 4 {
	case 1:
		extra, wantUnparsable = "1 RESI\n2 DATE not a date\n", 1
	case 2:
		extra, wantSexes = "1 SEX F\n", true
	case 3:
		extra, wantUnparsable, wantSexes = "1 SEX F\n1 EVEN\n2 DATE 31 Feb 1900\n1 OCCU x\n2 DATE (a phrase)\n", 2, true
	}
	text := vIndi("I1", "Per /Son/", "M", vEvent("BIRT", b.text), vEvent("DEAT", d.text), extra)
	doc, err := NewDocumentFromString(text)
	VsAssume(err == nil)
	keys := vWarningKeys(doc)
	VsObserve(strings.Join(keys, ";"))
	VsReach("individual-checked")
	VsAssert("too-old-iff-over-100-at-death", VsIff(vHas(keys, "IndividualTooOld|I1||who=I1"), ageDays > 36535))
	VsAssert("wrong-event-order-iff-death-before-birth", VsIff(vHas(keys, "IncorrectEventOrder|I1||DEAT-before-BIRT"), d.dayNo() < b.dayNo()))
	VsAssert("unparsable-date-once-per-bad-date", vCount(keys, "UnparsableDate") == wantUnparsable)
	VsAssert("multiple-sexes-iff-several-sex-lines", (vCount(keys, "MultipleSexes") == 1) == wantSexes)
}

// VerifC20_Spouses: inverted spouses iff the husband is female and the wife is male.
func VerifC20_Spouses(cs int) {
	sexes := []string{"M", "F", "", "U"}
	hs, ws := sexes[cs%4], sexes[cs/4%4]
	text := vIndi("I1", "Hus /Band/", hs) + vIndi("I2", "Wi /Fe/", ws) + "0 @F1@ FAM\n1 HUSB @I1@\n1 WIFE @I2@\n"
	doc, err := NewDocumentFromString(text)
	VsAssume(err == nil)
	keys := vWarningKeys(doc)
	VsObserve(strings.Join(keys, ";"))
	VsReach("spouses-checked")
	VsAssert("inverted-spouses-iff-female-husband-and-male-wife", (vCount(keys, "InverseSpouses") == 1) == (hs == "F" && ws == "M"))
	_ = fmt.Sprint
}

// VerifC20_EventOrder: baptism, death and burial dates (exact days, day symbolic) in every order
// relative to each other, with a birth that is fine, missing or unparsable: one wrong-order warning
// for each pair of events that is recorded in the wrong order, whatever else is wrong with the record.
// cs%3: birth (valid and earliest, missing, unparsable); cs/3%3 and cs/9%3: months of baptism and death.
func VerifC20_EventOrder(cs int) {
	bapt, death, buri := vNewExactDayIn("baptism", cs/3%3, 1850), vNewExactDayIn("death", cs/9%3, 1850, 1851), vNewExactDay("burial", 1850)
	VsAssume(bapt.dayNo() != death.dayNo())
	VsAssume(bapt.dayNo() != buri.dayNo())
	VsAssume(death.dayNo() != buri.dayNo())
	birth, wantUnparsable := "1 BIRT\n2 DATE 1 Jan 1800\n", 0
	switch cs % 3 {
	case 1:
		birth = ""
	case 2:
		birth, wantUnparsable = "1 BIRT\n2 DATE foo bar\n", 1
	}
	text := "0 @I1@ INDI\n1 NAME Per /Son/\n1 SEX M\n" + birth + vEvent("BAPM", bapt.text) + vEvent("DEAT", death.text) + vEvent("BURI", buri.text)
	doc, err := NewDocumentFromString(text)
	VsAssume(err == nil)
	keys := vWarningKeys(doc)
	VsObserve(strings.Join(keys, ";"))
	VsReach("event-order-checked")
	VsAssert("death-before-baptism-iff-recorded-so", VsIff(vHas(keys, "IncorrectEventOrder|I1||DEAT-before-BAPM"), death.dayNo() < bapt.dayNo()))
	VsAssert("burial-before-baptism-iff-recorded-so", VsIff(vHas(keys, "IncorrectEventOrder|I1||BURI-before-BAPM"), buri.dayNo() < bapt.dayNo()))
	VsAssert("burial-before-death-iff-recorded-so", VsIff(vHas(keys, "IncorrectEventOrder|I1||BURI-before-DEAT"), buri.dayNo() < death.dayNo()))
	VsAssert("an-unparsable-birth-is-reported-once-and-hides-nothing", vCount(keys, "UnparsableDate") == wantUnparsable)
}

// VerifC20_BadMarriage: a marriage whose date cannot be used (unparsable text, an impossible day, a
// phrase, no date at all) says nothing about the age at marriage: no married-too-young / too-old
// warning, and exactly one unparsable-date warning when there is a text that cannot be interpreted. cs%4: the form.
func VerifC20_BadMarriage(cs int) {
	hb := vNewExactDay("husbandbirth", 1800, 1960)
	marr, wantUnparsable := "", 0
	switch cs % 4 {
	case 0:
		marr, wantUnparsable = "2 DATE sometime in spring\n", 1
	case 1:
		marr, wantUnparsable = "2 DATE 31 Feb 1850\n", 1
	case 2:
		// a phrase is not a date that can be interpreted either (VerifC20_Individual counts it the same way)
		marr, wantUnparsable = "2 DATE (in the year of the flood)\n", 1
	}
	text := vIndi("I1", "Hus /Band/", "M", vEvent("BIRT", hb.text)) + vIndi("I2", "Wi /Fe/", "F", vEvent("BIRT", "3 Apr 1802")) +
		"0 @F1@ FAM\n1 HUSB @I1@\n1 WIFE @I2@\n1 MARR\n" + marr
	doc, err := NewDocumentFromString(text)
	VsAssume(err == nil)
	keys := vWarningKeys(doc)
	VsObserve(strings.Join(keys, ";"))
	VsReach("bad-marriage-checked")
	VsAssert("no-age-at-marriage-warning-without-a-usable-marriage-date", vCount(keys, "MarriedOutOfRange") == 0)
	VsAssert("unusable-marriage-date-is-reported-once-if-unparsable", vCount(keys, "UnparsableDate") == wantUnparsable)
}

// VerifC20_ThreeSiblings: three children of one family, two of them close together (a day in January
// and a day in June 1900: about five months) and one far away (1905), with the CHIL lines in each of
// the six orders (cs%6): exactly one siblings-too-close warning, for the close pair, whatever the order.
func VerifC20_ThreeSiblings(cs int) {
	a, b, c := vNewExactDayIn("sibA", 0, 1900), vNewExactDayIn("sibB", 1, 1900), vNewExactDayIn("sibC", 1, 1905)
	order := [][]int{{0, 1, 2}, {0, 2, 1}, {1, 0, 2}, {1, 2, 0}, {2, 0, 1}, {2, 1, 0}}[cs%6]
	chil := ""
	for _, i := range order {
		chil += "1 CHIL @" + []string{"I3", "I4", "I5"}[i] + "@\n"
	}
	text := vIndi("I3", "Sib /One/", "", vEvent("BIRT", a.text)) + vIndi("I4", "Sib /Two/", "", vEvent("BIRT", b.text)) +
		vIndi("I5", "Sib /Three/", "", vEvent("BIRT", c.text)) + "0 @F1@ FAM\n" + chil
	doc, err := NewDocumentFromString(text)
	VsAssume(err == nil)
	keys := vWarningKeys(doc)
	VsObserve(strings.Join(keys, ";"))
	VsReach("three-siblings-checked")
	VsAssert("close-pair-among-three-is-reported-once", vCount(keys, "SiblingsBornTooClose") == 1)
	VsAssert("close-pair-among-three-is-named", vHas(keys, "SiblingsBornTooClose||F1|siblings=I3,I4"))
}

// VerifC20_UnknownAge: a person whose birth (or, without a birth, baptism) date cannot be interpreted
// has no known age: no individual-too-old warning whatever the death or burial date says, and the
// unparsable date is reported once. cs%4: unparsable BIRT / impossible day / phrase / unparsable BAPM
// without BIRT; cs/4%2: death or burial.
func VerifC20_UnknownAge(cs int) {
	end := vNewExactDay("end", 1850, 1950, 2000)
	first := []string{vEvent("BIRT", "12 Foo 1901"), vEvent("BIRT", "31 Feb 1801"), vEvent("BIRT", "(about the time of the flood)"), vEvent("BAPM", "sometime")}[cs%4]
	last := vEvent([]string{"DEAT", "BURI"}[cs/4%2], end.text)
	doc, err := NewDocumentFromString(vIndi("I1", "Ann /Lee/", "F", first, last))
	VsAssume(err == nil)
	keys := vWarningKeys(doc)
	VsObserve(strings.Join(keys, ";"))
	VsReach("unknown-age-checked")
	VsAssert("no-too-old-warning-without-a-usable-birth-date", vCount(keys, "IndividualTooOld") == 0)
	VsAssert("unusable-birth-date-is-reported-once", vCount(keys, "UnparsableDate") == 1)
}
