package gedcom

import (
	"fmt"
	"strings"

	. "github.com/elliotchance/gedcom/v39/internal/vsym"
)

const vC13Gedcom = "0 @I1@ INDI\n1 NAME John /Smith/\n1 SEX M\n1 BIRT\n2 DATE 3 Sep 1843\n1 FAMS @F1@\n" +
	"0 @I2@ INDI\n1 NAME Jane /Doe/\n1 SEX F\n1 BIRT\n2 DATE 1850\n1 FAMS @F1@\n" +
	"0 @I3@ INDI\n1 NAME Bob /Smith/\n1 BIRT\n2 DATE 1875\n1 FAMC @F1@\n" +
	"0 @F1@ FAM\n1 HUSB @I1@\n1 WIFE @I2@\n1 CHIL @I3@\n"

// vC13Gedcom2: three generations with the grandparents' family recorded last, so that @I1@ is a spouse
// in one family and a child in a later one, and @I2@ has no parents on record.
const vC13Gedcom2 = "0 @I1@ INDI\n1 NAME John /Smith/\n1 SEX M\n1 BIRT\n2 DATE 3 Sep 1843\n1 FAMS @F1@\n1 FAMC @F2@\n" +
	"0 @I2@ INDI\n1 NAME Jane /Doe/\n1 SEX F\n1 BIRT\n2 DATE 1850\n1 FAMS @F1@\n" +
	"0 @I3@ INDI\n1 NAME Bob /Smith/\n1 BIRT\n2 DATE 1875\n1 FAMC @F1@\n" +
	"0 @F1@ FAM\n1 HUSB @I1@\n1 WIFE @I2@\n1 CHIL @I3@\n" +
	"0 @I4@ INDI\n1 NAME Old /Smith/\n1 SEX M\n1 BIRT\n2 DATE 1810\n1 FAMS @F2@\n" +
	"0 @F2@ FAM\n1 HUSB @I4@\n1 CHIL @I1@\n"

func vPtrs(ns IndividualNodes) string {
	var out []string
	for _, n := range ns {
		out = append(out, Pointer(n))
	}
	return "[" + strings.Join(out, ",") + "]"
}

func vFamPtrs(ns FamilyNodes) string {
	var out []string
	for _, n := range ns {
		out = append(out, Pointer(n))
	}
	return "[" + strings.Join(out, ",") + "]"
}

func vSafe(what string, f func() string) (s string) {
	defer func() {
		if r := recover(); r != nil {
			s = what + ":PANIC"
		}
	}()
	return f()
}

// vViews renders every derived view of the document as text. Relation views that dereference dangling
// references are guarded: crashes on dangling references are C14's subject, not C13's.
func vViews(doc *Document) string {
	var sb []string
	sb = append(sb, "individuals="+vPtrs(doc.Individuals()), "families="+vFamPtrs(doc.Families()))
	for _, p := range []string{"I1", "I2", "I3", "I4", "I9", "F1", "F2", "F8", "F9", "N1", "ZZ"} {
		n := doc.NodeByPointer(p)
		if IsNil(n) {
			sb = append(sb, "byptr."+p+"=nil")
		} else {
			sb = append(sb, "byptr."+p+"="+n.Tag().Tag()+":"+GEDCOMLine(n, 0))
		}
	}
	for _, ind := range doc.Individuals() {
		ind := ind
		id := "ind." + ind.Pointer()
		var names []string
		for _, n := range ind.Names() {
			names = append(names, n.Value())
		}
		var byTag []string
		for _, n := range NodesWithTag(ind, TagName) {
			byTag = append(byTag, n.Value())
		}
		var notes []string
		for _, n := range NodesWithTag(ind, TagNote) {
			notes = append(notes, n.Value())
		}
		sb = append(sb, id+".names="+strings.Join(names, "|"), id+".NAME="+strings.Join(byTag, "|"), id+".NOTE="+strings.Join(notes, "|"),
			id+".children="+fmt.Sprint(len(ind.Nodes())))
		sb = append(sb, vSafe(id+".families", func() string { return id + ".families=" + vFamPtrs(ind.Families()) }))
		sb = append(sb, vSafe(id+".spouses", func() string { return id + ".spouses=" + vPtrs(ind.Spouses()) }))
		sb = append(sb, vSafe(id+".parents", func() string { return id + ".parents=" + vFamPtrs(ind.Parents()) }))
		sb = append(sb, vSafe(id+".birth", func() string { d, _ := ind.Birth(); return id + ".birth=" + String(d) }))
		sb = append(sb, vSafe(id+".death", func() string { d, _ := ind.Death(); return id + ".death=" + String(d) }))
		sb = append(sb, vSafe(id+".sex", func() string { return id + ".sex=" + Value(ind.Sex()) }))
		sb = append(sb, vSafe(id+".events", func() string {
			var tags []string
			for _, e := range ind.AllEvents() {
				tags = append(tags, e.Tag().Tag())
			}
			return id + ".events=" + strings.Join(tags, "|")
		}))
		sb = append(sb, vSafe(id+".kids", func() string {
			var vals []string
			for _, c := range ind.Children() {
				vals = append(vals, c.Value())
			}
			return id + ".kids=" + strings.Join(vals, "|")
		}))
		sb = append(sb, vSafe(id+".spousechildren", func() string {
			n := 0
			for _, cs := range ind.SpouseChildren() {
				n += 1 + 10*len(cs)
			}
			return id + ".spousechildren=" + fmt.Sprint(n)
		}))
	}
	for _, fam := range doc.Families() {
		fam := fam
		id := "fam." + fam.Pointer()
		sb = append(sb, vSafe(id+".husband", func() string { return id + ".husband=" + Pointer(fam.Husband().Individual()) + "/" + Value(fam.Husband()) }))
		sb = append(sb, vSafe(id+".wife", func() string { return id + ".wife=" + Pointer(fam.Wife().Individual()) + "/" + Value(fam.Wife()) }))
		sb = append(sb, vSafe(id+".children", func() string {
			var vals []string
			for _, c := range fam.Children() {
				vals = append(vals, c.Value())
			}
			return id + ".children=" + strings.Join(vals, "|")
		}))
	}
	return strings.Join(sb, "\n")
}

// vWarmViews reads every view twice: NodesWithTag only stores a result on the second lookup.
func vWarmViews(doc *Document) string {
	first := vViews(doc)
	second := vViews(doc)
	// reading is a read-only operation too: the second reading shows what the first one showed
	VsAssert("reading-the-views-again-gives-the-same-views", first == second)
	return second
}

var vC13Edits = []string{"AddNode", "DeleteNode", "SetNodes", "AddIndividual-new", "AddIndividual-clash", "AddFamily",
	"SetHusband", "ClearHusband", "SetWife", "ClearWife", "AddChild", "DeleteFamilyRecord", "DeleteIndividualRecord",
	"AddName", "AddBirthDate", "AddDeathDate", "SetSex", "SetWifePointer", "SetHusbandPointer", "AddFamilyWithHusbandAndWife",
	"AddRootRecord", "ReplaceRootRecords", "DeleteGrandchild", "AddIndividual-symbolic"}
var vC13Reads = []string{"views", "Warnings", "String", "Compare", "SurroundingSimilarity", "CompareNodes", "DeepCopyIntoOtherDocument"}

func vC13Apply(doc *Document, op int) (isRead bool, name string) {
	ind := func(p string) *IndividualNode {
		n, _ := doc.NodeByPointer(p).(*IndividualNode)
		return n
	}
	fam := func() *FamilyNode {
		fs := doc.Families()
		if len(fs) == 0 {
			return nil
		}
		return fs[0]
	}
	if op < len(vC13Edits) {
		name = vC13Edits[op]
		i1, i2, i3 := ind("I1"), ind("I2"), ind("I3")
		f := fam()
		switch name {
		case "AddNode":
			if i1 != nil {
				i1.AddNode(NewNode(TagNote, "added", ""))
				i1.AddNode(NewNode(TagName, "Johnny /Smith/", ""))
			}
		case "DeleteNode":
			if i1 != nil && len(i1.Nodes()) > 0 {
				i1.DeleteNode(i1.Nodes()[0])
			}
		case "SetNodes":
			if i2 != nil && len(i2.Nodes()) > 0 {
				i2.SetNodes(i2.Nodes()[1:])
			}
		case "AddIndividual-new":
			doc.AddIndividual("I9", NewNode(TagName, "New /Person/", ""))
		case "AddIndividual-clash":
			doc.AddIndividual("I1", NewNode(TagName, "Clash /Person/", ""))
		case "AddFamily":
			doc.AddFamily("F9")
		case "SetHusband":
			if f != nil && i3 != nil {
				f.SetHusband(i3)
			}
		case "ClearHusband":
			if f != nil {
				f.SetHusband(nil)
			}
		case "SetWife":
			if f != nil && i3 != nil {
				f.SetWife(i3)
			}
		case "ClearWife":
			if f != nil {
				f.SetWife(nil)
			}
		case "AddChild":
			if f != nil && i2 != nil {
				f.AddChild(i2)
			}
		case "DeleteFamilyRecord":
			if f != nil {
				doc.DeleteNode(f)
			}
		case "DeleteIndividualRecord":
			if i3 != nil {
				doc.DeleteNode(i3)
			}
		case "AddName":
			if i3 != nil {
				i3.AddName("Robert /Smith/")
			}
		case "AddBirthDate":
			if i2 != nil {
				i2.AddBirthDate("2 Feb 1849")
			}
		case "AddDeathDate":
			if i1 != nil {
				i1.AddDeathDate("1 Jan 1900")
			}
		case "SetSex":
			if i3 != nil {
				i3.SetSex("M")
			}
		case "SetWifePointer":
			if f != nil {
				f.SetWifePointer("I3")
			}
		case "SetHusbandPointer":
			if f != nil {
				f.SetHusbandPointer("I2")
			}
		case "AddFamilyWithHusbandAndWife":
			if i3 != nil && i2 != nil {
				doc.AddFamilyWithHusbandAndWife("F8", i3, i2)
			}
		case "AddRootRecord":
			doc.AddNode(NewNode(TagNote, "a root note", "N1"))
		case "ReplaceRootRecords":
			// the document without its last record
			if ns := doc.Nodes(); len(ns) > 0 {
				doc.SetNodes(ns[:len(ns)-1])
			}
		case "DeleteGrandchild":
			if i1 != nil {
				if bs := i1.Births(); len(bs) > 0 && len(bs[0].Nodes()) > 0 {
					bs[0].DeleteNode(bs[0].Nodes()[0])
				}
			}
		case "AddIndividual-symbolic":
			// a pointer that clashes with an existing record or not, as the solver pleases
			doc.AddIndividual("I"+VsBytesIn("newptr", 1, "1239"), NewNode(TagName, "Sym /Bolic/", ""))
		}
		return false, name
	}
	name = vC13Reads[op-len(vC13Edits)]
	switch name {
	case "views":
		vWarmViews(doc)
	case "Warnings":
		for _, w := range doc.Warnings() {
			_ = w.String()
		}
	case "String":
		_ = doc.String()
	case "Compare":
		inds := doc.Individuals()
		_ = inds.Compare(inds, NewIndividualNodesCompareOptions())
	case "SurroundingSimilarity":
		inds := doc.Individuals()
		if len(inds) >= 2 {
			_ = inds[0].SurroundingSimilarity(inds[1], NewSimilarityOptions(), true)
		}
	case "CompareNodes":
		inds := doc.Individuals()
		if len(inds) >= 2 {
			d := CompareNodes(inds[0], inds[1])
			_ = d.String()
			d.Sort()
		}
	case "DeepCopyIntoOtherDocument":
		other := NewDocument()
		for _, n := range doc.Nodes() {
			other.AddNode(DeepCopy(n, other))
		}
	}
	return true, name
}

func vC13ApplyGuarded(doc *Document, op int) (isRead bool, name string, crashed bool) {
	defer func() {
		if r := recover(); r != nil {
			crashed = true
			if op < len(vC13Edits) {
				name = vC13Edits[op]
			} else {
				name = vC13Reads[op-len(vC13Edits)]
			}
		}
	}()
	isRead, name = vC13Apply(doc, op)
	return
}

// VerifC13_History: on the 3-person family (cs%2 == 0) or the three-generation document whose
// grandparents' family comes last (cs%2 == 1), every history of cs/2%3+1 operations (24 edits, 7 reads) on a small family; after
// every step each view equals the same view on a fresh decode of the current text; reads change nothing.
func VerifC13_History(cs int) {
	k := cs/2%3 + 1
	text := vC13Gedcom
	if cs%2 == 1 {
		text = vC13Gedcom2
	}
	doc, err := NewDocumentFromString(text)
	VsAssume(err == nil)
	vWarmViews(doc)
	nops := len(vC13Edits) + len(vC13Reads)
	for step := 0; step < k; step++ {
		op := VsChoose(fmt.Sprintf("op%d", step), nops)
		textBefore := doc.String()
		viewsBefore := vWarmViews(doc)
		isRead, name, crashed := vC13ApplyGuarded(doc, op)
		VsClassSet(name)
		if crashed {
			// a traversal crashed on a dangling reference that an earlier edit created
			// (for example a CHIL line whose individual record was deleted): that is C14's subject
			// (none does since the C14 repairs; a crash would be reported by the C14 check, here the
			// history simply ends)
			return
		}
		textAfter := doc.String()
		// live views first: decoding another document resets the global children-by-tag cache
		live := vWarmViews(doc)
		if isRead {
			readOK := textAfter == textBefore
			VsAssert("read-leaves-text-unchanged", readOK)
			VsAssert("read-leaves-views-unchanged", live == viewsBefore)
			if !readOK || live != viewsBefore {
				return // attribute a divergence to the step that caused it
			}
		}
		fresh, derr := NewDocumentFromString(textAfter)
		VsAssert("text-after-step-decodes", derr == nil)
		if derr != nil {
			return
		}
		coherent := live == vWarmViews(fresh)
		VsAssert("views-equal-fresh-decode", coherent)
		if !coherent {
			return
		}
		VsObserve(name)
	}
	VsReach("history-done")
}
