package gedcom

import (
	"fmt"

	. "github.com/elliotchance/gedcom/v39/internal/vsym"
)

// vRepresented: x (with its subtree) is represented among cands by an equal node under which every
// child of x is represented again.
func vRepresented(x Node, cands Nodes) bool {
	found := false
	for _, r := range cands {
		ok := vEq(r, x)
		for _, c := range x.Nodes() {
			ok = VsAnd(ok, vRepresented(c, r.Nodes()))
		}
		found = VsOr(found, ok)
	}
	return found
}

// vStems: result node r stems from an input node among cands (equal), and so do its children from the
// children of the equal input nodes.
func vStems(r Node, cands Nodes) bool {
	var next Nodes
	any := false
	for _, x := range cands {
		e := vEq(x, r)
		any = VsOr(any, e)
		// children of every candidate are allowed as origins (over-approximation of "equal parent"
		// that never rejects a legitimate result)
		next = append(next, x.Nodes()...)
	}
	ok := any
	for _, c := range r.Nodes() {
		ok = VsAnd(ok, vStems(c, next))
	}
	return ok
}

func vMutateAll(n Node, depth int) {
	for _, c := range n.Nodes() {
		vMutateAll(c, depth+1)
	}
	n.AddNode(NewNode(TagFromString("MUT"), fmt.Sprintf("m%d", depth), ""))
}

// VerifC09_MergeNodes: cs: left children = cs%3, right children = cs/3%3, grandchildren = cs/9%2.
func VerifC09_MergeNodes(cs int) {
	left := vSmallTree("l", cs%3, cs/9%2 == 1)
	right := vSmallTree("r", cs/3%3, cs/9%2 == 1)
	lBefore, rBefore := left.GEDCOMString(0), right.GEDCOMString(0)
	merged, err := MergeNodes(left, right, NewDocument())
	VsObserve(lBefore)
	VsObserve(rBefore)
	VsReach("merged")
	VsAssert("merge-of-same-tag-succeeds", err == nil)
	if err != nil {
		return
	}
	VsObserve(merged.GEDCOMString(0))
	VsAssert("merge-leaves-left-untouched", VsStrEq(left.GEDCOMString(0), lBefore))
	VsAssert("merge-leaves-right-untouched", VsStrEq(right.GEDCOMString(0), rBefore))
	VsAssert("nothing-of-left-is-lost", vRepresented(left, Nodes{merged}))
	VsAssert("nothing-of-right-is-lost", vRepresented(right, Nodes{merged}))
	VsAssert("nothing-is-invented", vStems(merged, Nodes{left, right}))
	VsAssert("result-shares-no-node-with-left", !vSharesNode(merged, left))
	VsAssert("result-shares-no-node-with-right", !vSharesNode(merged, right))
	vMutateAll(merged, 0)
	VsAssert("changing-the-result-leaves-left-untouched", VsStrEq(left.GEDCOMString(0), lBefore))
	VsAssert("changing-the-result-leaves-right-untouched", VsStrEq(right.GEDCOMString(0), rBefore))
}

// VerifC09_SelfMerge: merging a tree with itself adds nothing when no two siblings are equal.
func VerifC09_SelfMerge(cs int) {
	t := vSmallTree("t", cs%3+1, cs/3%2 == 1)
	kids := t.Nodes()
	for i := range kids {
		for j := range kids {
			if i != j {
				VsAssume(VsNot(kids[i].Equals(kids[j])))
			}
		}
	}
	before := t.GEDCOMString(0)
	merged, err := MergeNodes(t, t, NewDocument())
	VsReach("self-merged")
	VsAssert("self-merge-succeeds", err == nil)
	if err != nil {
		return
	}
	VsObserve(merged.GEDCOMString(0))
	VsAssert("self-merge-adds-nothing", DeepEqual(merged, t))
	var a, b Nodes
	vCollect(merged, &a)
	vCollect(t, &b)
	VsAssert("self-merge-same-node-count", len(a) == len(b))
	VsAssert("self-merge-leaves-input-untouched", VsStrEq(t.GEDCOMString(0), before))
}

func vMarkers(n Node, prefix string) int {
	k := 0
	for _, c := range n.Nodes() {
		if len(c.Tag().Tag()) == 2 && c.Tag().Tag()[:1] == prefix {
			k++
		}
	}
	return k
}

// VerifC09_MergeSlices: two lists of 0..2 elements each carrying a unique marker child; merge function
// by choice {equality, always (same tag), never}. cs: |left| = cs%3, |right| = cs/3%3.
func VerifC09_MergeSlices(cs int) {
	nl, nr := cs%3, cs/3%3
	var left, right Nodes
	for i := 0; i < nl; i++ {
		n := vSmallNode(fmt.Sprintf("l%d", i))
		n.AddNode(NewNode(TagFromString(fmt.Sprintf("L%d", i)), "", ""))
		left = append(left, n)
	}
	for i := 0; i < nr; i++ {
		n := vSmallNode(fmt.Sprintf("r%d", i))
		n.AddNode(NewNode(TagFromString(fmt.Sprintf("R%d", i)), "", ""))
		right = append(right, n)
	}
	var fn MergeFunction
	switch VsChoose("mergefn", 3) {
	case 0:
		fn = EqualityMergeFunction
	case 1:
		fn = func(l, r Node, d *Document) Node {
			m, err := MergeNodes(l, r, d)
			if err != nil {
				return nil
			}
			return m
		}
	default:
		fn = func(l, r Node, d *Document) Node { return nil }
	}
	lStr, rStr := "", ""
	for _, n := range left {
		lStr += n.GEDCOMString(0)
	}
	for _, n := range right {
		rStr += n.GEDCOMString(0)
	}
	out := MergeNodeSlices(left, right, NewDocument(), fn)
	VsReach("slices-merged")
	VsObserve(len(out))
	max := nl
	if nr > max {
		max = nr
	}
	VsAssert("merged-length-at-least-max", len(out) >= max)
	VsAssert("merged-length-at-most-sum", len(out) <= nl+nr)
	// every marker exactly once; every result element at most one marker per side
	totalL, totalR := 0, 0
	once := true
	for _, n := range out {
		ml, mr := vMarkers(n, "L"), vMarkers(n, "R")
		totalL += ml
		totalR += mr
		once = once && ml <= 1 && mr <= 1 && ml+mr >= 1
	}
	VsAssert("every-left-element-kept-exactly-once", totalL == nl)
	VsAssert("every-right-element-kept-exactly-once", totalR == nr)
	VsAssert("each-element-merged-at-most-once", once)
	// freshness
	shares := false
	for _, o := range out {
		for _, n := range left {
			shares = shares || vSharesNode(o, n)
		}
		for _, n := range right {
			shares = shares || vSharesNode(o, n)
		}
	}
	VsAssert("merged-slice-shares-no-node-with-inputs", !shares)
	for _, o := range out {
		vMutateAll(o, 0)
	}
	l2, r2 := "", ""
	for _, n := range left {
		l2 += n.GEDCOMString(0)
	}
	for _, n := range right {
		r2 += n.GEDCOMString(0)
	}
	VsAssert("slice-merge-and-later-changes-leave-left-untouched", VsStrEq(l2, lStr))
	VsAssert("slice-merge-and-later-changes-leave-right-untouched", VsStrEq(r2, rStr))
}

// VerifC09_MergeFunctions: the exported merge function applied directly to two nodes of the caller
// (not through MergeNodeSlices, which copies first): it returns nil for nodes that are not equal and a
// fresh merged node for equal ones; either way both arguments stay as they were, also after the result
// is changed. cs%3, cs/3%3: children of the two nodes, cs/9%2: grandchildren.
func VerifC09_MergeFunctions(cs int) {
	left := vSmallTree("l", cs%3, cs/9%2 == 1)
	right := vSmallTree("r", cs/3%3, cs/9%2 == 1)
	// the first children are compared as well: nodes of every kind, equal or not as the solver pleases
	pairs := [][2]Node{{left, right}}
	if len(left.Nodes()) > 0 && len(right.Nodes()) > 0 {
		pairs = append(pairs, [2]Node{left.Nodes()[0], right.Nodes()[0]})
	}
	lBefore, rBefore := left.GEDCOMString(0), right.GEDCOMString(0)
	VsReach("merge-function-applied")
	for _, p := range pairs {
		out := EqualityMergeFunction(p[0], p[1], NewDocument())
		VsAssert("equality-merge-function-merges-exactly-the-equal-nodes", VsIff(!IsNil(out), p[0].Equals(p[1])))
		VsAssert("merge-function-leaves-left-untouched", VsStrEq(left.GEDCOMString(0), lBefore))
		VsAssert("merge-function-leaves-right-untouched", VsStrEq(right.GEDCOMString(0), rBefore))
		if IsNil(out) {
			continue
		}
		VsAssert("merge-function-result-shares-no-node-with-its-arguments", !vSharesNode(out, p[0]) && !vSharesNode(out, p[1]))
		vMutateAll(out, 0)
		VsAssert("changing-the-merge-function-result-leaves-left-untouched", VsStrEq(left.GEDCOMString(0), lBefore))
		VsAssert("changing-the-merge-function-result-leaves-right-untouched", VsStrEq(right.GEDCOMString(0), rBefore))
	}
}
