package gedcom

import (
	"fmt"

	. "github.com/elliotchance/gedcom/v39/internal/vsym"
)

// vSmallNode: plain node with a symbolic value from {A,B}, a BIRT, a RESI, or a DATE with a symbolic year.
func vSmallNode(name string) Node {
	switch VsChoose(name+".kind", 4) {
	case 3:
		return NewNode(TagResidence, "", "") // positioned by the year of its DATE child when a diff is sorted
	case 1:
		return NewNode(TagBirth, "", "")
	case 2:
		return NewNode(TagDate, VsDecimal(VsInt(name+".y", 1900, 1901), 4), "")
	}
	return NewNode(TagFromString("ZZ"), VsBytes(name+".v", 1, 0x41, 0x42), "")
}

// vSmallTree: root "ROOT" with nc children (cs-selected), the first child optionally with one grandchild.
func vSmallTree(name string, nc int, grand bool) Node {
	n := 0
	if grand {
		n = 1
	}
	return vSmallTreeG(name, nc, n)
}

// vSmallTreeG: as vSmallTree with ngrand grandchildren under the first child (two of them can be equal).
func vSmallTreeG(name string, nc, ngrand int) Node {
	root := NewNode(TagFromString("ROOT"), "", "")
	for i := 0; i < nc; i++ {
		c := vSmallNode(fmt.Sprintf("%s.c%d", name, i))
		if i == 0 {
			for g := 0; g < ngrand; g++ {
				gname := name + ".g"
				if g > 0 {
					gname = fmt.Sprintf("%s.g%d", name, g)
				}
				c.AddNode(vSmallNode(gname))
			}
		}
		root.AddNode(c)
	}
	return root
}

type vDepthNode struct {
	n     Node
	depth int
}

func vCollectDepth(n Node, depth int, into *[]vDepthNode) {
	*into = append(*into, vDepthNode{n, depth})
	for _, c := range n.Nodes() {
		vCollectDepth(c, depth+1, into)
	}
}

type vDepthEntry struct {
	e      *NodeDiff
	depth  int
	parent *NodeDiff
}

func vCollectEntries(e *NodeDiff, depth int, parent *NodeDiff, into *[]vDepthEntry) {
	*into = append(*into, vDepthEntry{e, depth, parent})
	for _, c := range e.Children {
		vCollectEntries(c, depth+1, e, into)
	}
}

func vIsNodeOf(x Node, depth int, nodes []vDepthNode) bool {
	for _, dn := range nodes {
		if dn.n == x && dn.depth == depth {
			return true
		}
	}
	return false
}

// vEq: equal in either direction (Equals is not symmetric for every kind).
func vEq(a, b Node) bool {
	return VsOr(a.Equals(b), b.Equals(a))
}

func vCheckDiff(d *NodeDiff, left, right Node) {
	var ln, rn []vDepthNode
	vCollectDepth(left, 0, &ln)
	vCollectDepth(right, 0, &rn)
	var es []vDepthEntry
	vCollectEntries(d, 0, nil, &es)
	// provenance
	prov := true
	for _, de := range es {
		l, r := de.e.Left, de.e.Right
		prov = VsAnd(prov, !(IsNil(l) && IsNil(r)))
		if !IsNil(l) {
			prov = VsAnd(prov, vIsNodeOf(l, de.depth, ln))
		}
		if !IsNil(r) {
			prov = VsAnd(prov, vIsNodeOf(r, de.depth, rn))
		}
	}
	VsAssert("entries-come-from-the-inputs-at-their-depth", prov)
	// coverage
	cov := true
	for side, nodes := range [][]vDepthNode{ln, rn} {
		for _, dn := range nodes {
			found := false
			for _, de := range es {
				if de.depth != dn.depth {
					continue
				}
				held := de.e.Left
				if side == 1 {
					held = de.e.Right
				}
				if !IsNil(held) {
					found = VsOr(found, VsOr(held == dn.n, vEq(held, dn.n)))
				}
			}
			cov = VsAnd(cov, found)
		}
	}
	VsAssert("every-input-node-is-represented", cov)
	// two-sided only for equal nodes (the root entry is the compared pair itself)
	two := true
	for _, de := range es {
		if de.depth > 0 && !IsNil(de.e.Left) && !IsNil(de.e.Right) {
			two = VsAnd(two, vEq(de.e.Left, de.e.Right))
		}
	}
	VsAssert("two-sided-entries-hold-equal-nodes", two)
	// a node present on one side only yields a one-sided entry
	one := true
	for _, de := range es {
		if de.parent == nil {
			continue
		}
		if !IsNil(de.e.Left) && IsNil(de.e.Right) && !IsNil(de.parent.Right) {
			for _, y := range de.parent.Right.Nodes() {
				one = VsAnd(one, VsNot(de.e.Left.Equals(y)))
			}
		}
		if IsNil(de.e.Left) && !IsNil(de.e.Right) && !IsNil(de.parent.Left) {
			for _, x := range de.parent.Left.Nodes() {
				one = VsAnd(one, VsNot(x.Equals(de.e.Right)))
			}
		}
	}
	VsAssert("one-sided-entries-have-no-counterpart", one)
	// IsDeepEqual is "no one-sided entry anywhere"
	allTwo := true
	for _, de := range es {
		if IsNil(de.e.Left) || IsNil(de.e.Right) {
			allTwo = false
		}
	}
	VsAssert("is-deep-equal-iff-every-entry-is-two-sided", d.IsDeepEqual() == allTwo)
}

// VerifC08_Diff: two independent small trees; after computing the diff a sequence of two diff
// operations (String / IsDeepEqual / Sort / Tag) in every order; inputs must stay untouched.
// cs: left children = cs%3, right children = cs/3%3, left grandchild = cs/9%2, right grandchild = cs/18%2.
func VerifC08_Diff(cs int) {
	left := vSmallTree("l", cs%3, cs/9%2 == 1)
	right := vSmallTree("r", cs/3%3, cs/18%2 == 1)
	lBefore, rBefore := left.GEDCOMString(0), right.GEDCOMString(0)
	d := CompareNodes(left, right)
	VsObserve(lBefore)
	VsObserve(rBefore)
	VsReach("diffed")
	VsAssert("computing-a-diff-leaves-left-untouched", VsStrEq(left.GEDCOMString(0), lBefore))
	VsAssert("computing-a-diff-leaves-right-untouched", VsStrEq(right.GEDCOMString(0), rBefore))
	vCheckDiff(d, left, right)
	// Two operations. Sort is the one that rearranges the diff, so every sequence has it: any of the
	// four operations followed by Sort, and Sort followed by any of String / IsDeepEqual / Sort.
	apply := func(op int) {
		switch op {
		case 0:
			VsObserve(d.String())
		case 1:
			VsObserve(d.IsDeepEqual())
		case 2:
			d.Sort()
			VsClass("sorted")
		default:
			VsObserve(d.Tag().Tag())
		}
		VsAssert("diff-operations-leave-left-untouched", VsStrEq(left.GEDCOMString(0), lBefore))
		VsAssert("diff-operations-leave-right-untouched", VsStrEq(right.GEDCOMString(0), rBefore))
	}
	first := VsChoose("op0", 4)
	apply(first)
	if first == 2 {
		apply(VsChoose("op1", 3))
	} else {
		apply(2)
	}
	vCheckDiff(d, left, right)
}

// VerifC08_Equal: a tree and a reordered deep copy give an all-two-sided diff. cs%3: children 1..3,
// cs/3%3: 0, 1 or 2 grandchildren under the first child (two equal ones included).
func VerifC08_Equal(cs int) {
	nc := cs%3 + 1
	left := vSmallTreeG("l", nc, cs/3%3)
	perm := vPerms3[VsChoose("perm", 6)]
	right := NewNode(TagFromString("ROOT"), "", "")
	for _, j := range perm {
		if j < nc {
			right.AddNode(DeepCopy(left.Nodes()[j], NewDocument()))
		}
	}
	d := CompareNodes(left, right)
	VsObserve(left.GEDCOMString(0))
	VsObserve(d.IsDeepEqual())
	VsReach("diffed-equal")
	VsAssert("deep-equal-inputs-give-all-two-sided-diff", d.IsDeepEqual())
	vCheckDiff(d, left, right)
	// removing a uniquely tagged leaf makes the diff one-sided there
	extra := NewNode(TagFromString("UNIQ"), "x", "")
	left.AddNode(extra)
	d2 := CompareNodes(left, right)
	VsAssert("extra-leaf-is-not-deep-equal", !d2.IsDeepEqual())
	found := false
	for _, c := range d2.Children {
		if c.Left == extra {
			found = true
			VsAssert("extra-leaf-entry-is-one-sided", IsNil(c.Right))
		}
	}
	VsAssert("extra-leaf-has-an-entry", found)
	// the same one level deeper: a leaf that only the left tree has below its first child
	left.DeleteNode(extra)
	deep := NewNode(TagFromString("UNIQ"), "y", "")
	left.Nodes()[0].AddNode(deep)
	d3 := CompareNodes(left, right)
	VsAssert("extra-deep-leaf-is-not-deep-equal", !d3.IsDeepEqual())
	vCheckDiff(d3, left, right)
}

// VerifC08_Events: nodes whose equality looks below them (EVEN, BIRT, RESI, an event with a DATE):
// the compared child has 2 or 3 children of its own (plain values symbolic over {A,B}, so that equal
// ones occur) and the right tree is a deep copy with those grandchildren in every other order. The diff
// is all two-sided, accounts for everything, and computing / printing / sorting it leaves both trees as
// they were. cs%4: kind of the child, cs/4%2: 2 or 3 grandchildren, cs/8%2: with a DATE grandchild,
// cs/16%2: two more levels below the second grandchild.
func VerifC08_Events(cs int) {
	tags := []Tag{TagEvent, TagBirth, TagResidence, TagFromString("ZZ")}
	// the data is drawn once: both trees carry the same values
	ev, year := VsBytes("ev", 1, 0x41, 0x42), VsDecimal(VsInt("gy", 1900, 1901), 4)
	gv := []string{VsBytes("g0", 1, 0x41, 0x42), VsBytes("g1", 1, 0x41, 0x42), VsBytes("g2", 1, 0x41, 0x42)}
	mk := func(order []int, n int) Node {
		root := NewNode(TagFromString("ROOT"), "", "")
		c := NewNode(tags[cs%4], ev, "")
		var grands Nodes
		for i := 0; i < n; i++ {
			grands = append(grands, NewNode(TagNote, gv[i], ""))
		}
		if cs/8%2 == 1 {
			grands[0] = NewNode(TagDate, year, "")
		}
		if cs/16%2 == 1 {
			// one level more: the second grandchild has a child (with a child of its own)
			great := NewNode(TagFromString("MAP"), gv[0], "")
			great.AddNode(NewNode(TagFromString("LATI"), gv[1], ""))
			grands[1].AddNode(great)
		}
		for _, j := range order {
			if j < n {
				c.AddNode(grands[j])
			}
		}
		root.AddNode(c)
		// a sibling, so that sorting the diff has something to compare the event with
		root.AddNode(NewNode(TagDate, "1850", ""))
		return root
	}
	n := cs/4%2 + 2
	left := mk(vPerms3[0], n)
	right := mk(vPerms3[VsChoose("perm", 6)], n)
	lBefore, rBefore := left.GEDCOMString(0), right.GEDCOMString(0)
	d := CompareNodes(left, right)
	VsReach("event-diffed")
	VsAssert("computing-an-event-diff-leaves-left-untouched", VsStrEq(left.GEDCOMString(0), lBefore))
	VsAssert("computing-an-event-diff-leaves-right-untouched", VsStrEq(right.GEDCOMString(0), rBefore))
	VsAssert("reordered-event-children-give-all-two-sided-diff", d.IsDeepEqual())
	vCheckDiff(d, left, right)
	_ = d.String()
	d.Sort()
	_ = d.String()
	VsAssert("event-diff-operations-leave-left-untouched", VsStrEq(left.GEDCOMString(0), lBefore))
	VsAssert("event-diff-operations-leave-right-untouched", VsStrEq(right.GEDCOMString(0), rBefore))
	VsAssert("deep-equality-leaves-both-trees-untouched", VsAnd(DeepEqual(left, right), VsAnd(VsStrEq(left.GEDCOMString(0), lBefore), VsStrEq(right.GEDCOMString(0), rBefore))))
}
