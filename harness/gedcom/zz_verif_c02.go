package gedcom

import (
	"fmt"
	"strings"

	. "github.com/elliotchance/gedcom/v39/internal/vsym"
)

// VerifC02_Levels: L lines (cs%3+1) with symbolic level digits, value bytes and xref bytes; tag, xref
// presence, blanks, terminators by choice; both decoder options by case (cs/3%4).
func VerifC02_Levels(cs int) {
	L := cs/4 + 1
	multiLine := cs%2 == 1
	invalidIndents := cs/2%2 == 1
	var sb []string
	var roots []*vRefNode
	var open []*vRefNode
	sawFamily := false
	expectFamilyPanic, expectIndentProblem := false, false
	undefinedAfter := false
	for i := 0; i < L; i++ {
		name := fmt.Sprintf("l%d", i)
		lvl := VsInt(name+".level", 0, L)
		// The longer the file the smaller the per-line alphabet (the product is explored exhaustively):
		// L=1: 7 tags x {xref} x {blanks} x 3 value forms x 4 terminators; L=2: 7 tags x 4 line styles;
		// L=3: 4 tags x 2 line styles.
		ntags := len(vLineTags)
		if L == 3 {
			ntags = 4
		}
		tag := vLineTags[VsChoose(name+".tag", ntags)]
		var hasXref, blanksI, valueForm, termI int
		if L == 1 {
			hasXref = VsChoose(name+".xref", 2)
			blanksI = VsChoose(name+".blanks", 2)
			valueForm = VsChoose(name+".vform", 3)
			termI = VsChoose(name+".term", 4)
		} else {
			nstyles := 4
			if L == 3 {
				nstyles = 2
			}
			switch VsChoose(name+".style", nstyles) {
			case 0:
				hasXref, blanksI, valueForm, termI = 1, 1, 2, 1
			case 1:
				hasXref, blanksI, valueForm, termI = 0, 0, 1, 3
			case 2:
				hasXref, blanksI, valueForm, termI = 0, 0, 0, 0
			default:
				hasXref, blanksI, valueForm, termI = 1, 0, 2, 2
			}
		}
		xref := ""
		if hasXref == 1 {
			xref = VsBytes(name+".x", 1, 0x41, 0x5a)
		}
		blanks := []string{" ", "  "}[blanksI]
		raw := ""
		switch valueForm {
		case 1:
			raw = " " + VsBytes(name+".v", 1, 0x20, 0x7e)
		case 2:
			raw = " " + VsBytes(name+".v", 2, 0x20, 0x7e)
		}
		term := []string{"\n", "\r", "\r\n", "\n\n"}[termI]
		line := VsDecimal(lvl, 1) + blanks
		if xref != "" {
			line += "@" + xref + "@ "
		}
		line += tag + raw
		sb = append(sb, line+term)

		if undefinedAfter || expectFamilyPanic || expectIndentProblem {
			continue
		}
		// reference semantics
		node := &vRefNode{tag: tag, pointer: xref}
		if raw != "" {
			node.value = strings.TrimSpace(raw[1:])
		}
		if tag == "INDI" || tag == "FAM" {
			node.value = "" // record lines carry no value
		}
		if tag == "HUSB" && !sawFamily {
			expectFamilyPanic = true // today: panic; C03 demands an error
			continue
		}
		if tag == "FAM" {
			sawFamily = true
		}
		// fork on the level (the tree shape depends on it)
		placed := false
		for k := 0; k <= L; k++ {
			if lvl == k {
				switch {
				case k == 0:
					roots = append(roots, node)
					open = []*vRefNode{node}
				case k <= len(open):
					p := open[k-1]
					p.children = append(p.children, node)
					open = append(open[:k], node)
				default: // deeper than any open node allows
					if !invalidIndents {
						expectIndentProblem = true
					} else if len(open) == 0 {
						undefinedAfter = true // no open node at all: reference only demands "no crash"
					} else {
						p := open[len(open)-1]
						p.children = append(p.children, node)
						open = append(open, node)
					}
				}
				placed = true
				break
			}
		}
		_ = placed
	}
	text := strings.Join(sb, "")
	o := vDecode(text, multiLine, invalidIndents)
	VsObserve(text)
	VsObserve(o.panicked)
	VsObserve(o.err != nil)
	VsReach("levels-decoded")
	if expectFamilyPanic {
		VsClass("family-role-line-before-any-family")
	}
	if undefinedAfter {
		VsClass("over-deep-first-line-with-AllowInvalidIndents")
	}
	vCheckTotality(o, invalidIndents, text)
	if o.panicked || o.err != nil || o.doc == nil {
		return
	}
	if expectFamilyPanic || undefinedAfter {
		return // accepted input, but outside what the reference defines
	}
	VsAssert("indent-problem-is-not-accepted-silently", !expectIndentProblem)
	if expectIndentProblem {
		return
	}
	// the tree dictated by the grammar
	VsAssert("root-count-as-dictated", len(o.doc.Nodes()) == len(roots))
	if len(o.doc.Nodes()) != len(roots) {
		return
	}
	same := true
	for i, n := range o.doc.Nodes() {
		same = VsAnd(same, vSameAsRef(n, roots[i]))
	}
	VsAssert("tree-as-dictated-by-levels", same)
	// normal form
	norm := o.doc.String()
	o2 := vDecode(norm, multiLine, invalidIndents)
	VsAssert("normal-form-is-accepted", !o2.panicked && o2.err == nil && o2.doc != nil)
	if o2.panicked || o2.err != nil || o2.doc == nil {
		return
	}
	VsAssert("normal-form-decodes-to-same-tree", vSameDocument(o.doc, o2.doc))
	VsAssert("normal-form-is-a-fixpoint", VsStrEq(o2.doc.String(), norm))
}

// VerifC02_Shape: longer files (cs%3+4 = 4, 5 or 6 lines; thorough adds 7) in which only the level
// digits are symbolic (0..3): every walk through the levels - descents, dedents by one or several
// levels, too-deep lines after a dedent - against the tree the levels dictate. cs/3%2 =
// AllowInvalidIndents, cs/6%2 = the first line is a family (so that HUSB / CHIL lines appear).
func VerifC02_Shape(cs int) {
	L := cs%3 + 4
	if cs >= 12 {
		L = 7
	}
	invalidIndents := cs/3%2 == 1
	withFamily := cs/6%2 == 1
	tags := []string{"_A", "_B", "NOTE", "_D", "NAME", "_F", "_G"}
	if withFamily {
		tags = []string{"FAM", "HUSB", "NOTE", "CHIL", "_E", "WIFE", "_G"}
	}
	text := ""
	var roots, open []*vRefNode
	problem := false
	for i := 0; i < L; i++ {
		lvl := 0
		if i > 0 {
			lvl = VsInt(fmt.Sprintf("l%d.level", i), 0, 3)
		}
		value := fmt.Sprintf("v%d", i)
		line := VsDecimal(lvl, 1) + " " + tags[i] + " " + value + "\n"
		if i == 0 && withFamily {
			line, value = "0 @F1@ FAM\n", ""
		}
		text += line
		if problem {
			continue
		}
		node := &vRefNode{tag: tags[i], value: value}
		if i == 0 && withFamily {
			node.pointer = "F1"
		}
		for k := 0; k <= 3; k++ {
			if lvl != k {
				continue
			}
			switch {
			case k == 0:
				roots = append(roots, node)
				open = []*vRefNode{node}
			case k <= len(open):
				p := open[k-1]
				p.children = append(p.children, node)
				open = append(open[:k], node)
			case !invalidIndents:
				problem = true
			default: // too deep, tolerated: a child of the deepest open node
				p := open[len(open)-1]
				p.children = append(p.children, node)
				open = append(open, node)
			}
			break
		}
	}
	o := vDecode(text, false, invalidIndents)
	VsObserve(text)
	VsObserve(o.panicked)
	VsObserve(o.err != nil)
	VsReach("shape-decoded")
	vCheckTotality(o, invalidIndents, text)
	if problem {
		VsAssert("too-deep-line-is-not-accepted-silently", o.panicked || o.err != nil)
		return
	}
	VsAssert("well-levelled-file-is-accepted", !o.panicked && o.err == nil && o.doc != nil)
	if o.panicked || o.err != nil || o.doc == nil {
		return
	}
	VsAssert("shape-root-count-as-dictated", len(o.doc.Nodes()) == len(roots))
	if len(o.doc.Nodes()) != len(roots) {
		return
	}
	same := true
	for i, n := range o.doc.Nodes() {
		same = VsAnd(same, vSameAsRef(n, roots[i]))
	}
	VsAssert("shape-tree-as-dictated-by-levels", same)
	norm := o.doc.String()
	o2 := vDecode(norm, false, invalidIndents)
	VsAssert("shape-normal-form-is-a-fixpoint", !o2.panicked && o2.err == nil && o2.doc != nil && o2.doc.String() == norm)
}

func vAllNodes(n Node, into *Nodes) {
	*into = append(*into, n)
	for _, c := range n.Nodes() {
		vAllNodes(c, into)
	}
}

// VerifC02_NormalForm: near-grammar lines (runs of blanks and tabs after the level, after the xref and
// before the value; hostile bytes inside the xref): whatever the decoder accepts must be a tree whose
// pointers are free of '@' and whose encoding is a fixpoint (it decodes to the same tree and encodes
// to the same text again). cs%4: decoder options, cs/4%5: where the symbolic separator sits (4: Unicode white space around a value).
func VerifC02_NormalForm(cs int) {
	multiLine, invalidIndents := cs%2 == 1, cs/2%2 == 1
	sep := VsBytesIn("sep", VsChoose("seplen", 3)+1, " \t")
	var text string
	unicodePad := ""
	switch cs / 4 % 5 {
	case 4:
		// white space outside ASCII around the value (NEL, no-break space, ogham space, en quad, line
		// separator, narrow no-break space, ideographic space), on either side, mixed with blanks
		pads := []string{"", "\u0085", "\u00a0", "\u1680", "\u2000", "\u2028", "\u202f", "\u3000", " \u3000", "\u3000 "}
		unicodePad = "padded"
		text = "0 HEAD\n0 @I1@ INDI\n1 NAME " + pads[VsChoose("lead", len(pads))] + "Joe /Bloggs/" + pads[VsChoose("trail", len(pads))] + "\n1 SEX M\n0 TRLR\n"
	case 0:
		text = "0 HEAD\n0 @I1@" + sep + "INDI\n1 NAME Joe /Bloggs/\n0 TRLR\n"
	case 1:
		text = "0 HEAD\n0 @" + VsBytes("x", 2, 0x20, 0x7e) + "@ INDI\n1 NAME Joe /Bloggs/\n0 TRLR\n"
	case 2:
		text = "0 HEAD\n0" + sep + "@I1@ INDI\n1" + sep + "NAME Joe /Bloggs/\n0 TRLR\n"
	default:
		text = "0 HEAD\n0 @I1@ INDI\n1 NAME" + sep + "Joe" + sep + "/Bloggs/" + sep + "\n0 TRLR\n"
	}
	o := vDecode(text, multiLine, invalidIndents)
	VsObserve(text)
	VsObserve(o.panicked)
	VsObserve(o.err != nil)
	VsReach("near-grammar-decoded")
	vCheckTotality(o, invalidIndents, text)
	if o.panicked || o.err != nil || o.doc == nil {
		return
	}
	var all Nodes
	for _, n := range o.doc.Nodes() {
		vAllNodes(n, &all)
	}
	clean := true
	for _, n := range all {
		p := n.Pointer()
		for i := 0; i < len(p); i++ {
			clean = VsAnd(clean, p[i] != '@')
		}
	}
	VsAssert("accepted-pointers-hold-no-at-sign", clean)
	if unicodePad != "" {
		got := ""
		for _, n := range all {
			if n.Tag().Is(TagName) {
				got = n.Value()
			}
		}
		VsAssert("value-is-trimmed-of-every-white-space", got == "Joe /Bloggs/")
	}
	norm := o.doc.String()
	o2 := vDecode(norm, multiLine, invalidIndents)
	VsAssert("near-grammar-normal-form-is-accepted", !o2.panicked && o2.err == nil && o2.doc != nil)
	if o2.panicked || o2.err != nil || o2.doc == nil {
		return
	}
	VsAssert("near-grammar-normal-form-decodes-to-same-tree", vSameDocument(o.doc, o2.doc))
	VsAssert("near-grammar-normal-form-is-a-fixpoint", VsStrEq(o2.doc.String(), norm))
}
