package gedcom

import (
	"fmt"

	. "github.com/elliotchance/gedcom/v39/internal/vsym"
)

// vKindNames documents the node kinds with their own equality rule used by the C07-C09 harnesses.
var vKindNames = []string{"plain", "BIRT", "RESI", "EVEN", "DATE", "_UID", "NAME", "PLAC"}

// vDateValue draws a DATE value: exact year, constrained year, phrase, or unparsable text.
func vDateValue(name string) string {
	switch VsChoose(name+".dateform", 5) {
	case 0:
		return VsDecimal(VsInt(name+".y", 1000, 2999), 4)
	case 1:
		VsClass("constrained-date")
		return "Abt. " + VsDecimal(VsInt(name+".y", 1000, 2999), 4)
	case 2:
		VsClass("constrained-date")
		return "Bef. " + VsDecimal(VsInt(name+".y", 1000, 2999), 4)
	case 3:
		return "(phrase " + VsBytes(name+".ph", 1, 0x61, 0x7a) + ")"
	}
	return "garbage" + VsBytes(name+".g", 1, 0x61, 0x7a)
}

// vNewNodeOfKind builds a node of the given kind with symbolic data through the public constructor.
func vNewNodeOfKind(name string, kind int) Node {
	switch kind {
	case 1:
		return NewNode(TagBirth, "", "")
	case 2:
		return NewNode(TagResidence, "", "")
	case 3:
		return NewNode(TagEvent, VsBytes(name+".ev", 1, 0x41, 0x5a), "")
	case 4:
		return NewNode(TagDate, vDateValue(name), "")
	case 5:
		if VsChoose(name+".uidform", 2) == 0 {
			return NewNode(UnofficialTagUniqueID, "EE13561DDB204985BFFDEEBF82A5226C"[:31]+VsBytes(name+".hex", 1, 0x30, 0x39), "")
		}
		VsClass("malformed-unique-id")
		return NewNode(UnofficialTagUniqueID, "XY", "")
	case 6:
		return NewNode(TagName, "Ann /"+VsBytes(name+".sn", 1, 0x41, 0x5a)+"/", "")
	case 7:
		return NewNode(TagPlace, VsBytes(name+".pl", 1, 0x41, 0x5a), "")
	case 8:
		// an early year written with leading zeros; 0000 parses, but to the zero date (copy harness only)
		return NewNode(TagDate, VsDecimal(VsInt(name+".y0", 0, 999), 4), "")
	}
	return NewNode(TagFromString("ZZ"), VsBytes(name+".v", 1, 0x41, 0x5a), "")
}

// vBuildTree builds a tree of n nodes: shape 0 = root with n-1 children, shape 1 = chain,
// shape 2 (n=4) = root, child, grandchild + second child. Kinds by choice.
func vBuildTree(name string, n, shape int, rootKinds, kinds int) Node {
	root := vNewNodeOfKind(name+".0", VsChoose(name+".0.kind", rootKinds))
	prev := root
	for i := 1; i < n; i++ {
		c := vNewNodeOfKind(fmt.Sprintf("%s.%d", name, i), VsChoose(fmt.Sprintf("%s.%d.kind", name, i), kinds))
		switch {
		case shape == 1:
			prev.AddNode(c)
			prev = c
		case shape == 2 && i == 2:
			prev.AddNode(c)
		default:
			root.AddNode(c)
			prev = c
		}
	}
	return root
}

func vCollect(n Node, into *Nodes) {
	*into = append(*into, n)
	for _, c := range n.Nodes() {
		vCollect(c, into)
	}
}

func vSharesNode(a, b Node) bool {
	var na, nb Nodes
	vCollect(a, &na)
	vCollect(b, &nb)
	for _, x := range na {
		for _, y := range nb {
			if x == y {
				return true
			}
		}
	}
	return false
}

// VerifC07_Copy: a tree of 1..3 nodes of every kind is deep-equal to its deep copy, serialises
// identically, shares no node with it, and neither is changed by changing the other.
// cs: n = cs%3+1, shape = cs/3%2.
func VerifC07_Copy(cs int) {
	n, shape := cs%3+1, cs/3%2
	t := vBuildTree("t", n, shape, len(vKindNames)+1, len(vKindNames)+1) // kind 8: early years, 0000 included
	before := t.GEDCOMString(0)
	cp := DeepCopy(t, NewDocument())
	VsObserve(before)
	VsReach("copied")
	VsAssert("copy-leaves-source-untouched", VsStrEq(t.GEDCOMString(0), before))
	VsAssert("copy-serialises-identically", VsStrEq(cp.GEDCOMString(0), before))
	VsAssert("copy-shares-no-node", !vSharesNode(t, cp))
	eq := DeepEqual(t, cp)
	VsObserve(eq)
	VsAssert("tree-deep-equal-to-its-copy", eq)
	VsAssert("copy-deep-equal-to-its-source", DeepEqual(cp, t))
	// mutate the copy: the source must not change
	cp.AddNode(NewNode(TagFromString("ZZ"), "added", ""))
	if len(cp.Nodes()) > 1 {
		cp.Nodes()[0].AddNode(NewNode(TagFromString("ZZ"), "deep", ""))
	}
	VsAssert("changing-the-copy-leaves-source-untouched", VsStrEq(t.GEDCOMString(0), before))
	// and the other way around
	cp2 := DeepCopy(t, NewDocument())
	t.AddNode(NewNode(TagFromString("ZZ"), "added", ""))
	if len(t.Nodes()) > 1 {
		t.DeleteNode(t.Nodes()[0])
	}
	VsAssert("changing-the-source-leaves-copy-untouched", VsStrEq(cp2.GEDCOMString(0), before))
}

var vPerms3 = [][]int{{0, 1, 2}, {0, 2, 1}, {1, 0, 2}, {1, 2, 0}, {2, 0, 1}, {2, 1, 0}}

// VerifC07_Permute: a root with 2 or 3 children (each optionally with one child of its own) is
// deep-equal to every re-ordering of its children. cs: k = cs%2+2 children, grandchildren by cs/2%2.
func VerifC07_Permute(cs int) {
	k := cs%2 + 2
	withGrand := cs/2%2 == 1
	mk := func() (Node, Nodes) {
		root := NewNode(TagFromString("ROOT"), "", "")
		var kids Nodes
		for i := 0; i < k; i++ {
			c := vNewNodeOfKind(fmt.Sprintf("c%d", i), VsChoose(fmt.Sprintf("c%d.kind", i), len(vKindNames)))
			if withGrand {
				c.AddNode(vNewNodeOfKind(fmt.Sprintf("g%d", i), 4*VsChoose(fmt.Sprintf("g%d.kind", i), 2)))
			}
			kids = append(kids, c)
		}
		return root, kids
	}
	root, kids := mk()
	for _, c := range kids {
		root.AddNode(c)
	}
	perm := vPerms3[VsChoose("perm", 6)]
	other := NewNode(TagFromString("ROOT"), "", "")
	for _, j := range perm {
		if j < k {
			other.AddNode(DeepCopy(kids[j], NewDocument()))
		}
	}
	e1, e2 := DeepEqual(root, other), DeepEqual(other, root)
	VsObserve(root.GEDCOMString(0))
	VsObserve(e1)
	VsReach("permuted")
	VsAssert("deep-equal-to-reordered-copy", e1)
	VsAssert("reordered-copy-deep-equal-to-tree", e2)
}

// VerifC07_Symmetry: two independent small trees. cs: na = cs%2+1, nb = cs/2%2+1 nodes (chains).
func VerifC07_Symmetry(cs int) {
	a := vBuildTree("a", cs%2+1, 1, len(vKindNames), len(vKindNames))
	b := vBuildTree("b", cs/2%2+1, 1, len(vKindNames), len(vKindNames))
	ab, ba := DeepEqual(a, b), DeepEqual(b, a)
	VsObserve(a.GEDCOMString(0))
	VsObserve(b.GEDCOMString(0))
	VsObserve(ab)
	VsObserve(ba)
	VsReach("symmetry-compared")
	VsAssert("deep-equality-is-symmetric", ab == ba)
}

// VerifC07_Edit: a tree and a copy that differs by one plain node (added, removed or changed value)
// are never deep-equal. cs: n = cs%3+1, shape = cs/3%2, edit = cs/6%3.
func VerifC07_Edit(cs int) {
	n, shape, edit := cs%3+1, cs/3%2, cs/6%3
	t := vBuildTree("t", n, shape, len(vKindNames), len(vKindNames))
	cp := DeepCopy(t, NewDocument())
	var all Nodes
	vCollect(cp, &all)
	target := all[VsChoose("where", len(all))]
	switch edit {
	case 0: // insert a plain node
		target.AddNode(NewNode(TagFromString("ZZ"), VsBytes("new", 1, 0x41, 0x5a), ""))
	case 1: // delete a plain leaf
		var plainLeaves Nodes
		for _, p := range all {
			for _, c := range p.Nodes() {
				if c.Tag().Tag() == "ZZ" && len(c.Nodes()) == 0 {
					plainLeaves = append(plainLeaves, c)
				}
			}
		}
		if len(plainLeaves) == 0 {
			VsReach("edit-not-applicable")
			return
		}
		victim := plainLeaves[VsChoose("victim", len(plainLeaves))]
		for _, p := range all {
			p.DeleteNode(victim)
		}
	default: // change the value of a plain node
		if target.Tag().Tag() != "ZZ" {
			VsReach("edit-not-applicable")
			return
		}
		nv := VsBytes("changed", 1, 0x41, 0x5a)
		VsAssume(VsNot(VsStrEq(nv, target.Value())))
		target.RawSimpleNode().value = nv
	}
	// Parents with a lenient equality of their own (RESI: "same date is enough") are outside the
	// statement ("differ by an added, removed or changed plain node" under plain parents).
	e1, e2 := DeepEqual(t, cp), DeepEqual(cp, t)
	VsObserve(t.GEDCOMString(0))
	VsObserve(cp.GEDCOMString(0))
	VsObserve(e1)
	VsReach("edited")
	VsAssert("edited-copy-not-deep-equal", !e1)
	VsAssert("tree-not-deep-equal-to-edited-copy", !e2)
}

// VerifC07_PermuteDeep: permutation one level down: a child of each of the 8 kinds (cs%8) with 2 or 3
// children of its own (cs/8%2; plain, PLAC and NAME values symbolic, optionally an exact-year DATE by
// cs/16%2) is deep-equal to a copy whose grandchildren are re-ordered, in both directions, directly
// and inside a root.
func VerifC07_PermuteDeep(cs int) {
	kind, n, dated := cs%8, cs/8%2+2, cs/16%2 == 1
	mkGrand := func(i int) Node {
		if dated && i == 0 {
			return NewNode(TagDate, VsDecimal(VsInt("gy", 1000, 2999), 4), "")
		}
		return vNewNodeOfKind(fmt.Sprintf("g%d", i), []int{0, 7, 6}[i])
	}
	child := vNewNodeOfKind("c", kind)
	var grands Nodes
	for i := 0; i < n; i++ {
		g := mkGrand(i)
		grands = append(grands, g)
		child.AddNode(g)
	}
	perm := vPerms3[VsChoose("perm", 6)]
	copyChild := child.ShallowCopy()
	for _, j := range perm {
		if j < n {
			copyChild.AddNode(DeepCopy(grands[j], NewDocument()))
		}
	}
	VsObserve(child.GEDCOMString(0))
	VsObserve(copyChild.GEDCOMString(0))
	VsReach("permuted-one-level-down")
	VsClass(vKindNames[kind])
	VsAssert("deep-equal-to-copy-with-reordered-grandchildren", DeepEqual(child, copyChild))
	VsAssert("copy-with-reordered-grandchildren-deep-equal-to-node", DeepEqual(copyChild, child))
	root, other := NewNode(TagFromString("ROOT"), "", ""), NewNode(TagFromString("ROOT"), "", "")
	root.AddNode(child)
	other.AddNode(copyChild)
	VsAssert("trees-deep-equal-when-grandchildren-are-reordered", DeepEqual(root, other) && DeepEqual(other, root))
}
