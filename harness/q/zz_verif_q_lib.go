package q

import (
	"bytes"
	"fmt"

	"github.com/elliotchance/gedcom/v39"
	. "github.com/elliotchance/gedcom/v39/internal/vsym"
)

const vQDocText = "0 HEAD\n" +
	"0 @I1@ INDI\n1 NAME John /Smith/\n1 SEX M\n1 BIRT\n2 DATE 3 Sep 1843\n2 PLAC Sydney, Australia\n1 DEAT\n2 DATE 1 Jan 1900\n1 FAMS @F1@\n" +
	"0 @I2@ INDI\n1 NAME Jane /Doe/\n1 SEX F\n1 BIRT\n2 DATE 1850\n1 FAMS @F1@\n" +
	"0 @I3@ INDI\n1 NAME Bob /Smith/\n1 BIRT\n2 DATE 1875\n1 FAMC @F1@\n" +
	"0 @F1@ FAM\n1 HUSB @I1@\n1 WIFE @I2@\n1 CHIL @I3@\n" +
	"0 TRLR\n"

// vQDocs: 0 = the small family, 1 = an empty document, 2 = one individual only, 3 = two documents.
func vQDocs(which int) []*gedcom.Document {
	mk := func(text string) *gedcom.Document {
		d, err := gedcom.NewDocumentFromString(text)
		VsAssume(err == nil)
		return d
	}
	switch which {
	case 1:
		return []*gedcom.Document{mk("")}
	case 2:
		return []*gedcom.Document{mk("0 @I1@ INDI\n1 NAME Solo /One/\n")}
	case 3:
		return []*gedcom.Document{mk(vQDocText), mk("0 @I1@ INDI\n1 NAME John /Smith/\n1 BIRT\n2 DATE 1843\n0 @P7@ INDI\n1 NAME Other /Person/\n")}
	}
	return []*gedcom.Document{mk(vQDocText)}
}

type vQOutcome struct {
	parseErr, evalErr error
	result            interface{}
	panicked          bool
	panicMsg          string
	where             string
}

// vQRun parses and evaluates a query and hands the result to all five formatters. A panic that
// reaches this function is what would end 'gedcom query'.
func vQRun(query string, docs []*gedcom.Document) (o vQOutcome) {
	o.where = "parse"
	defer func() {
		if r := recover(); r != nil {
			o.panicked = true
			o.panicMsg = fmt.Sprint(r)
		}
	}()
	engine, err := NewParser().ParseString(query)
	if err != nil {
		o.parseErr = err
		return
	}
	o.where = "evaluate"
	o.result, o.evalErr = engine.Evaluate(docs)
	if o.evalErr != nil {
		return
	}
	for _, f := range []string{"json", "pretty-json", "csv", "gedcom", "html"} {
		o.where = "format:" + f
		buf := bytes.NewBuffer(nil)
		switch f {
		case "json":
			_ = (&JSONFormatter{Writer: buf}).Write(o.result)
		case "pretty-json":
			_ = (&PrettyJSONFormatter{Writer: buf}).Write(o.result)
		case "csv":
			_ = (&CSVFormatter{Writer: buf}).Write(o.result)
		case "gedcom":
			_ = (&GEDCOMFormatter{Writer: buf}).Write(o.result)
		default:
			_ = (&HTMLFormatter{Writer: buf}).Write(o.result)
		}
	}
	o.where = "done"
	return
}

func vQJSON(v interface{}) string {
	buf := bytes.NewBuffer(nil)
	if err := (&JSONFormatter{Writer: buf}).Write(v); err != nil {
		return "error: " + err.Error()
	}
	return buf.String()
}

// vQEval evaluates a query that must be well-formed; returns its JSON.
func vQEval(query string, docs []*gedcom.Document) (string, bool) {
	engine, err := NewParser().ParseString(query)
	if err != nil {
		return "parse error: " + err.Error(), false
	}
	res, err := engine.Evaluate(docs)
	if err != nil {
		return "evaluate error: " + err.Error(), false
	}
	return vQJSON(res), true
}
