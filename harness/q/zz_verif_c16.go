package q

import (
	"strings"

	"github.com/elliotchance/gedcom/v39"
	. "github.com/elliotchance/gedcom/v39/internal/vsym"
)

// ---------- reference semantics of the comparison operators (written from the statement) ----------

// The operand alphabet: digits, sign, point, blanks and letters of both cases. Letters that start
// the exponent / inf / nan / hex spellings of strconv are left to the concrete cases below.
const vC16Alphabet = "0123456789.-+ \tbBzZ"

type vC16Num struct {
	ok    bool
	neg   bool
	num   int // digits read as one integer
	scale int // 10^(digits after the point)
}

// vC16Number: [+-]? ( digits [. digits*] | . digits ); blanks are not part of a number.
func vC16Number(s string) vC16Num {
	n := vC16Num{scale: 1}
	i := 0
	if len(s) > 0 && (s[0] == '-' || s[0] == '+') {
		n.neg = s[0] == '-'
		i = 1
	}
	digits := 0
	dot := false
	for ; i < len(s); i++ {
		c := s[i]
		if c >= '0' && c <= '9' {
			n.num = n.num*10 + int(c-'0')
			digits++
			if dot {
				n.scale *= 10
			}
			continue
		}
		if c == '.' && !dot {
			dot = true
			continue
		}
		return vC16Num{}
	}
	n.ok = digits > 0
	return n
}

func (n vC16Num) signed() int {
	if n.neg {
		return -n.num
	}
	return n.num
}

func vC16Blank(c byte) bool {
	return c == ' ' || c == '\t' || c == '\n' || c == '\r' || c == '\v' || c == '\f'
}

// vC16Text: trimmed, lower-cased (ASCII operands only).
func vC16Text(s string) string {
	for len(s) > 0 && vC16Blank(s[0]) {
		s = s[1:]
	}
	for len(s) > 0 && vC16Blank(s[len(s)-1]) {
		s = s[:len(s)-1]
	}
	out := make([]byte, len(s))
	for i := 0; i < len(s); i++ {
		c := s[i]
		if c >= 'A' && c <= 'Z' {
			c += 'a' - 'A'
		}
		out[i] = c
	}
	return string(out)
}

// vC16Order: -1, 0, +1 for text.
func vC16Order(s, t string) int {
	for i := 0; i < len(s) && i < len(t); i++ {
		if s[i] < t[i] {
			return -1
		}
		if s[i] > t[i] {
			return 1
		}
	}
	switch {
	case len(s) < len(t):
		return -1
	case len(s) > len(t):
		return 1
	}
	return 0
}

// vC16Reference returns the documented order of two operands and whether the statement decides it:
// an operand that is only a number once its blanks are trimmed is read as a number by one reading of
// the statement and as text by the other, so the order is left open there (the laws still apply).
func vC16Reference(l, r string) (order int, decided bool) {
	nl, nr := vC16Number(l), vC16Number(r)
	if nl.ok && nr.ok {
		a, b := nl.signed()*nr.scale, nr.signed()*nl.scale
		switch {
		case a < b:
			return -1, true
		case a > b:
			return 1, true
		}
		return 0, true
	}
	tl, tr := vC16Text(l), vC16Text(r)
	if (nl.ok || vC16Number(tl).ok) && (nr.ok || vC16Number(tr).ok) {
		return 0, false
	}
	return vC16Order(tl, tr), true
}

type vC16Verdicts struct {
	eq, ne, lt, gt, le, ge bool
	ok                     bool
}

func vC16Apply(op string, l, r Expression) (bool, bool) {
	v, err := (&BinaryExpr{Left: l, Right: r, Operator: op}).Evaluate(&Engine{}, nil, nil)
	if err != nil {
		return false, false
	}
	b, ok := v.(bool)
	return b, ok
}

func vC16All(l, r Expression) (v vC16Verdicts) {
	var o [6]bool
	v.eq, o[0] = vC16Apply("=", l, r)
	v.ne, o[1] = vC16Apply("!=", l, r)
	v.lt, o[2] = vC16Apply("<", l, r)
	v.gt, o[3] = vC16Apply(">", l, r)
	v.le, o[4] = vC16Apply("<=", l, r)
	v.ge, o[5] = vC16Apply(">=", l, r)
	v.ok = o[0] && o[1] && o[2] && o[3] && o[4] && o[5]
	return
}

func vC16One(a, b, c bool) bool {
	n := 0
	for _, x := range []bool{a, b, c} {
		if x {
			n++
		}
	}
	return n == 1
}

func vC16Laws(v vC16Verdicts) {
	VsAssert("operators-return-booleans", v.ok)
	VsAssert("not-equal-is-the-negation-of-equal", v.ne == !v.eq)
	VsAssert("exactly-one-of-less-equal-greater", vC16One(v.lt, v.eq, v.gt))
	VsAssert("less-or-equal-is-less-or-equal", v.le == (v.lt || v.eq))
	VsAssert("greater-or-equal-is-greater-or-equal", v.ge == (v.gt || v.eq))
}

var vC16Lens = [][2]int{{0, 0}, {1, 0}, {0, 1}, {1, 1}, {2, 1}, {1, 2}, {2, 2}, {2, 0}, {0, 2},
	{3, 0}, {0, 3}, {3, 1}, {1, 3}, {3, 2}, {2, 3}, {3, 3}}

// VerifC16_Operators: both operands are strings of symbolic bytes; all six operators are applied by
// the real BinaryExpr and compared with the reference order.
func VerifC16_Operators(cs int) {
	ln := vC16Lens[cs%len(vC16Lens)]
	l := VsBytesIn("l", ln[0], vC16Alphabet)
	r := VsBytesIn("r", ln[1], vC16Alphabet)
	v := vC16All(&ConstantExpr{Value: l}, &ConstantExpr{Value: r})
	VsObserve(l)
	VsObserve(r)
	VsObserve(v.eq)
	VsObserve(v.lt)
	VsObserve(v.gt)
	VsReach("operators-applied")
	vC16Laws(v)
	order, decided := vC16Reference(l, r)
	if decided {
		VsAssert("equal-follows-the-documented-comparison", v.eq == (order == 0))
		VsAssert("less-follows-the-documented-comparison", v.lt == (order < 0))
		VsAssert("greater-follows-the-documented-comparison", v.gt == (order > 0))
	}
}

// concrete operand pairs in the spellings that the symbolic alphabet leaves out; want: -1/0/1, 9 = not stated
var vC16Pairs = []struct {
	l, r string
	want int
}{
	{"10", "9", 1}, {"9", "10", -1}, {"abc", " ABC ", 0}, {"b", "B", 0}, {"Zed", "alpha", 1}, {"10", "9a", -1},
	{"1e3", "1000", 0}, {"1E1", "9", 1}, {"0x10", "16", 9}, {"1_000", "1000", 9}, {"inf", "Infinity", 9}, {"-inf", "5", 9},
	{"nan", "nan", 0}, {"NaN", "5", 9}, {"nan", "abc", 9}, {"", "", 0}, {"", "0", -1}, {" 1", "1", 0}, {"1.50", "1.5", 0},
	{"-0", "0", 0}, {"+5", "5", 0}, {".5", "0.5", 0}, {"5.", "5", 0}, {"00012", "12", 0}, {"1.0000000000000001", "1", 9},
	{"99999999999999999999", "99999999999999999998", 9}, {"é", "É", 9}, {"a\tb", "A\tB", 0},
}

// VerifC16_OperatorsParsed: the same laws through the parser ("l" op "r" as the whole query), with
// concrete special spellings (cs < len(pairs)) and with one symbolic byte on each side.
func VerifC16_OperatorsParsed(cs int) {
	var l, r string
	want := 9
	if cs < len(vC16Pairs) {
		l, r, want = vC16Pairs[cs].l, vC16Pairs[cs].r, vC16Pairs[cs].want
	} else {
		l = VsBytesIn("l", 1, vC16Alphabet)
		r = VsBytesIn("r", 1, vC16Alphabet)
		var decided bool
		want, decided = vC16Reference(l, r)
		if !decided {
			want = 9
		}
	}
	docs := vQDocs(2)
	var v vC16Verdicts
	run := func(op string) (bool, bool) {
		engine, err := NewParser().ParseString("\"" + l + "\" " + op + " \"" + r + "\"")
		if err != nil {
			return false, false
		}
		res, err := engine.Evaluate(docs)
		if err != nil {
			return false, false
		}
		b, ok := res.(bool)
		return b, ok
	}
	var o [6]bool
	v.eq, o[0] = run("=")
	v.ne, o[1] = run("!=")
	v.lt, o[2] = run("<")
	v.gt, o[3] = run(">")
	v.le, o[4] = run("<=")
	v.ge, o[5] = run(">=")
	v.ok = o[0] && o[1] && o[2] && o[3] && o[4] && o[5]
	VsObserve(l)
	VsObserve(r)
	VsObserve(v.eq)
	VsObserve(v.lt)
	VsObserve(v.gt)
	VsReach("parsed-operators-applied")
	vC16Laws(v)
	if want != 9 {
		VsAssert("parsed-equal-follows-the-documented-comparison", v.eq == (want == 0))
		VsAssert("parsed-less-follows-the-documented-comparison", v.lt == (want < 0))
		VsAssert("parsed-greater-follows-the-documented-comparison", v.gt == (want > 0))
	}
}

// ---------- functions and accessors against the Go API ----------

// vC16Doc: a family graph whose names, sexes and one pointer-free note hold symbolic bytes.
// people: 0..4 individuals.
func vC16Doc(people int) (*gedcom.Document, string) {
	text := "0 HEAD\n"
	for i := 0; i < people; i++ {
		id := string(rune('1' + i))
		text += "0 @I" + id + "@ INDI\n"
		text += "1 NAME " + VsBytesIn("given"+id, 1, "AaBb 1") + " /" + VsBytesIn("sur"+id, 1, "Aa9") + "/\n"
		if i%2 == 0 {
			text += "1 BIRT\n2 DATE 18" + id + "0\n2 PLAC P" + id + "\n"
		}
		if i == 1 {
			text += "1 BIRT\n2 DATE 1 Jan 1801\n1 BIRT\n2 PLAC Elsewhere\n"
		}
		if i < 2 {
			text += "1 FAMS @F1@\n"
		} else {
			text += "1 FAMC @F1@\n"
		}
	}
	if people >= 2 {
		text += "0 @F1@ FAM\n1 HUSB @I1@\n1 WIFE @I2@\n"
		for i := 2; i < people; i++ {
			text += "1 CHIL @I" + string(rune('1'+i)) + "@\n"
		}
	}
	if people >= 3 {
		// more families, so that lists of families have a prefix, a suffix and a middle
		text += "0 @F2@ FAM\n1 HUSB @I3@\n0 @F3@ FAM\n1 WIFE @I3@\n"
	}
	text += "0 TRLR\n"
	d, err := gedcom.NewDocumentFromString(text)
	VsAssume(err == nil)
	return d, text
}

func vC16FamilyPointers(fs gedcom.FamilyNodes) []string {
	out := []string{}
	for _, f := range fs {
		out = append(out, f.Pointer())
	}
	return out
}

// vC16Views: what the Go API shows of the document (a query must not change it).
func vC16Views(d *gedcom.Document) string {
	s := d.String() + "|"
	for _, i := range d.Individuals() {
		s += i.Pointer() + ","
	}
	return s + "|" + strings.Join(vC16FamilyPointers(d.Families()), ",")
}

func vC16Min(a, b int) int {
	if a < b {
		return a
	}
	return b
}

// vC16TagPath is the tag-path lookup written from its documentation: the children with the first
// tag, then their children with the next tag, ..., in document order.
func vC16TagPath(node gedcom.Node, path ...gedcom.Tag) gedcom.Nodes {
	level := gedcom.Nodes{node}
	for _, tag := range path {
		var next gedcom.Nodes
		for _, n := range level {
			for _, c := range n.Nodes() {
				if c.Tag().Is(tag) {
					next = append(next, c)
				}
			}
		}
		level = next
	}
	return level
}

type vC16Case struct {
	query string
	ref   func(d *gedcom.Document, n int, lit string) interface{}
}

func vC16Names(d *gedcom.Document) []string {
	out := []string{}
	for _, i := range d.Individuals() {
		out = append(out, i.Name().String())
	}
	return out
}

var vC16Cases = []vC16Case{
	{".Individuals", func(d *gedcom.Document, n int, lit string) interface{} { return d.Individuals() }},
	{".Individuals | .Name | .String", func(d *gedcom.Document, n int, lit string) interface{} { return vC16Names(d) }},
	{".Individuals | .Name | .Surname", func(d *gedcom.Document, n int, lit string) interface{} {
		out := []string{}
		for _, i := range d.Individuals() {
			out = append(out, i.Name().Surname())
		}
		return out
	}},
	{".Individuals | .IsLiving", func(d *gedcom.Document, n int, lit string) interface{} {
		out := []bool{}
		for _, i := range d.Individuals() {
			out = append(out, i.IsLiving())
		}
		return out
	}},
	{".Individuals | .Births", func(d *gedcom.Document, n int, lit string) interface{} {
		out := [][]*gedcom.BirthNode{}
		for _, i := range d.Individuals() {
			out = append(out, i.Births())
		}
		return out
	}},
	{".Individuals | .Spouses", func(d *gedcom.Document, n int, lit string) interface{} {
		out := []gedcom.IndividualNodes{}
		for _, i := range d.Individuals() {
			out = append(out, i.Spouses())
		}
		return out
	}},
	{".Families | .Husband | .Individual | .Name | .String", func(d *gedcom.Document, n int, lit string) interface{} {
		out := []string{}
		for _, f := range d.Families() {
			out = append(out, f.Husband().Individual().Name().String())
		}
		return out
	}},
	{".Families | .Children", func(d *gedcom.Document, n int, lit string) interface{} {
		out := []gedcom.ChildNodes{}
		for _, f := range d.Families() {
			out = append(out, f.Children())
		}
		return out
	}},
	{".Individuals | First(%n)", func(d *gedcom.Document, n int, lit string) interface{} {
		all := d.Individuals()
		return all[:vC16Min(n, len(all))]
	}},
	{".Individuals | Last(%n)", func(d *gedcom.Document, n int, lit string) interface{} {
		all := d.Individuals()
		return all[len(all)-vC16Min(n, len(all)):]
	}},
	{".Individuals | .Name | .String | First(%n)", func(d *gedcom.Document, n int, lit string) interface{} {
		all := vC16Names(d)
		return all[:vC16Min(n, len(all))]
	}},
	{".Individuals | .Name | .String | Last(%n)", func(d *gedcom.Document, n int, lit string) interface{} {
		all := vC16Names(d)
		return all[len(all)-vC16Min(n, len(all)):]
	}},
	{".Individuals | Length", func(d *gedcom.Document, n int, lit string) interface{} { return len(d.Individuals()) }},
	{".Individuals | First(%n) | Length", func(d *gedcom.Document, n int, lit string) interface{} {
		return vC16Min(n, len(d.Individuals()))
	}},
	{".Individuals | Last(%n) | First(1) | .Pointer", func(d *gedcom.Document, n int, lit string) interface{} {
		all := d.Individuals()
		out := []string{}
		k := vC16Min(n, len(all))
		if k > 0 {
			out = append(out, all[len(all)-k].Pointer())
		}
		return out
	}},
	{".Individuals | Only(.Name | .Surname = \"%s\")", func(d *gedcom.Document, n int, lit string) interface{} {
		out := gedcom.IndividualNodes{}
		for _, i := range d.Individuals() {
			if order, decided := vC16Reference(i.Name().Surname(), lit); decided && order == 0 {
				out = append(out, i)
			} else if !decided {
				VsAssume(false)
			}
		}
		return out
	}},
	{".Individuals | Only(.Name | .Surname > \"%s\") | .Pointer", func(d *gedcom.Document, n int, lit string) interface{} {
		out := []string{}
		for _, i := range d.Individuals() {
			if order, decided := vC16Reference(i.Name().Surname(), lit); decided && order > 0 {
				out = append(out, i.Pointer())
			} else if !decided {
				VsAssume(false)
			}
		}
		return out
	}},
	{"Combine(.Individuals | First(%n), .Individuals)", func(d *gedcom.Document, n int, lit string) interface{} {
		all := d.Individuals()
		out := gedcom.IndividualNodes{}
		out = append(out, all[:vC16Min(n, len(all))]...)
		out = append(out, all...)
		return out
	}},
	{"Combine(.Families | First(%n), .Families) | .Pointer", func(d *gedcom.Document, n int, lit string) interface{} {
		all := vC16FamilyPointers(d.Families())
		return append(append([]string{}, all[:vC16Min(n, len(all))]...), all...)
	}},
	{"Fams are .Families; Combine(Fams | Last(%n), Fams | First(1)) | .Pointer", func(d *gedcom.Document, n int, lit string) interface{} {
		all := vC16FamilyPointers(d.Families())
		out := append([]string{}, all[len(all)-vC16Min(n, len(all)):]...)
		return append(out, all[:vC16Min(1, len(all))]...)
	}},
	{".Families | Last(%n) | .Pointer", func(d *gedcom.Document, n int, lit string) interface{} {
		all := vC16FamilyPointers(d.Families())
		return all[len(all)-vC16Min(n, len(all)):]
	}},
	{"Cnt is .Families | Length; .Individuals | { p: .Pointer, n: Cnt }", func(d *gedcom.Document, n int, lit string) interface{} {
		out := []map[string]interface{}{}
		for _, i := range d.Individuals() {
			out = append(out, map[string]interface{}{"p": i.Pointer(), "n": len(i.Families())})
		}
		return out
	}},
	{".Individuals | .Name | .GivenName = .Surname", func(d *gedcom.Document, n int, lit string) interface{} {
		// both sides are evaluated on the current element
		out := []bool{}
		for _, i := range d.Individuals() {
			order, decided := vC16Reference(i.Name().GivenName(), i.Name().Surname())
			if !decided {
				VsAssume(false)
			}
			out = append(out, order == 0)
		}
		return out
	}},
	{".Individuals | .Name | .Surname >= .GivenName", func(d *gedcom.Document, n int, lit string) interface{} {
		out := []bool{}
		for _, i := range d.Individuals() {
			order, decided := vC16Reference(i.Name().Surname(), i.Name().GivenName())
			if !decided {
				VsAssume(false)
			}
			out = append(out, order >= 0)
		}
		return out
	}},
	{".Individuals | NodesWithTagPath(\"BIRT\", \"DATE\")", func(d *gedcom.Document, n int, lit string) interface{} {
		out := gedcom.Nodes{}
		for _, i := range d.Individuals() {
			out = append(out, vC16TagPath(i, gedcom.TagBirth, gedcom.TagDate)...)
		}
		return out
	}},
	{".Individuals | NodesWithTagPath(\"BIRT\")", func(d *gedcom.Document, n int, lit string) interface{} {
		out := gedcom.Nodes{}
		for _, i := range d.Individuals() {
			out = append(out, vC16TagPath(i, gedcom.TagBirth)...)
		}
		return out
	}},
	{".Individuals | { name: .Name | .String, p: .Pointer, born: .Births | Length }", func(d *gedcom.Document, n int, lit string) interface{} {
		out := []map[string]interface{}{}
		for _, i := range d.Individuals() {
			out = append(out, map[string]interface{}{"name": i.Name().String(), "p": i.Pointer(), "born": len(i.Births())})
		}
		return out
	}},
	{"Names are .Individuals | .Name | .String; Names | Last(%n)", func(d *gedcom.Document, n int, lit string) interface{} {
		all := vC16Names(d)
		return all[len(all)-vC16Min(n, len(all)):]
	}},
}

// vC16Norm: a nil list and an empty list are the same result.
func vC16Norm(json string) string {
	json = strings.TrimSpace(json)
	if json == "null" {
		return "[]"
	}
	return json
}

func vC16Fill(query string, n int, lit string) string {
	if strings.Contains(query, "%n") {
		query = strings.Replace(query, "%n", VsDecimal(n, 1), -1)
	}
	return strings.Replace(query, "%s", lit, -1)
}

// VerifC16_Functions: cs%len(cases) picks the query, cs/len(cases) the number of people (0..4).
// n is a symbolic digit 0..9, the literal one symbolic byte.
func VerifC16_Functions(cs int) {
	c := vC16Cases[cs%len(vC16Cases)]
	people := cs / len(vC16Cases) % 5
	if people > 2 && strings.Contains(c.query, "Name | .") && strings.Contains(c.query, ".GivenName") && strings.Contains(c.query, ".Surname") {
		// both operands of the operator are symbolic names of every person: with more than two people the
		// reference comparison alone takes a quarter of an hour; two people show the per-element evaluation
		return
	}
	d, _ := vC16Doc(people)
	n := 0
	if strings.Contains(c.query, "%n") {
		n = VsInt("n", 0, 9)
	}
	lit := ""
	if strings.Contains(c.query, "%s") {
		lit = VsBytesIn("lit", 1, "Aa9 ")
	}
	query := vC16Fill(c.query, n, lit)
	want := vQJSON(c.ref(d, n, lit))
	before := vC16Views(d)
	got, ok := vQEval(query, []*gedcom.Document{d})
	VsAssert("query-leaves-the-document-as-it-was", vC16Views(d) == before)
	VsObserve(query)
	VsObserve(got)
	VsObserve(want)
	VsReach("query-compared-with-the-go-api")
	VsAssert("well-typed-query-evaluates", ok)
	VsAssert("query-result-equals-the-go-api", vC16Norm(got) == vC16Norm(want))
}

// ---------- algebraic identities and determinism ----------

var vC16Exprs = []string{".Individuals", ".Individuals | .Name", ".Families", ".Individuals | First(%n)",
	".Individuals | Last(%n)", ".Individuals | Only(.Name | .Surname = \"%s\")", ".Individuals | NodesWithTagPath(\"BIRT\")"}

var vC16Stages = []string{"Length", "First(%n)", "Last(1)", ".String", "{ s: .String }"}

// VerifC16_Algebra: cs%len(exprs) = expression E, cs/len(exprs)%5 = people.
func VerifC16_Algebra(cs int) {
	e := vC16Exprs[cs%len(vC16Exprs)]
	people := cs / len(vC16Exprs) % 4
	d, _ := vC16Doc(people)
	docs := []*gedcom.Document{d}
	n := VsInt("n", 0, 9)
	lit := VsBytesIn("lit", 1, "Aa9 ")
	e = vC16Fill(e, n, lit)
	stage := vC16Fill(vC16Stages[VsChoose("stage", len(vC16Stages))], n, lit)

	// a variable is interchangeable with its definition
	inl, ok1 := vQEval(e+" | "+stage, docs)
	viaVar, ok2 := vQEval("V is "+e+"; V | "+stage, docs)
	VsObserve(e)
	VsObserve(stage)
	VsObserve(inl)
	VsReach("identities-evaluated")
	VsAssert("identity-queries-evaluate", ok1 && ok2)
	VsAssert("variable-is-interchangeable-with-its-definition", inl == viaVar)

	// the same query on the same document gives the same result
	again, _ := vQEval(e+" | "+stage, docs)
	VsAssert("same-query-same-result", inl == again)

	// Combine(E, E) | Length = 2 x (E | Length)
	one, ok3 := vQEval(e+" | Length", docs)
	two, ok4 := vQEval("E is "+e+"; Combine(E, E) | Length", docs)
	VsAssert("length-queries-evaluate", ok3 && ok4)
	eng, _ := NewParser().ParseString(e + " | Length")
	res, _ := eng.Evaluate(docs)
	ln, isInt := res.(int)
	VsAssert("length-is-a-number", isInt)
	VsAssert("combine-doubles-the-length", two == vQJSON(2*ln))
	_ = one

	// Only(p) and Only(not p) partition the list, each keeping the order
	yes, ok5 := vQEval(e+" | Only(.String = \""+lit+"\") | .String", docs)
	no, ok6 := vQEval(e+" | Only(.String != \""+lit+"\") | .String", docs)
	all, ok7 := vQEval(e+" | .String", docs)
	VsAssert("filter-queries-evaluate", ok5 && ok6 && ok7)
	ey, _ := NewParser().ParseString(e + " | Only(.String = \"" + lit + "\") | Length")
	ry, _ := ey.Evaluate(docs)
	en, _ := NewParser().ParseString(e + " | Only(.String != \"" + lit + "\") | Length")
	rn, _ := en.Evaluate(docs)
	ny, _ := ry.(int)
	nn, _ := rn.(int)
	VsAssert("only-p-and-only-not-p-partition-the-list", ny+nn == ln)
	if nn == 0 {
		VsAssert("only-keeps-the-order", yes == all)
	}
	if ny == 0 {
		VsAssert("only-keeps-the-order", no == all)
	}
}

var vC16Leads = []string{"\xc3", "\xc4", "\xce", "\xcf", "\xd0", "\xc5"}

// VerifC16_OperatorsUnicode: the operator laws on text outside ASCII: each operand is a two-byte
// character of one block (lead byte by case: Latin-1 supplement, Latin extended-A with dotted / dotless
// i, Latin extended-A second half, Greek with the three sigmas, Cyrillic; second byte 0x80..0xbf by
// choice: the case mapping of a multi-byte character is not symbolic in the engine) optionally followed
// by a letter. cs%6: block; cs/6%2: with a trailing "s".
func VerifC16_OperatorsUnicode(cs int) {
	tail := []string{"", "s"}[cs/6%2]
	second := func(name string) string { return string([]byte{byte(0x80 + VsChoose(name, 64))}) }
	l := vC16Leads[cs%6] + second("l") + tail
	r := vC16Leads[cs%6] + second("r") + tail
	v := vC16All(&ConstantExpr{Value: l}, &ConstantExpr{Value: r})
	VsObserve(l)
	VsObserve(r)
	VsObserve(v.eq)
	VsObserve(v.lt)
	VsReach("unicode-operators-applied")
	vC16Laws(v)
	// the same text is equal to itself, also with surrounding blanks
	same := vC16All(&ConstantExpr{Value: l}, &ConstantExpr{Value: " " + l + "\t"})
	VsAssert("text-is-equal-to-itself-with-blanks-around", same.eq && !same.lt && !same.gt)
}
