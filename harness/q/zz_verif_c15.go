package q

import (
	"strings"

	. "github.com/elliotchance/gedcom/v39/internal/vsym"
)

var vQSources = []string{".Individuals", ".Families", ".Nodes", "?", ".Individuals | First(1)", "Document1", "Document2", ".Bogus", ""}

// stage templates; %n is replaced by a symbolic decimal digit
var vQStages = []string{
	".Name", ".Name | .String", ".String", ".Nodes", ".Pointer", ".Birth", ".Families", ".Husband", ".Individual", ".Tag", ".IsLiving",
	".Bogus", ".name", ".",
	"First(%n)", "Last(%n)", "Length", "First", "First(1, 2)", "Last()",
	"Only(.Name | .String = \"John Smith\")", "Only(.Pointer != \"I1\")", "Only(.Bogus)", "Only()",
	"Combine(.Name | .String, .Pointer)", "Combine(.Individuals, .Families)", "Combine", "Combine(.Name)",
	"NodesWithTagPath(BIRT, DATE)", "NodesWithTagPath(BIRT)", "NodesWithTagPath()", "NodesWithTagPath",
	"{ name: .Name | .String, p: .Pointer }", "{ x: .Bogus }", "{}",
	"?", "Undefined", "MergeDocumentsAndIndividuals(Document1, Document2)", "MergeDocumentsAndIndividuals(Document1)",
	".Pointer = \"I1\"", ".Pointer > 5", ".Name | .String < \"K\"",
}

// vQMsgClass: the beginning of a panic message without volatile parts.
func vQMsgClass(msg string) string {
	if i := strings.Index(msg, "\n"); i >= 0 {
		msg = msg[:i]
	}
	if len(msg) > 56 {
		msg = msg[:56]
	}
	return strings.Map(func(r rune) rune {
		if r >= '0' && r <= '9' {
			return 'N'
		}
		if r == ',' || r == '/' {
			return ' '
		}
		return r
	}, msg)
}

func vQStage(name string) string {
	s := vQStages[VsChoose(name, len(vQStages))]
	if strings.Contains(s, "%n") {
		s = strings.Replace(s, "%n", VsDecimal(VsInt(name+".n", 0, 9), 1), 1)
	}
	return s
}

// VerifC15_Eval: source | stage | stage over every combination of the templates. cs: documents = cs%4,
// pipeline depth = cs/4%2+1.
func VerifC15_Eval(cs int) {
	docs := vQDocs(cs % 4)
	depth := cs/4%2 + 1
	query := vQSources[VsChoose("source", len(vQSources))]
	for i := 0; i < depth; i++ {
		st := vQStage([]string{"stage1", "stage2"}[i])
		if query == "" {
			query = st
		} else {
			query += " | " + st
		}
	}
	before := docs[0].String()
	o := vQRun(query, docs)
	VsObserve(query)
	VsObserve(o.panicked)
	VsObserve(o.where)
	VsReach("query-evaluated")
	if o.panicked {
		VsClassSet(o.where + ":" + vQMsgClass(o.panicMsg))
	}
	VsAssert("query-returns-a-value-or-an-error", !o.panicked)
	VsAssert("querying-leaves-the-document-untouched", docs[0].String() == before)
}

var vQSpecials = []string{
	"X is X; X", "X is Y; Y is X; X", "Names are .Individuals | .Name; Names | Names", "A is .Individuals; B is A | First(1); B | B",
	"Combine | ?", ".Individuals | .Nodes | First(1) | .Nodes", ".Individuals | .Nodes | .Nodes | .Nodes | Length",
	"Document3", "Document1 | Document1", ".Individuals | Only(?)", "First(1)", "{ a: { b: { c: ? } } }",
	".Individuals | { n: .Name | Undefined }", ".Individuals | Only(.Name | .String = ) ", ") (", "\"", "| |", "X is ;", ";;;",
}

// VerifC15_Special: hand-picked hostile programs (self reference, nil pipelines, syntax garbage).
func VerifC15_Special(cs int) {
	docs := vQDocs(cs / len(vQSpecials) % 2 * 3)
	query := vQSpecials[cs%len(vQSpecials)]
	o := vQRun(query, docs)
	VsObserve(query)
	VsObserve(o.panicked)
	VsObserve(o.where)
	VsReach("special-query-evaluated")
	if o.panicked {
		VsClassSet(o.where + ":" + vQMsgClass(o.panicMsg))
	}
	VsAssert("special-query-returns-a-value-or-an-error", !o.panicked)
}

// VerifC15_Parse: the query is cs%4 symbolic ASCII bytes: tokenizer and parser must return an engine
// or an error.
func VerifC15_Parse(cs int) {
	query := VsBytes("q", cs%4, 0x20, 0x7e)
	panicked := false
	func() {
		defer func() {
			if r := recover(); r != nil {
				panicked = true
			}
		}()
		_, _ = NewParser().ParseString(query)
	}()
	VsObserve(query)
	VsReach("query-parsed")
	VsAssert("parsing-returns-an-engine-or-an-error", !panicked)
}
