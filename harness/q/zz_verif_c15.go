package q

import (
	"strings"

	. "github.com/elliotchance/gedcom/v39/internal/vsym"
)

var vQSources = []string{".Individuals", ".Families", ".Nodes", "?", ".Individuals | First(1)", "Document1", "Document2", ".Bogus", ""}

// stage templates; %n is replaced by a symbolic decimal digit
var vQStages = []string{
	".Name", ".Name | .String", ".String", ".Nodes", ".Pointer", ".Birth", ".Families", ".Husband", ".Individual", ".Tag", ".IsLiving",
	".Bogus", ".name", ".",
	"First(%n)", "Last(%n)", "Length", "First", "First(1, 2)", "Last()",
	"Only(.Name | .String = \"John Smith\")", "Only(.Pointer != \"I1\")", "Only(.Bogus)", "Only()",
	"Combine(.Name | .String, .Pointer)", "Combine(.Individuals, .Families)", "Combine", "Combine(.Name)",
	"NodesWithTagPath(BIRT, DATE)", "NodesWithTagPath(BIRT)", "NodesWithTagPath()", "NodesWithTagPath",
	"{ name: .Name | .String, p: .Pointer }", "{ x: .Bogus }", "{}",
	"?", "Undefined", "MergeDocumentsAndIndividuals(Document1, Document2)", "MergeDocumentsAndIndividuals(Document1)",
	".Pointer = \"I1\"", ".Pointer > 5", ".Name | .String < \"K\"",
}

// vQMsgClass: the beginning of a panic message without volatile parts.
func vQMsgClass(msg string) string {
	if i := strings.Index(msg, "\n"); i >= 0 {
		msg = msg[:i]
	}
	if len(msg) > 56 {
		msg = msg[:56]
	}
	return strings.Map(func(r rune) rune {
		if r >= '0' && r <= '9' {
			return 'N'
		}
		if r == ',' || r == '/' {
			return ' '
		}
		return r
	}, msg)
}

func vQStage(name string) string {
	s := vQStages[VsChoose(name, len(vQStages))]
	if strings.Contains(s, "%n") {
		s = strings.Replace(s, "%n", VsDecimal(VsInt(name+".n", 0, 9), 1), 1)
	}
	return s
}

// VerifC15_Eval: source | stage | stage over every combination of the templates. cs: documents = cs%4,
// pipeline depth = cs/4%2+1.
func VerifC15_Eval(cs int) {
	docs := vQDocs(cs % 4)
	depth := cs/4%2 + 1
	query := vQSources[VsChoose("source", len(vQSources))]
	for i := 0; i < depth; i++ {
		st := vQStage([]string{"stage1", "stage2"}[i])
		if query == "" {
			query = st
		} else {
			query += " | " + st
		}
	}
	before := docs[0].String()
	o := vQRun(query, docs)
	VsObserve(query)
	VsObserve(o.panicked)
	VsObserve(o.where)
	VsReach("query-evaluated")
	if o.panicked {
		VsClassSet(o.where + ":" + vQMsgClass(o.panicMsg))
	}
	VsAssert("query-returns-a-value-or-an-error", !o.panicked)
	VsAssert("querying-leaves-the-document-untouched", docs[0].String() == before)
}

var vQSpecials = []string{
	"X is X; X", "X is Y; Y is X; X", "Names are .Individuals | .Name; Names | Names", "A is .Individuals; B is A | First(1); B | B",
	"Combine | ?", ".Individuals | .Nodes | First(1) | .Nodes", ".Individuals | .Nodes | .Nodes | .Nodes | Length",
	"Document3", "Document1 | Document1", ".Individuals | Only(?)", "First(1)", "{ a: { b: { c: ? } } }",
	".Individuals | .Nodes | {a: .Tag} | .a", ".Individuals | .Nodes | {a: .Tag} | Only(.a = \"x\")", ".Individuals | .Nodes | .Tag = \"NAME\" | .Foo",
	".Individuals | .Families | .Pointer = \"F1\" | Only(. = true)", ".Individuals | .Nodes | {a: .Tag} | Combine(., .)", ".Individuals | .Nodes | {a: .Tag} | Last(1) | {b: .a} | ?",
	"X is X; X is 1; X", "X is 1; X is X; X", "A is B; B is A; B is .Individuals; A | Length", "N is First(N); N is 1; .Individuals | First(N)", "O is {o: O}; O is 2; O",
	"X is Y; Y is 1; Y is X; X", "X is .Individuals; X is X | Length; X",
	".Individuals | { n: .Name | Undefined }", ".Individuals | Only(.Name | .String = ) ", ") (", "\"", "| |", "X is ;", ";;;",
}

// VerifC15_Special: hand-picked hostile programs (self reference, nil pipelines, syntax garbage).
func VerifC15_Special(cs int) {
	docs := vQDocs(cs / len(vQSpecials) % 2 * 3)
	query := vQSpecials[cs%len(vQSpecials)]
	o := vQRun(query, docs)
	VsObserve(query)
	VsObserve(o.panicked)
	VsObserve(o.where)
	VsReach("special-query-evaluated")
	if o.panicked {
		VsClassSet(o.where + ":" + vQMsgClass(o.panicMsg))
	}
	VsAssert("special-query-returns-a-value-or-an-error", !o.panicked)
}

// VerifC15_Parse: the query is cs%4 symbolic ASCII bytes: tokenizer and parser must return an engine
// or an error.
func VerifC15_Parse(cs int) {
	query := VsBytes("q", cs%4, 0x20, 0x7e)
	panicked := false
	func() {
		defer func() {
			if r := recover(); r != nil {
				panicked = true
			}
		}()
		_, _ = NewParser().ParseString(query)
	}()
	VsObserve(query)
	VsReach("query-parsed")
	VsAssert("parsing-returns-an-engine-or-an-error", !panicked)
}

var vQAccessorSources = []string{"", ".Individuals", ".Families", ".Individuals | First(1)", ".Individuals | .Name", ".Individuals | .Birth",
	".Families | .Husband", ".Nodes", ".Individuals | .Name | .String", ".Individuals | Length"}

// VerifC15_Accessors: every accessor that reflection exposes on the result of a source (the list that
// "source | ?" prints) is applied to that source, on the 4 document sets. cs%len(sources) = source,
// cs/len(sources)%4 = documents.
func VerifC15_Accessors(cs int) {
	source := vQAccessorSources[cs%len(vQAccessorSources)]
	which := cs / len(vQAccessorSources) % 4
	list := "?"
	if source != "" {
		list = source + " | ?"
	}
	engine, err := NewParser().ParseString(list)
	VsAssume(err == nil)
	res, err := engine.Evaluate(vQDocs(which))
	VsAssume(err == nil)
	names, _ := res.([]string)
	VsReach("accessors-listed")
	tried := 0
	for _, name := range names {
		if !strings.HasPrefix(name, ".") {
			continue
		}
		query := name
		if source != "" {
			query = source + " | " + name
		}
		o := vQRun(query, vQDocs(which)) // fresh documents: accessors such as .AddNode would modify them
		tried++
		if o.panicked {
			VsClassSet(name + ":" + o.where + ":" + vQMsgClass(o.panicMsg))
		}
		VsAssert("accessor-returns-a-value-or-an-error", !o.panicked)
	}
	// names of struct fields, exported and unexported (a documented accessor typed without its capital
	// letter often is one): every accessor in lower case and in camel case, and the fields of the node types
	fields := append([]string{}, vQFieldNames...)
	for _, name := range names {
		if strings.HasPrefix(name, ".") && len(name) > 1 {
			fields = append(fields, strings.ToLower(name[1:2])+name[2:], strings.ToLower(name[1:]))
		}
	}
	for _, f := range fields {
		query := "." + f
		if source != "" {
			query = source + " | ." + f
		}
		o := vQRun(query, vQDocs(which))
		if o.panicked {
			VsClassSet("field ." + f + ":" + o.where + ":" + vQMsgClass(o.panicMsg))
		}
		VsAssert("field-accessor-returns-a-value-or-an-error", !o.panicked)
		o = vQRun(strings.TrimPrefix(source+" | ", " | ")+"{ f: ."+f+" } | Only(."+f+" = \"\")", vQDocs(which))
		VsAssert("field-accessor-in-object-and-filter-returns-a-value-or-an-error", !o.panicked)
	}
	VsObserve(tried)
	VsAssert("some-accessors-were-tried", tried > 0 || len(names) > 0)
}

// struct fields of the document, node and option types (exported ones are legal accessors)
var vQFieldNames = []string{"HasBOM", "MaxLivingAge", "nodes", "families", "pointerCache", "familiesMutex", "SimpleNode", "simpleNode", "document", "family",
	"tag", "value", "pointer", "children", "cachedFamilies", "cachedSpouses", "cachedUniqueIDs", "husband", "wife", "cachedHusband", "cachedWife",
	"parsedDateRange", "alreadyParsed", "mutex", "Tag", "Value", "simpleDocumentNode", "spouses", "spousesMutex", "uniqueIDsMutex"}

var vQArguments = []string{"First(\"-1\")", "Last(\"-1\")", "First(\"x\")", "Last(\"\")", "First(\"99999999999999999999\")", "Last(\"1.5\")",
	"First(.Pointer)", "Last(Length)", "First(First(1))", "Only(Length)", "Only(\"true\")", "Only(?)", "NodesWithTagPath(\"\")",
	"NodesWithTagPath(.Pointer)", "NodesWithTagPath(\"BIRT\", Length)", "Combine(\"a\", \"b\")", "Combine(Length, Length)", "Combine(?, .Individuals)",
	"Combine(.Individuals | First(1), .Individuals)", "Combine(.Individuals, \"foo\")", "Combine(.Individuals, .Individuals | Length)", "Combine(.Individuals, Combine)",
	"Combine(.Individuals | .Nodes | { tag: .Tag }, { a: \"b\" })", "Combine(.Individuals, ?)", "Combine(.Individuals, .Individuals | First(1) | .Name)", "{ a: First(\"-1\") }", "MergeDocumentsAndIndividuals(\"a\", \"b\")",
	"MergeDocumentsAndIndividuals(.Individuals, Document1)", "MergeDocumentsAndIndividuals(Document1, Document1)", ". = .", "? = ?", "Length > .Individuals"}

// VerifC15_Arguments: functions with ill-typed, negative, huge and nested arguments.
// cs%len(arguments) = stage, cs/len(arguments)%3 = source, documents alternate.
func VerifC15_Arguments(cs int) {
	stage := vQArguments[cs%len(vQArguments)]
	source := []string{".Individuals", "", ".Individuals | .Name | .String"}[cs/len(vQArguments)%3]
	query := stage
	if source != "" {
		query = source + " | " + stage
	}
	o := vQRun(query, vQDocs(cs/len(vQArguments)/3%2*3))
	VsObserve(query)
	VsObserve(o.panicked)
	VsReach("argument-query-evaluated")
	if o.panicked {
		VsClassSet(o.where + ":" + vQMsgClass(o.panicMsg))
	}
	VsAssert("ill-typed-argument-returns-a-value-or-an-error", !o.panicked)
}

var vQVarNames = []string{"X", "Y"}
var vQVarBodies = []string{"X", "Y", "1", ".Individuals", "{a: X}", "First(Y)", "X | Length", "Y = 1", "Combine(X, Y)"}

// VerifC15_Variables: every program of 1..3 variable definitions over two names (so that names are
// defined twice, before or after their use, with cycles through any definition) followed by a use:
// "V is E; V is E; V is E; V". cs%3+1 statements; names and bodies by choice (9 bodies).
func VerifC15_Variables(cs int) {
	n := cs%3 + 1
	query := ""
	for i := 0; i < n; i++ {
		query += vQVarNames[VsChoose("name", len(vQVarNames))] + " is " + vQVarBodies[VsChoose("body", len(vQVarBodies))] + "; "
	}
	query += []string{"X", "Y", ".Individuals | First(X)", "X | Y"}[VsChoose("use", 4)]
	o := vQRun(query, vQDocs(0))
	VsObserve(query)
	VsObserve(o.panicked)
	VsReach("variable-program-evaluated")
	if o.panicked {
		VsClassSet(o.where + ":" + vQMsgClass(o.panicMsg))
	}
	VsAssert("variable-program-returns-a-value-or-an-error", !o.panicked)
}
