package q

import (
	"bytes"
	"strings"

	"github.com/elliotchance/gedcom/v39"
	. "github.com/elliotchance/gedcom/v39/internal/vsym"
)

var vC18Queries = []string{
	".Individuals | .Name | .String",
	".Individuals | { name: .Name | .String, born: .Birth | .String }",
	".Individuals",
	".Individuals | .Name",
	".Individuals | First(1) | .Name | .String",
	".Individuals | .Birth",
	".Individuals | NodesWithTagPath(\"NOTE\") | .Value",
	"?",
}

// VerifC18_Query: a query result that carries file content (a name, a place or a note holding the
// token "Ta" + c + "nt" with a symbolic byte c) written by the html formatter of 'gedcom query':
// no byte of the page that depends on c may be an HTML metacharacter.
// cs%len(queries) = query, cs/len(queries)%3 = tainted value (given name, place, note).
func VerifC18_Query(cs int) {
	query := vC18Queries[cs%len(vC18Queries)]
	kind := cs / len(vC18Queries) % 3
	c := VsByte("taint", 0x20, 0x7e)
	tok := "Ta" + string([]byte{c}) + "nt"
	v := func(k int, plain string) string {
		if k == kind {
			return tok
		}
		return plain
	}
	text := "0 HEAD\n0 @I1@ INDI\n1 NAME " + v(0, "Zed") + " /Young/\n1 BIRT\n2 DATE 1 Jan 1850\n2 PLAC " + v(1, "Perth") + ", Australia\n1 NOTE " + v(2, "a note") + "\n1 DEAT\n0 TRLR\n"
	doc, err := gedcom.NewDocumentFromString(text)
	VsAssume(err == nil)
	engine, err := NewParser().ParseString(query)
	VsAssume(err == nil)
	res, err := engine.Evaluate([]*gedcom.Document{doc})
	VsAssume(err == nil)
	buf := bytes.NewBuffer(nil)
	werr := (&HTMLFormatter{Writer: buf}).Write(res)
	page := buf.String()
	VsObserve(query)
	VsObserve(werr == nil)
	VsReach("query-result-formatted-as-html")
	if VsNative() {
		meta := c == '<' || c == '>' || c == '"' || c == '&'
		VsAssert("query-output-cannot-change-page-structure", !(meta && strings.Contains(page, tok)))
		return
	}
	ok := true
	for i := 0; i < len(page); i++ {
		b := page[i]
		if VsIsSymbolic(b) {
			ok = VsAnd(ok, VsAll(b != '<', b != '>', b != '"', b != '&'))
		}
	}
	VsAssert("query-output-cannot-change-page-structure", ok)
}
