package q

import (
	"bytes"

	"github.com/elliotchance/gedcom/v39"
	. "github.com/elliotchance/gedcom/v39/internal/vsym"
)

const vSmokeGedcom = "0 HEAD\n" +
	"0 @I1@ INDI\n1 NAME John /Smith/\n1 SEX M\n1 BIRT\n2 DATE 3 Sep 1843\n2 PLAC Sydney, Australia\n1 DEAT\n2 DATE 1 Jan 1900\n1 FAMS @F1@\n" +
	"0 @I2@ INDI\n1 NAME Jane /Doe/\n1 SEX F\n1 BIRT\n2 DATE 1850\n1 FAMS @F1@\n" +
	"0 @F1@ FAM\n1 HUSB @I1@\n1 WIFE @I2@\n" +
	"0 TRLR\n"

var vSmokeQueries = []string{
	".Individuals | .Name | .String",
	".Individuals | Length",
	".Individuals | First(1) | .Name",
	".Individuals | { name: .Name | .String, born: .Birth | .String }",
	".Individuals | Only(.Name | .String = \"John Smith\") | .Pointer",
	"Names are .Individuals | .Name | .String; Names | Last(1)",
	".Families | .Husband | .Individual | .Name | .String",
	"?",
	".Individuals | ?",
	"Combine(.Individuals | .Name | .String, .Individuals | .Name | .String) | Length",
	".Individuals | NodesWithTagPath(BIRT, DATE) | .String",
}

func VerifSmoke_Query(cs int) {
	doc, err := gedcom.NewDocumentFromString(vSmokeGedcom)
	VsAssert("decodes", err == nil)
	query := vSmokeQueries[cs%len(vSmokeQueries)]
	engine, perr := NewParser().ParseString(query)
	VsObserve(query)
	VsObserve(perr == nil)
	VsReach("parsed")
	if perr != nil {
		return
	}
	result, eerr := engine.Evaluate([]*gedcom.Document{doc})
	VsObserve(eerr == nil)
	if eerr != nil {
		VsObserve(eerr.Error())
		return
	}
	for _, f := range []string{"json", "pretty-json", "csv", "gedcom", "html"} {
		buf := bytes.NewBuffer(nil)
		var ferr error
		switch f {
		case "json":
			ferr = (&JSONFormatter{Writer: buf}).Write(result)
		case "pretty-json":
			ferr = (&PrettyJSONFormatter{Writer: buf}).Write(result)
		case "csv":
			ferr = (&CSVFormatter{Writer: buf}).Write(result)
		case "gedcom":
			ferr = (&GEDCOMFormatter{Writer: buf}).Write(result)
		default:
			ferr = (&HTMLFormatter{Writer: buf}).Write(result)
		}
		VsObserve(f)
		VsObserve(ferr == nil)
		VsObserve(buf.String())
	}
}
