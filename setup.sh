#!/bin/sh
# Builds the gosym engine offline from /verif/engine (module cache only).
set -e
cd "$(dirname "$0")/engine"
export GOFLAGS=-mod=mod GOPROXY=off GOSUMDB=off GOTOOLCHAIN=local
mkdir -p ../bin ../evidence ../work
go build -o ../bin/vcheck ./cmd/vcheck
echo "built $(cd .. && pwd)/bin/vcheck"
