#!/bin/sh
# usage: check.sh <property id> <quick|thorough>
# Rebuilds nothing of /verif (setup.sh did); loads /repo's current working tree on every run.
cd "$(dirname "$0")"
export GOFLAGS=-mod=mod GOPROXY=off GOSUMDB=off GOTOOLCHAIN=local
[ -x bin/vcheck ] || ./setup.sh >/dev/null
exec ./bin/vcheck --property "$1" --tier "${2:-quick}"
