#!/bin/bash
# usage: verify_seeded.sh <dir with patch.diff demo_test.go meta.json>
# Confirms in a scratch worktree that the change applies, compiles, passes the repo's tests, and that the
# demo fails with the change and passes without it.
set -u
d=$1
export GOFLAGS=-mod=mod GOPROXY=off GOSUMDB=off GOTOOLCHAIN=local
tag=$(echo "$d" | md5sum | cut -c1-8)
wt=/tmp/mut/verify-$tag
rm -rf "$wt"; mkdir -p /tmp/mut
git -C /repo worktree add --detach "$wt" HEAD -q || exit 3
pkgdir=$(python3 -c "import json,sys; print(json.load(open('$d/meta.json')).get('demo_package_dir','.'))")
# the demo's own test functions
pat=$(grep -o 'func Test[A-Za-z0-9_]*' "$d/demo_test.go" | sed 's/func //' | sort -u | tr '\n' '|' | sed 's/|$//')
[ -n "$pat" ] || pat='Seeded|Demo' 
# clean tree: demo passes
cp "$d/demo_test.go" "$wt/$pkgdir/zz_seeded_demo_test.go"
( cd "$wt/$pkgdir" && go test -vet=off -count=1 -run "^($pat)\$" . > /tmp/mut/verify-$tag.clean.log 2>&1 ); clean=$?
rm "$wt/$pkgdir/zz_seeded_demo_test.go"
if ! git -C "$wt" apply "$d/patch.diff"; then echo "VERIFY $d: PATCH DOES NOT APPLY"; git -C /repo worktree remove --force "$wt"; exit 3; fi
( cd "$wt" && go build ./... && go test -vet=off -count=1 ./... > /tmp/mut/verify-$tag.suite.log 2>&1 ); suite=$?
cp "$d/demo_test.go" "$wt/$pkgdir/zz_seeded_demo_test.go"
( cd "$wt/$pkgdir" && go test -vet=off -count=1 -run "^($pat)\$" . > /tmp/mut/verify-$tag.mut.log 2>&1 ); mut=$?
echo "VERIFY $d: demo_on_clean_exit=$clean suite_on_changed_exit=$suite demo_on_changed_exit=$mut  => $([ $clean -eq 0 ] && [ $suite -eq 0 ] && [ $mut -ne 0 ] && echo CONFIRMED || echo NOT-CONFIRMED)"
git -C /repo worktree remove --force "$wt"
