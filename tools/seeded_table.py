#!/usr/bin/env python3
"""Writes tools/seeded_table.md from seeded/<id>/m<k>/meta.json (+ strengthened.json notes)."""
import json, glob, os
V='/verif'
notes=json.load(open(V+'/tools/seeded_notes.json')) if os.path.exists(V+'/tools/seeded_notes.json') else {}
rows=['| change | what it does | first run | final quick check | reported as |','|---|---|---|---|---|']
n=caught=0
for d in sorted(glob.glob(V+'/seeded/C*/m*')):
    m=json.load(open(d+'/meta.json'))
    key=os.path.basename(os.path.dirname(d))+'/'+os.path.basename(d)
    n+=1
    res=m.get('check_result','not run')
    if res=='caught': caught+=1
    viol='; '.join(v.replace('VerifC','C') for v in m.get('violations_reported',[])[:2])
    first=notes.get(key,{}).get('first','caught')
    extra=notes.get(key,{}).get('how','')
    title=m.get('title','').replace('|','/')
    rows.append('| %s | %s (%s) | %s | %s%s | %s |' % (key, title, ', '.join(m.get('files',[])), first, res, (' — '+extra) if extra else '', viol[:160]))
rows.append('')
rows.append('%d of %d seeded changes are caught by the final quick checks.' % (caught, n))
open(V+'/tools/seeded_table.md','w').write('\n'.join(rows)+'\n')
print(caught, n)
