#!/usr/bin/env python3
"""Rewrites the table of DESIGN section 0.2 (in tools/design_section0.md) from evidence/*.json."""
import json, glob, re
V='/verif'
sym=json.load(open(V+'/tools/symbolic_column.json'))
rows=['| id | tier | harnesses (cases, paths) | what is symbolic | obligations discharged | solver queries (s) | witnesses replayed | known findings | wall |','|---|---|---|---|---|---|---|---|---|']
for f in sorted(glob.glob(V+'/evidence/C??.json')):
    d=json.load(open(f)); c=d['coverage']
    hs='; '.join('%s (%d, %d)' % (b['harness'].replace('Verif'+d['property_id']+'_',''), b['cases'], b['paths']) for b in c['bounds'])
    rows.append('| %s | %s | %s | %s | %d of %d | %d (%.0f s) | %d | %d | %.0f s |' % (d['property_id'], d['tier'], hs, sym.get(d['property_id'],''), c['discharged'], c['obligations'], c['queries']['total'], c['solver_time_s'], c['traces_validated_against_impl'], c['counterexamples']['known_findings'], d['wall_s']))
table='\n'.join(rows)
p=V+'/tools/design_section0.md'; s=open(p).read()
a=s.index('| id | '); b=s.index('\n\n', a)
s=s[:a]+table+s[b:]
s=re.sub(r'Numbers are from the last full run of each quick check on the final tree; the\nevidence files carry the exact figures of the most recent run\.','Numbers are copied from the evidence files of the last full run of each check on the\nfinal tree (16 cores, one check at a time).', s)
open(p,'w').write(s)
print('rows', len(rows)-2)
