#!/usr/bin/env python3
"""Regenerates /verif/MANIFEST.json from the table below (run after registering a property)."""
import json, os
V = '/verif'
props = [json.loads(l) for l in open(V + '/properties.jsonl')]
NOTE_COMMON = ("Trusts go/packages+go/ssa, the engine's instruction semantics, the stdlib models listed in the evidence file "
               "(differentially tested against the real functions), and the SMT solvers; every counterexample and a sample of "
               "witnesses per run are replayed against the real build (go test -overlay) and their observations compared.")
claimed = {
 "C01": dict(
   text="Bounded symbolic model checking of Document.String -> NewDocumentFromString on the real SSA: every forest shape with up to 3 nodes is an outer case, tags are chosen from an alphabet covering every tag class, and all value bytes, pointer bytes and the BOM flag are solver variables; chains of depth 8..13 and each of the 167 registered tags (root and child) are separate cases. The solver proves that the encoder's text is accepted and decodes to the same nodes (tag, value, pointer, order, nesting, Go type) and BOM flag.",
   ref="DESIGN.md §3 C01", note=NOTE_COMMON),
 "C02": dict(
   text="Bounded symbolic model checking of Decoder.Decode against an independent reference model of the line grammar written from the statement: files of 1..2 (thorough 3) lines with symbolic level digits, value bytes and xref bytes, all terminator / blank / option combinations; the solver proves that every accepted file yields exactly the tree dictated by the levels and that the re-encoded normal form is a fixpoint.",
   ref="DESIGN.md §3 C02", note=NOTE_COMMON),
 "C03": dict(
   text="Bounded symbolic model checking of Decoder.Decode for totality: every input of 0..6 (thorough 8) fully symbolic ASCII bytes, 10 structure-aware hostile templates with symbolic level digits and value bytes, and the C02 grammar files, under all option combinations; every Go run-time check (index, nil, type assertion) is an implicit obligation. The solver proves that each path returns a document or an error naming the line, and that the only panic is the documented indent panic without AllowInvalidIndents.",
   ref="DESIGN.md §3 C03", note="Process-level behaviour, 1 MB lines and native fuzzing are outside this technique. " + NOTE_COMMON),
 "C07": dict(
   text="Bounded symbolic model checking of DeepEqual / DeepCopy on trees of up to 3 (permutation: 7) nodes over 8 node kinds with symbolic values: copy independence, reflexivity up to copying, permutation invariance, symmetry and single-edit sensitivity are assertions over all values. One genuine, non-small defect (order dependence with constrained dates) is a recorded known finding.",
   ref="DESIGN.md §3 C07", note=NOTE_COMMON),
 "C08": dict(
   text="Bounded symbolic model checking of CompareNodes and the NodeDiff operations on pairs of small trees with symbolic values (every Equals pattern among siblings): provenance, coverage, two-sidedness and one-sidedness of entries, all-two-sided diffs for reordered copies, and input purity under every sequence of two diff operations.",
   ref="DESIGN.md §3 C08", note=NOTE_COMMON),
 "C09": dict(
   text="Bounded symbolic model checking of MergeNodes / MergeNodeSlices on small trees and lists with symbolic values and three merge functions: nothing lost, nothing invented, length bounds, each element merged at most once (unique markers), freshness (no shared node, inputs untouched by the merge and by later mutation of the result).",
   ref="DESIGN.md §3 C09", note=NOTE_COMMON),
 "C04": dict(
   text="Bounded symbolic model checking of NewDateRangeWithString, Date.String/DateRange.String/DateNode.String on the real SSA (the repo's own regular expressions run through a ported backtracking matcher): every keyword spelling x letter case x month spelling x shape x range form is an outer case and all day and year digits are solver variables, so each case covers every day 0..99 and every year 1..9999 at once. The solver proves that in-grammar sentences parse to the fields as written (both range ends), that calendar-impossible days and undocumented forms are invalid, that printing gives the canonical spelling and that re-parsing gives the same start and end.",
   ref="DESIGN.md §3 C04", note=NOTE_COMMON),
 "C05": dict(
   text="Bounded symbolic model checking of Date.Time, Date.Years, IsBefore/IsAfter and DateRange.Duration on the real SSA: day, month and year are solver variables, so each granularity is one symbolic run over all 3,652,059 days / 119,988 months / 9,999 years. The solver proves start = 00:00 of the first day, end = last nanosecond of the last day, the calendar length (leap rule included), strict day-to-day monotonicity and containment of Years, and before/after = calendar order for two independent dates.",
   ref="DESIGN.md §3 C05", note="float64 is abstracted soundly (reals + uninterpreted monotone rounding with relative error 2^-53); calendar lemmas used by the time model (ordering of day numbers, successor/predecessor closed forms) are validated exhaustively by the self-test. " + NOTE_COMMON),
 "C06": dict(
   text="Bounded symbolic model checking of the real DateRange.Compare (SSA interpreted, four symbolic dates): for every feasible path the solver proves that the returned relation is the documented one for the day intervals the code itself derives, never Invalid, that swapping operands gives the converse and that exactly one simplified verdict holds. All days of years 1..9999 and all 81 granularity combinations are covered by symbolic variables, not samples.",
   ref="DESIGN.md §3 C06", note="Agreement of Date.Time() with the calendar is C05's obligation. " + NOTE_COMMON),
}
NA = {}
checks = []
for pid in sorted(claimed):
    c = claimed[pid]
    checks.append({
        "property_id": pid,
        "quick_cmd": "./check.sh %s quick" % pid,
        "thorough_cmd": "./check.sh %s thorough" % pid,
        "evidence_file": "/verif/evidence/%s.json" % pid,
        "replay_cmd_template": "./bin/vcheck --replay {path}",
        "engine": "gosym",
        "level_claimed": {"category": "model_checking", "text": c["text"], "design_ref": c["ref"]},
        "level_note": c["note"],
        "technique": "bounded symbolic execution of the repo's go/ssa; an SMT solver (z3 5.1 / z3 4.8 / cvc5) decides every branch feasibility and every assertion over all symbolic inputs; native replay of witnesses",
    })
na = [{"property_id": p["id"], "reason": NA.get(p["id"], "harness not built yet in this session (engine exists; see DESIGN.md §6 build order)")} for p in props if p["id"] not in claimed]
m = {"version": 1,
     "setup_cmd": "./setup.sh",
     "hooks": {"guard": "verif", "enable": "no source hooks: harnesses and the vsym API are injected as go/packages overlays and `go test -overlay` files; nothing under /repo is edited for instrumentation",
               "baseline_off_cmd": "cd /repo && go test -vet=off -count=1 ./...", "source_commits": [], "add_only": True},
     "engines": [{"name": "gosym", "path": "/verif/engine", "serves_properties": sorted(claimed),
                  "kind_free_text": "symbolic interpreter over go/ssa of the repo's own code (concrete heap, symbolic scalars/strings), SMT-LIB2 to z3 4.8.12 / z3 5.1.0 / cvc5, stdlib as validated models, native replay via go test -overlay"}],
     "checks": checks,
     "not_applicable": na,
     "notes": "fix: commits in /repo are listed in /verif/known_findings.txt"}
json.dump(m, open(V + '/MANIFEST.json', 'w'), indent=1)
print("claimed:", sorted(claimed))
