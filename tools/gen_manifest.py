#!/usr/bin/env python3
"""Regenerates /verif/MANIFEST.json from the table below (run after registering a property)."""
import json, os
V = '/verif'
props = [json.loads(l) for l in open(V + '/properties.jsonl')]
NOTE_COMMON = ("Trusts go/packages+go/ssa, the engine's instruction semantics, the stdlib models listed in the evidence file "
               "(differentially tested against the real functions), and the SMT solvers; every counterexample and a sample of "
               "witnesses per run are replayed against the real build (go test -overlay) and their observations compared.")
claimed = {
 "C01": dict(
   text="Bounded symbolic model checking of Document.String -> NewDocumentFromString on the real SSA: every forest shape with up to 3 nodes is an outer case, tags are chosen from an alphabet covering every tag class, and all value bytes, pointer bytes and the BOM flag are solver variables; chains of depth 8..13, husband / wife nodes inside and after families, and each of the 167 registered tags (root and child) are separate cases. The solver proves that the encoder's text is accepted and decodes to the same nodes (tag, value, pointer, order, nesting, Go type) and BOM flag.",
   ref="DESIGN.md §3 C01", note=NOTE_COMMON),
 "C02": dict(
   text="Bounded symbolic model checking of Decoder.Decode against an independent reference model of the line grammar written from the statement: files of 1..2 (thorough 3) lines with symbolic level digits, value bytes and xref bytes, all terminator / blank / option combinations, and files of 4..6 (thorough 7) lines in which every level digit is symbolic (every walk through the levels); the solver proves that every accepted file yields exactly the tree dictated by the levels and that the re-encoded normal form is a fixpoint.",
   ref="DESIGN.md §3 C02", note=NOTE_COMMON),
 "C03": dict(
   text="Bounded symbolic model checking of Decoder.Decode for totality: every input of 0..6 (thorough 8) fully symbolic ASCII bytes, 10 structure-aware hostile templates with symbolic level digits and value bytes, and the C02 grammar files, under all option combinations; every Go run-time check (index, nil, type assertion) is an implicit obligation. The solver proves that each path returns a document or an error naming the line, and that the only panic is the documented indent panic without AllowInvalidIndents.",
   ref="DESIGN.md §3 C03", note="Process-level behaviour, 1 MB lines and native fuzzing are outside this technique. " + NOTE_COMMON),
 "C07": dict(
   text="Bounded symbolic model checking of DeepEqual / DeepCopy on trees of up to 3 (permutation: 5) nodes over 8 node kinds with symbolic values: copy independence, reflexivity up to copying, permutation invariance, symmetry and single-edit sensitivity are assertions over all values. One genuine, non-small defect (order dependence with constrained dates) is a recorded known finding.",
   ref="DESIGN.md §3 C07", note=NOTE_COMMON),
 "C08": dict(
   text="Bounded symbolic model checking of CompareNodes and the NodeDiff operations on pairs of small trees with symbolic values (every Equals pattern among siblings): provenance, coverage, two-sidedness and one-sidedness of entries, all-two-sided diffs for reordered copies, and input purity under every sequence of two diff operations.",
   ref="DESIGN.md §3 C08", note=NOTE_COMMON),
 "C09": dict(
   text="Bounded symbolic model checking of MergeNodes / MergeNodeSlices on small trees and lists with symbolic values and three merge functions: nothing lost, nothing invented, length bounds, each element merged at most once (unique markers), freshness (no shared node, inputs untouched by the merge and by later mutation of the result).",
   ref="DESIGN.md §3 C09", note=NOTE_COMMON),
 "C04": dict(
   text="Bounded symbolic model checking of NewDateRangeWithString, Date.String/DateRange.String/DateNode.String on the real SSA (the repo's own regular expressions run through a ported backtracking matcher): every keyword spelling x letter case x month spelling x shape x range form is an outer case and all day and year digits are solver variables, so each case covers every day 0..99 and every year 1..9999 at once. The solver proves that in-grammar sentences parse to the fields as written (both range ends), that calendar-impossible days and undocumented forms are invalid, that printing gives the canonical spelling and that re-parsing gives the same start and end.",
   ref="DESIGN.md §3 C04", note=NOTE_COMMON),
 "C05": dict(
   text="Bounded symbolic model checking of Date.Time, Date.Years, IsBefore/IsAfter and DateRange.Duration on the real SSA: day, month and year are solver variables, so each granularity is one symbolic run over all 3,652,059 days / 119,988 months / 9,999 years. The solver proves start = 00:00 of the first day, end = last nanosecond of the last day, the calendar length (leap rule included), strict day-to-day monotonicity and containment of Years, and before/after = calendar order for two independent dates.",
   ref="DESIGN.md §3 C05", note="float64 is abstracted soundly (reals + uninterpreted monotone rounding with relative error 2^-53); calendar lemmas used by the time model (ordering of day numbers, successor/predecessor closed forms) are validated exhaustively by the self-test. " + NOTE_COMMON),
 "C06": dict(
   text="Bounded symbolic model checking of the real DateRange.Compare (SSA interpreted, four symbolic dates): for every feasible path the solver proves that the returned relation is the documented one for the day intervals the code itself derives, never Invalid, that swapping operands gives the converse and that exactly one simplified verdict holds. All days of years 1..9999 and all 81 granularity combinations are covered by symbolic variables, not samples.",
   ref="DESIGN.md §3 C06", note="Agreement of Date.Time() with the calendar is C05's obligation. " + NOTE_COMMON),

 "C10": dict(
   text="Bounded symbolic model checking of MergeDocumentsAndIndividuals (the real Compare pipeline runs under the deterministic scheduler): a 3-person family merged with 9 variants of a second document (identical, renumbered, renumbered with more detail, edited copy with dropped / added people, disjoint, clashing pointers, empty, copies with a symbolic name byte) x default / strict / lenient thresholds x both argument orders. Every person carries a unique marker fact: each marker exactly once in the output, merged individuals join one left and one right person and hold the facts of both, inputs untouched, the output re-decodes to a fixpoint, every pointer names one record, every reference resolves, every family role still points to the same person. The missing pointer-rewriting step is a recorded known finding (8 signatures).",
   ref="DESIGN.md §3 C10", note=NOTE_COMMON),
 "C11": dict(
   text="Bounded symbolic model checking of IndividualNodes.Compare under the schedule explorer and the happens-before race monitor: 8 input scenarios (renumbered copy, shared pointers, duplicated and crossed unique ids, identical twins, empty sides, a symbolic name byte) x Jobs 0..3 with the default thresholds (thorough: also 0/0, 1/1, 0/1, 1/0), every schedule with at most one pre-emption at channel, sync.Map and mutex operations being a path; Jobs 1..3 with a symbolic MinimumWeightedSimilarity on the deterministic schedule. Every left and right individual in exactly one result, no empty result, every pair meets the (symbolic) threshold or shares an id or a trusted pointer, identical matching on every schedule and equal to the sequential run when no candidates tie; with Jobs 2 and 3 no two conflicting accesses to a field, element, global or map are unordered by synchronisation (reports are confirmed with the Go race detector).",
   ref="DESIGN.md §3 C11", note="GOMAXPROCS is an environment choice {1,2,16} when the code asks for it; true parallelism, weak-memory effects, Jobs > 3 and pre-emption budgets > 1 are outside the bounds. " + NOTE_COMMON),
 "C12": dict(
   text="Bounded symbolic model checking of the similarity functions on the real SSA: JaroWinkler over every pair of byte strings of lengths 0..5 (thorough 0..7) with all 256 byte values symbolic, StringSimilarity on printable ASCII strings of lengths 0..3, DateRange.Similarity and its monotonicity on symbolic year-granularity dates (years 1..9999), the weighted surrounding similarity with symbolic component scores and weights, and IndividualNode / IndividualNodes.Similarity on individuals with symbolic names and birth years. Range [0,1], symmetry, identity, neutrality of missing data and monotonicity in distance are assertions over all values.",
   ref="DESIGN.md §3 C12", note="float64 is abstracted soundly (reals + uninterpreted monotone rounding, relative error 2^-53 + absolute 2^-1073), so exact last-ulp claims are not made; date similarity on month/day granularity and with a symbolic maxYears is outside the bounds (solver unknown). " + NOTE_COMMON),
 "C13": dict(
   text="Bounded symbolic model checking of every history of 2 (thorough 3) mutating operations (AddNode, DeleteNode, SetNodes, AddIndividual, AddFamily, SetHusband/SetWife, AddChild, ... chosen symbolically with symbolic targets) on a family document: after each history every derived view (Individuals, Families, NodeByPointer, per-individual Families/Spouses/Parents, family Husband/Wife/Children, warnings) of the live document equals the same view of a fresh decode of its serialisation.",
   ref="DESIGN.md §3 C13", note=NOTE_COMMON),
 "C14": dict(
   text="Bounded symbolic model checking of robustness against hostile references: a template family file in which one reference at a time (HUSB/WIFE/CHIL/FAMS/FAMC/pointer definitions) is dangling, of the wrong kind, self-referential, empty or duplicated (the corrupted line is chosen symbolically), pushed through the relation accessors, warnings, Compare / similarity and the whole html Publish pipeline; every Go run-time check is an implicit obligation and any panic is a counterexample.",
   ref="DESIGN.md §3 C14", note="Process-level behaviour of the CLI is outside this technique. " + NOTE_COMMON),
 "C15": dict(
   text="Bounded symbolic model checking of query totality: every query of 0..3 printable ASCII bytes (all bytes symbolic) through tokenizer and parser; source | stage (| stage) pipelines over 9 sources x 42 stage templates (accessors, unknown accessors, all functions with right and wrong argument counts, objects, variables, operators, numeric arguments as symbolic digits) on 4 document sets, each result handed to all five formatters; 19 hand-picked hostile programs (self-referential variables, nil pipelines). A panic, a call depth beyond the engine budget (stack overflow) or a mutated document is a counterexample.",
   ref="DESIGN.md §3 C15", note="'gedcom query' as a process, random long queries and documents beyond the 4 sets are outside this technique. " + NOTE_COMMON),
 "C16": dict(
   text="Bounded symbolic model checking of query semantics: the six comparison operators of the real BinaryExpr on operands of 0..2 (thorough 0..3) symbolic bytes against a reference order written from the statement (numbers as exact rationals, otherwise trimmed lower-cased text), with '!=' = not '=', trichotomy and <=/>= composition as laws, also through tokenizer+parser on 28 special spellings; 22 queries (accessor chains, First/Last with a symbolic count 0..9, Length, Only with a symbolic literal, Combine, NodesWithTagPath, objects, variables) on family documents of 0..4 people with symbolic name bytes, compared as JSON with the value computed through the Go API; variable inlining, repeatability under 4 map iteration orders, Combine doubling and Only partition identities.",
   ref="DESIGN.md §3 C16", note="Exponent / hex / inf / nan operand spellings are covered by the concrete pairs only; accessors returning floats of symbolic dates are outside the bounds. " + NOTE_COMMON),
 "C17": dict(
   text="Bounded symbolic model checking of living-person privacy in the real html Publish pipeline (in-memory FileWriter): a family document in which one person (chosen symbolically) is living, with symbolic name / place / pointer bytes as secrets; with LivingVisibilityHide the solver proves that no byte of any written page depends on the secret values (output invariance: the emitted site is identical on every path of a case) and that no file or link for the living person exists; with Show / Placeholder the documented behaviour holds.",
   ref="DESIGN.md §3 C17", note=NOTE_COMMON),
 "C18": dict(
   text="Bounded symbolic model checking of HTML escaping: one tainted field at a time (individual name, place, source title, note, family event, diff page values) holds symbolic bytes including < > \" & and is pushed through the real Publish and diff-page writers; the solver proves that in every written page the tainted bytes occur only escaped in text and attribute contexts.",
   ref="DESIGN.md §3 C18", note="JavaScript/URL contexts and two tainted values at once are outside the bounds. " + NOTE_COMMON),
 "C19": dict(
   text="Bounded symbolic model checking of the publish pipeline's file set: documents whose names / surnames / places hold symbolic bytes (collisions, case differences, symbols, empty names) published through the real writer pool under a deterministic scheduler, 4 map iteration orders and injected writer faults: unique file names, every link target written, reserved names never taken by data, identical output for every schedule/map order, and an error (never a partial silent success) when the writer fails.",
   ref="DESIGN.md §3 C19", note="OS-level file system behaviour and true parallel data races (race detector) are outside this technique; the scheduler explores deterministic interleavings only. " + NOTE_COMMON),
 "C20": dict(
   text="Bounded symbolic model checking of Document.Warnings on the real SSA: families and individuals whose exact dates have a symbolic day (1..28), month and year by choice: child-born-before-parent iff the child's birthday is earlier, once per parent and naming the right people, under 3 record orders and either parent; siblings-too-close iff 2 days..9 months apart once per pair; married too young / too old; individual too old; wrong event order; one unparsable-date warning per bad date; multiple sexes; inverted spouses for all 16 sex combinations. Before/after = calendar order is proved in the same check (VerifC05_Order) and used as a lemma.",
   ref="DESIGN.md §3 C20", note="Years are choices (a symbolic year makes every age computation a multi-second query); dates within a few days of a threshold are excluded (float age arithmetic is modelled with sound rounding slack). " + NOTE_COMMON),
}
EXTRA = {
 "C01": " A family record nested below other records (with its husband / wife / child lines, with or without a root family before it) is a further case.",
 "C02": " Near-grammar files (runs of blanks and tabs, hostile xref bytes, white space outside ASCII around a value) must decode to a tree whose encoding is a fixpoint and whose values are trimmed.",
 "C03": " Level numbers of up to 21 symbolic digits cover every number up to and beyond the 64-bit range (saturation and wrap-around).",
 "C07": " Re-ordering is also checked one level down for every node kind; the exact years include 0000.",
 "C08": " Nodes whose equality looks below them (EVEN, BIRT, RESI) are compared with copies whose grandchildren are re-ordered, up to four levels deep, through CompareNodes, String, Sort and DeepEqual, with both inputs re-read afterwards.",
 "C09": " The exported merge function is also applied directly to the caller's nodes (arguments untouched, result fresh).",
 "C10": " A second harness matches people by unique identifiers against what their pointers say (swapped pointers, twins, renumbered copies) and renumbers only the family record.",
 "C12": " Lists of 3..5 siblings and 4x4 lists with tied scores (symmetry under the library's own sort algorithms, which the engine executes as ported), the surrounding similarity over 16 family shapes, and weight vectors on a grid of quarters (zero weights) are further harnesses.",
 "C13": " The second session widened the alphabet to 24 edit operations (name / date / sex setters, pointer setters, Document.SetNodes / AddNode, a symbolic pointer), added a three-generation base document and compares every reading of the views with a second reading.",
 "C14": " Publish also runs with a symbolic surname initial (two-byte characters U+00C0..U+00FF, printable ASCII) and with surnames of one or two symbolic bytes (symbols only).",
 "C15": " Every program of 1..3 variable definitions over two names and nine bodies (24,696 programs) and the names of struct fields (exported and unexported) as accessors are further harnesses.",
 "C16": " The operator laws are also checked on every pair of two-byte characters of six blocks (Latin-1, Latin extended-A, Greek, Cyrillic).",
 "C17": " The living person has places below events, attributes and citations, and end-of-life events without a death record.",
 "C18": " The pointer of an individual without a name is a further tainted value (publish and diff report).",
 "C19": " The real DirectoryFileWriter runs on a modelled file system (publishing into a directory that already holds another site); a person named like a place and places in several spellings are part of the name and determinism cases; writer faults are also replayed natively on every path.",
 "C20": " Three siblings in every order of the CHIL lines and marriages with unusable dates are further harnesses.",
}
for _pid, _t in EXTRA.items():
    claimed[_pid]["text"] += _t
RACE_TECH = "; schedules are decision variables of the same exploration (bounded pre-emption); a happens-before (vector clock) monitor reports unordered conflicting accesses of the explored executions, each confirmed with go test -race"
NA = {}
checks = []
for pid in sorted(claimed):
    c = claimed[pid]
    checks.append({
        "property_id": pid,
        "quick_cmd": "./check.sh %s quick" % pid,
        "thorough_cmd": "./check.sh %s thorough" % pid,
        "evidence_file": "/verif/evidence/%s.json" % pid,
        "replay_cmd_template": "./bin/vcheck --replay {path}",
        "engine": "gosym",
        "level_claimed": {"category": "model_checking", "text": c["text"], "design_ref": c["ref"]},
        "level_note": c["note"],
        "technique": "bounded symbolic execution of the repo's go/ssa; an SMT solver (z3 5.1 / z3 4.8 / cvc5) decides every branch feasibility and every assertion over all symbolic inputs; native replay of witnesses" + (RACE_TECH if pid in ("C11", "C19") else ""),
    })
na = [{"property_id": p["id"], "reason": NA.get(p["id"], "harness not built yet in this session (engine exists; see DESIGN.md §6 build order)")} for p in props if p["id"] not in claimed]
m = {"version": 1,
     "setup_cmd": "./setup.sh",
     "hooks": {"guard": "verif", "enable": "no source hooks: harnesses and the vsym API are injected as go/packages overlays and `go test -overlay` files; nothing under /repo is edited for instrumentation",
               "baseline_off_cmd": "cd /repo && go test -vet=off -count=1 ./...", "source_commits": [], "add_only": True},
     "engines": [{"name": "gosym", "path": "/verif/engine", "serves_properties": sorted(claimed),
                  "kind_free_text": "symbolic interpreter over go/ssa of the repo's own code (concrete heap, symbolic scalars/strings), SMT-LIB2 to z3 4.8.12 / z3 5.1.0 / cvc5, stdlib as validated models, native replay via go test -overlay"}],
     "checks": checks,
     "not_applicable": na,
     "notes": "fix: commits in /repo are listed in /verif/known_findings.txt"}
json.dump(m, open(V + '/MANIFEST.json', 'w'), indent=1)
print("claimed:", sorted(claimed))
