#!/usr/bin/env python3
"""Inserts/refreshes the 'As built' block of every per-property section of DESIGN.md from the registry,
and splices tools/design_section0.md (with the seeded table) in as section 0."""
import re, json, os, glob
V='/verif'
reg=open(V+'/engine/cmd/vcheck/registry.go').read()
props={}
for m in re.finditer(r'\{\s*ID:\s*"(C\d\d)",(.*?)\n\t\},', reg, re.S):
    pid, body = m.group(1), m.group(2)
    hs=[]
    for h in re.finditer(r'\{Name: "(\w+)"(.*?)Bounds: "((?:[^"\\]|\\.)*)"\}', body, re.S):
        name, mid, bounds = h.group(1), h.group(2), h.group(3).replace('\\"','"')
        q=re.search(r'Quick: tierSpec\{([^}]*)\}', mid); t=re.search(r'Thorough: tierSpec\{([^}]*)\}', mid)
        extra=[]
        for k in ('Sched','Solver','MapOrder','Invariant'):
            mm=re.search(k+r': ([^,]+(?:\{[^}]*\})?)', mid)
            if mm and not (k=='Sched' and mm.group(1).strip()=='-1'): extra.append(k+'='+mm.group(1).strip())
        hs.append((name, q.group(1) if q else '', t.group(1) if t else '', bounds, ', '.join(extra)))
    a=re.search(r'Assumptions: \[\]string\{(.*?)\},\n', body, re.S)
    assumptions=re.findall(r'"((?:[^"\\]|\\.)*)"', a.group(1)) if a else []
    o=re.search(r'Outside:\s+"((?:[^"\\]|\\.)*)"', body)
    props[pid]=(hs, assumptions, o.group(1) if o else '')
d=open(V+'/DESIGN.md').read()
# remove old blocks
d=re.sub(r'\n<!-- asbuilt:begin -->.*?<!-- asbuilt:end -->\n', '\n', d, flags=re.S)
for pid,(hs,ass,outside) in sorted(props.items()):
    block=['<!-- asbuilt:begin -->','**As built** (from `engine/cmd/vcheck/registry.go`; where this differs from the design text below, this is what runs):','']
    for name,q,t,b,extra in hs:
        block.append('* `%s` — quick {%s}, thorough {%s}%s: %s' % (name,q,t,(' ['+extra+']') if extra else '',b))
    if ass: block.append('* assumptions: ' + '; '.join(x.replace('\\"','"') for x in ass))
    if outside: block.append('* outside the bounds: ' + outside.replace('\\"','"'))
    block.append('<!-- asbuilt:end -->')
    m=re.search(r'\n### %s [^\n]*\n' % pid, d)
    if not m: print('no section for',pid); continue
    d=d[:m.end()]+'\n'+'\n'.join(block)+'\n'+d[m.end():]
# section 0
sec0=open(V+'/tools/design_section0.md').read()
table_path=V+'/tools/seeded_table.md'
sec0=sec0.replace('SEEDED_TABLE', open(table_path).read() if os.path.exists(table_path) else '(table pending)')
d=re.sub(r'\n<!-- section0:begin -->.*?<!-- section0:end -->\n', '\n', d, flags=re.S)
marker='\n--------------------------------------------------------------------------\n\n## 1. The technique'
assert marker in d
d=d.replace(marker, '\n--------------------------------------------------------------------------\n\n<!-- section0:begin -->\n'+sec0+'\n<!-- section0:end -->\n'+marker,1)
sep='-'*74+'\n'
while sep+'\n\n'+sep in d:
    d=d.replace(sep+'\n\n'+sep, sep)
open(V+'/DESIGN.md','w').write(d)
print('ok', sorted(props))
