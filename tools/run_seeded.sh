#!/bin/bash
# usage: run_seeded.sh <patch.diff> <property id> [tier] : runs one check against a scratch copy of /repo
# with the patch applied (the copy and its outputs live under /tmp and are removed afterwards).
set -u
patch=$1; id=$2; tier=${3:-quick}
tag=$(echo "$patch" | md5sum | cut -c1-8)
wt=/tmp/mut/$id-$tag; out=/tmp/mutout/$id-$tag
rm -rf "$wt" "$out"; mkdir -p /tmp/mut "$out"
git -C /repo worktree add --detach "$wt" HEAD -q || exit 3
if ! git -C "$wt" apply "$patch"; then echo "PATCH DOES NOT APPLY"; git -C /repo worktree remove --force "$wt"; exit 3; fi
cd /verif
VERIF_REPO=$wt VERIF_OUT=$out timeout 3600 ./bin/vcheck --property "$id" --tier "$tier" ${VCHECK_ARGS:-} > "$out/log.txt" 2>&1
rc=$?
grep -a -E "^VIOLATION|^KNOWN-FINDING|^INCONCLUSIVE|^SUMMARY" "$out/log.txt" | cut -c1-260 | sort | uniq -c | sort -rn | head -12
echo "RESULT $id $(basename $(dirname $patch)) exit=$rc"
git -C /repo worktree remove --force "$wt"
rm -rf "$out/work"
exit $rc
