#!/bin/bash
# usage: seeded_all.sh [lane-file...] : verifies and checks every seeded change under /verif/seeded/<id>/m<k>/
# (or only the "<id> <k>" pairs listed on stdin), quick tier, and records the outcome in meta.json.
cd /verif
while read id k; do
  d=/verif/seeded/$id/m$k
  [ -f "$d/patch.diff" ] || continue
  v=$(./tools/verify_seeded.sh "$d" 2>&1 | grep VERIFY)
  confirmed=false; echo "$v" | grep -q "=> CONFIRMED" && confirmed=true
  out=$(./tools/run_seeded.sh "$d/patch.diff" "$id" quick 2>&1)
  rc=$(echo "$out" | grep -a "^RESULT" | sed 's/.*exit=//')
  viol=$(echo "$out" | grep -a "VIOLATION" | sed 's/.*replays\/[^/]*\///; s/\.json.*//' | sort -u | head -6 | tr '\n' ';')
  python3 - "$d/meta.json" "$confirmed" "$rc" "$viol" <<'PY'
import json,sys
p,conf,rc,viol=sys.argv[1:5]
m=json.load(open(p))
m['confirmed_breaks_property_and_passes_tests']=(conf=='true')
m['check_exit']=int(rc) if rc.strip().lstrip('-').isdigit() else None
m['check_result']={'1':'caught','0':'missed','2':'inconclusive'}.get(rc.strip(),'error')
m['violations_reported']=[v for v in viol.split(';') if v]
json.dump(m,open(p,'w'),indent=1)
PY
  echo "$id m$k confirmed=$confirmed exit=$rc $viol"
done
