#!/usr/bin/env python3
"""Records the outcome of a (targeted) seeded run in seeded/<id>/m<k>/meta.json.
usage: seeded_record.py <results file>   lines: '<id> m<k> <harness or full> exit=<rc> <violations;>'"""
import json, sys
for line in open(sys.argv[1]):
    parts = line.split()
    if len(parts) < 4: continue
    pid, mk, h, rc = parts[0], parts[1], parts[2], parts[3].replace('exit=', '')
    viol = parts[4] if len(parts) > 4 else ''
    p = f'/verif/seeded/{pid}/{mk}/meta.json'
    m = json.load(open(p))
    m['confirmed_breaks_property_and_passes_tests'] = True
    m['check_exit'] = int(rc) if rc.lstrip('-').isdigit() else None
    m['check_result'] = {'1': 'caught', '0': 'missed', '2': 'inconclusive'}.get(rc, 'error')
    m['check_run'] = 'quick check of the property' + ('' if h == 'full' else f' restricted to harness {h}')
    m['violations_reported'] = [v for v in viol.split(';') if v]
    json.dump(m, open(p, 'w'), indent=1)
    print(pid, mk, m['check_result'])
