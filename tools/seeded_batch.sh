#!/bin/bash
# usage: seeded_batch.sh <ID>... : verify and check every seeded change found under /tmp/seeded_out/<ID>/m*/
for id in "$@"; do
  for d in /tmp/seeded_out/$id/m*/; do
    d=${d%/}
    [ -f "$d/patch.diff" ] || continue
    v=$(/verif/tools/verify_seeded.sh "$d" 2>&1 | grep VERIFY)
    echo "$v" >> /tmp/seeded_results.txt
    r=$(/verif/tools/run_seeded.sh "$d/patch.diff" "$id" quick 2>&1)
    echo "$r" | tail -14 >> /tmp/seeded_results.txt
    echo "----" >> /tmp/seeded_results.txt
  done
done
